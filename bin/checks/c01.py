"""C01 - parsing never panics, hangs or over-allocates, whatever the bytes."""
import json
import os
import vlib
from checks import common

PROP = "C01"


def ev_key(e):
    return "%s:%s" % (e["fn"], vlib.hashlib.sha1(json.dumps([e["a"], e["input"]], sort_keys=True).encode()).hexdigest()[:12])


def run(tier):
    rep = vlib.Report(PROP, tier)
    binary = vlib.build_harness()
    thorough = tier == "thorough"
    # (1) the model's share: totality of the specification on all short strings over the structural alphabet and the
    #     allocation-hostile corpus; each evaluation replayed on the crate (the outcome is pinned for the hostile corpus)
    d, res, cases = vlib.tlc_chunked(PROP, "mc", "MC_C01", nchunks=12)
    rep.add_tlc("MC_C01", res)
    outs = vlib.replay_cases(binary, d, cases)
    vlib.judge_cases(rep, cases, outs, keyf=lambda c: "%s:%s:%s" % (c["fn"], c["note"]["kind"], vlib.hashlib.sha1(json.dumps([c["a"], c["input"]]).encode()).hexdigest()[:10]))
    rep.cov["traces_validated_against_impl"] += len(cases)
    big = [c for c in cases if c["note"]["kind"] == "hostile"]
    rep.sample({"hostile": {"fn": big[0]["fn"], "input": big[0]["input"], "expect": big[0]["expect"], "observed_alloc": outs[big[0]["id"]]["alloc"]}})
    # (1b) depth: inputs made of very MANY small elements (200 000 records in one buffer, 8 000 messages in one record, 16 000 list
    #      elements): a walk that recurses per element instead of looping exhausts the stack - the process dies, which nothing in-process
    #      can report, so the orchestrator isolates the input by bisection (vlib.replay_cases) and reports it
    za = {"len": 0, "ext": 0, "ct": 0, "ver": 0, "sub": ""}
    rec = lambda ct, ver, body: [ct, ver >> 8, ver & 255, len(body) >> 8, len(body) & 255] + body
    drec = lambda ct, k, body: [ct, 254, 253, 0, 0, 0, 0, (k >> 24) & 255, (k >> 16) & 255, (k >> 8) & 255, k & 255, len(body) >> 8, len(body) & 255] + body
    many_n = 400000 if thorough else 120000
    drecs = lambda ct, n, body: [x for k in range(n) for x in drec(ct, k, body)]
    cert_list = [0, 0, 0] * 20000
    cert_body = [len(cert_list) >> 16, (len(cert_list) >> 8) & 255, len(cert_list) & 255] + cert_list
    deep = [("tls_parser_many", rec(21, 0x0303, [1, 0]) * many_n),
            ("tls_parser_many", rec(20, 0x0303, [1]) * (many_n // 2) + [22, 3]),
            ("parse_dtls_plaintext_records", drecs(20, many_n, [1])),
            ("parse_dtls_plaintext_records", drecs(21, many_n // 2, [2, 40]) + [1, 2, 3]),
            ("parse_tls_plaintext", rec(22, 0x0303, [14, 0, 0, 0] * 4160)),
            ("parse_tls_plaintext", rec(21, 0x0301, [1, 0] * 8320)),
            ("parse_dtls_plaintext_record", drec(21, 7, [1, 0] * 8320)),
            ("parse_tls_extensions", [0, 23, 0, 0] * 16383),
            ("parse_tls_message_handshake", [11, len(cert_body) >> 16, (len(cert_body) >> 8) & 255, len(cert_body) & 255] + cert_body),
            ("parse_named_groups", [0, 23] * 32767)]
    dcases = [{"id": "deep%d" % k, "fn": fn, "a": za, "input": [{"lit": b, "fill": [0, 0, 0]}], "expect": {"k": "any", "p": -1, "v": [], "n": 0, "e": ""}, "pin": "none",
               "note": {"kind": "deep", "elements": fn}} for k, (fn, b) in enumerate(deep)]
    # (on a thread with Rust's default 2 MiB stack: what a parser called from a worker thread gets)
    douts = vlib.replay_cases(binary, vlib.workdir(PROP, "deep"), dcases, name="deep", stack_kb=2048)
    vlib.judge_cases(rep, dcases, douts, keyf=lambda c: "deep:%s:%s" % (c["fn"], c["id"]))
    # ... and in the UNOPTIMISED build (what `cargo test` runs): an optimiser may turn a per-element recursion into a loop, a debug build does not
    dev_binary = vlib.build_harness(target="target-dev", dev=True)
    dcases2 = [dict(c, id=c["id"] + "/dev") for c in dcases]
    douts2 = vlib.replay_cases(dev_binary, vlib.workdir(PROP, "deep_dev"), dcases2, name="deep", stack_kb=2048)
    vlib.judge_cases(rep, dcases2, douts2, keyf=lambda c: "deep-dev:%s:%s" % (c["fn"], c["id"]))
    # (2) exhaustive: ALL inputs of length <= 2 over all 256 byte values for every entry point and argument variant
    x2 = os.path.join(d, "x2.ndjson")
    rc, err = vlib.run_harness(binary, ["exhaust2", x2])
    lines = vlib.read_ndjson(x2)
    import re
    m = re.search(r"exhaust2: (\d+) calls", err)
    rep.count(int(m.group(1)) if m else 0)
    sampled = []
    for l in lines:
        if l["kind"] == "summary":
            for cls in l["classes"]:
                rep.nontrivial((l["fn"], l["a"]["len"], l["a"]["ct"], cls))
        elif l["kind"] == "offender":
            rep.violation(ev_key(l), {"id": l["id"], "fn": l["fn"], "a": l["a"], "input": l["input"], "expect": {"k": "any"}, "pin": "none"},
                          "Robust", l["res"], "observation invariant %s broken on a %d-byte input (heap %d)" % (l["broken"], l["len"], l["alloc"]))
        else:
            sampled.append(l)
    # (3) seeded structural mutation of the TLC corpus + random inputs for every entry point; every event is judged by TLC
    #     against Robust.tla, and a sample against the precise decoders (advisory)
    corpus = os.path.join(d, "corpus.ndjson")
    small = [c for c in cases if c["note"]["kind"] == "short"][::40]
    extra = []
    for mod in (["MC_C03", "MC_C05", "MC_C13", "MC_C14", "MC_C10", "MC_C04"] if thorough else ["MC_C03", "MC_C05", "MC_C14", "MC_C13"]):
        _, r2, cs = vlib.tlc_chunked(PROP, "corpus_" + mod, mod, nchunks=8)
        rep.add_tlc(mod + "(corpus)", r2)
        extra += cs
    vlib.write_ndjson(corpus, [{"fn": c["fn"], "a": c["a"], "input": c["input"]} for c in small + extra])
    fz = os.path.join(d, "fuzz.ndjson")
    rc, _ = vlib.run_harness(binary, ["fuzz", str(vlib.seed()), "4000" if thorough else "700", fz, corpus])
    events = vlib.read_ndjson(fz)
    if rc == 3:
        rep.violation("hang:fuzz", {}, None, vlib.read_ndjson(fz + ".timeout"), "watchdog: a call did not return within 5 s")
    broken = common.trace_robust(rep, PROP, "robust", events + sampled, nchunks=12)
    byid = {e["id"]: e for e in events + sampled}
    for eid, inv in broken.items():
        e = byid[eid]
        rep.violation(ev_key(e), {"id": e["id"], "fn": e["fn"], "a": e["a"], "input": e["input"], "expect": {"k": "any"}, "pin": "none"},
                      "Robust." + inv, e["res"], "observation invariant %s broken on a %d-byte input (outcome %s, heap %d): %s" % (
                          inv, e["len"], e["res"]["k"], e["alloc"], e["res"].get("e", "")))
    for e in events:
        rep.count()
        r = e["res"]
        rep.nontrivial((e["fn"], r["k"], r["e"] if r["k"] in ("err", "fail") else "", min(e["len"], 64) // 4))
        why = vlib.robust_check(e)      # the same predicate, evaluated on every event here too
        if why and e["id"] not in broken:
            raise vlib.ToolError("Robust.tla and the orchestrator disagree on event %s: %s" % (e["id"], why))
    rep.cov["traces_validated_against_impl"] += len(events) - len(broken)
    # precise decoders on a sample (model drift detector; advisory by design)
    sample = events[::7 if not thorough else 3]
    spec = common.trace_parse(rep, PROP, "oracle", sample, nchunks=12)
    adv = 0
    for e in sample:
        s = spec.get(e["id"])
        if s is not None and vlib.compare("full", s, e["res"])[0]:
            adv += 1
            if len(rep.advisory) < 8:
                rep.advisory.append({"fn": e["fn"], "a": e["a"], "input": e["input"], "spec": s, "observed": e["res"]})
    rep.cov["advisory_mismatches"] += adv
    # (3b) EVERY length of every variable-size field (the sites of MC_LenSweep), in-process: the boundaries are in the corpora above,
    #      the interior of the length ranges is here (0 .. 2304 dense - 9000 thorough -, every multiple of 96 and 128 beyond)
    dls, rls, sites = vlib.tlc_single(PROP, "lensites", "MC_LenSites", env={"VERIF_PROP": "none"}, workers=1, heap="2g", timeout=300, out_name="sites.ndjson")
    rep.add_tlc("MC_LenSites", rls)
    if len(sites) < 80:
        raise vlib.ToolError("MC_LenSites emitted %d sites" % len(sites))
    lso = os.path.join(dls, "lens.out.ndjson")
    rc, err = vlib.run_harness(binary, ["lensweep-robust", os.path.join(dls, "sites.ndjson"), lso, "9000" if thorough else "2304"], timeout=3000)
    m = re.search(r"lensweep-robust: (\d+) calls", err)
    rep.count(int(m.group(1)) if m else 0)
    for l in vlib.read_ndjson(lso):
        if l["kind"] == "offender":
            rep.violation("len:%s:site=%s:L=%s" % (l["fn"], l["site"], l["L"]), {"id": l["id"], "fn": l["fn"], "a": l["a"], "input": l["input"], "expect": {"k": "any"}, "pin": "none"},
                          "Robust", l["res"], "observation invariant %s broken on a %d-byte input (a well-formed structure whose variable-size field has %d bytes; heap %d): %s" % (
                              l["broken"], l["len"], l["L"], l["alloc"], l.get("fmt_panic") or l["res"].get("e", "")))
        else:
            for cls in l["classes"]:
                rep.nontrivial((l["fn"], "len-site", l["site"], cls))
    # (4) the defragmenter under arbitrary call sequences (the C07 driver, under the same observation)
    dr = os.path.join(d, "defrag.ndjson")
    rc, _ = vlib.run_harness(binary, ["defrag-fuzz", str(vlib.seed() + 17), "8000" if thorough else "1500", "30", dr])
    runs = vlib.read_ndjson(dr)
    # ... and at real sizes: fragmented messages of 40000..200000 bytes (buffer lengths around 2^16 and 2^17), the repository's flights
    from checks import c07
    big = c07.big_runs() + c07.capture_runs()
    # hand-built records no conforming peer can send (the defragmenter takes a TlsRawRecord, whatever its size): a FIRST fragment
    # of 10 MiB + 1 and of 12 MiB that stays incomplete, then small ones
    for n in (10 * 1024 * 1024 - 1, 10 * 1024 * 1024, 10 * 1024 * 1024 + 1, 12 * 1024 * 1024):
        big.append({"id": "hugefirst:%d" % n, "ops": [
            {"op": "parse_record", "ct": 22, "ver": 771, "data": [{"lit": [11, 255, 255, 255], "fill": [0, 0, 0]}, {"lit": [], "fill": [1, 3, n - 4]}]},
            {"op": "parse_record", "ct": 22, "ver": 771, "data": [{"lit": [1, 2, 3], "fill": [0, 0, 0]}]},
            {"op": "parse_record", "ct": 21, "ver": 771, "data": [{"lit": [1, 0], "fill": [0, 0, 0]}]},
            {"op": "reset", "ct": 0, "ver": 0, "data": [{"lit": [], "fill": [0, 0, 0]}]},
            {"op": "parse_record", "ct": 24, "ver": 771, "data": [{"lit": [1, 255, 255], "fill": [0, 0, 0]}, {"lit": [], "fill": [2, 5, n]}]}]})
    # first records LONGER than the message they start with, the message complete by its declared length but cut short inside
    # (a list length reaching beyond the body): the one-shot parser answers Incomplete on a record that holds all of it
    inner = {11: lambda h: [0, 0, 0][:0] + [((h + 100) >> 16) & 255, ((h + 100) >> 8) & 255, (h + 100) & 255],           # certificate list beyond the body
             1: lambda h: [3, 3] + [7] * 32 + [0, 255, 254],                                                      # cipher list beyond the body
             2: lambda h: [3, 3] + [7] * 32 + [0, 0, 47, 0, 255, 255],                                            # extensions beyond the body
             4: lambda h: [0, 0, 1, 44, 255, 255],                                                                 # ticket beyond the body
             22: lambda h: [1, 255, 255, 255]}                                                                     # OCSP response beyond the body
    for dlen in (16389, 16640, 20000, 70000):
        for mt, mk in sorted(inner.items()):
            for h in sorted({16381, 16384, dlen - 5, dlen - 9}):
                if not (16384 < 4 + h < dlen):
                    continue
                head = [mt, (h >> 16) & 255, (h >> 8) & 255, h & 255] + mk(h)
                big.append({"id": "innertrunc:%d:%d:%d" % (dlen, mt, h), "ops": [
                    {"op": "parse_record", "ct": 22, "ver": 771, "data": [{"lit": head, "fill": [0, 0, 0]}, {"lit": [], "fill": [9, 5, dlen - len(head)]}]},
                    {"op": "parse_record", "ct": 22, "ver": 771, "data": [{"lit": [1, 2, 3], "fill": [0, 0, 0]}]},
                    {"op": "parse_record", "ct": 22, "ver": 771, "data": [{"lit": [], "fill": [3, 1, 16384]}]},
                    {"op": "parse_record", "ct": 21, "ver": 771, "data": [{"lit": [1, 0], "fill": [0, 0, 0]}]},
                    {"op": "parse_record_nocopy", "ct": 22, "ver": 771, "data": [{"lit": [14, 0, 0, 0], "fill": [0, 0, 0]}]},
                    {"op": "reset", "ct": 0, "ver": 0, "data": [{"lit": [], "fill": [0, 0, 0]}]},
                    {"op": "parse_record", "ct": 22, "ver": 771, "data": [{"lit": [14, 0, 0, 0], "fill": [0, 0, 0]}]}]})
    # the same kind of message - complete by its declared length, cut short inside - arriving in SEVERAL records, with bytes of the next message
    # behind it: the buffer ends up longer than the message while the one-shot parser still answers Incomplete
    small_inner = [[1, 0, 0, 38, 3, 3] + [7] * 32 + [32, 9, 9, 9],                       # ClientHello: a 32-byte session id announced with 3 bytes left
                   [11, 0, 0, 6, 0, 0, 9, 0, 0, 1],                                       # Certificate: list of 9 bytes in a body of 6
                   [2, 0, 0, 40, 3, 3] + [7] * 32 + [0, 0, 47, 0, 0, 9, 1],               # ServerHello: extensions of 9 bytes, 1 present
                   [22, 0, 0, 5, 1, 0, 0, 9, 1], [4, 0, 0, 6, 0, 0, 1, 44, 0, 9]]         # CertificateStatus / NewSessionTicket
    for mi, msg in enumerate(small_inner):
        for tail in ([], [14, 0, 0, 0, 1], [9] * 40):
            whole = msg + tail
            for k in sorted({1, 3, 4, 10, len(msg) - 1, len(msg)} & set(range(1, len(whole)))):
                big.append({"id": "innersplit:%d:%d:%d" % (mi, len(tail), k), "ops": [
                    {"op": "parse_record", "ct": 22, "ver": 771, "data": [{"lit": whole[:k], "fill": [0, 0, 0]}]},
                    {"op": "parse_record", "ct": 22, "ver": 771, "data": [{"lit": whole[k:], "fill": [0, 0, 0]}]},
                    {"op": "parse_record", "ct": 22, "ver": 771, "data": [{"lit": [1, 2, 3], "fill": [0, 0, 0]}]},
                    {"op": "parse_record", "ct": 23, "ver": 771, "data": [{"lit": [1], "fill": [0, 0, 0]}]},
                    {"op": "reset", "ct": 0, "ver": 0, "data": [{"lit": [], "fill": [0, 0, 0]}]}]})
    bin_, bout = os.path.join(d, "defrag_big.in.ndjson"), os.path.join(d, "defrag_big.out.ndjson")
    vlib.write_ndjson(bin_, [{"id": r["id"], "prefix": [], "tests": r["ops"], "seq": True} for r in big])
    vlib.run_harness(binary, ["defrag", bin_, bout])
    bo = {o["id"]: o for o in vlib.read_ndjson(bout)}
    runs += [{"id": r["id"], "ops": r["ops"], "results": bo[r["id"]]["results"]} for r in big if r["id"] in bo]
    if len(bo) != len(big):
        raise vlib.ToolError("defragmenter big runs: %d results for %d runs" % (len(bo), len(big)))
    for r in runs:
        fed = 0
        for op, x in zip(r["ops"], r["results"]):
            rep.count()
            oplen = len(c07.vlib_bytes(op))
            fed += oplen
            why = None
            if x["res"]["k"] in ("panic", "timeout"):
                why = "panic: %s" % x["res"]["e"]
            elif x["alloc"] > 1024 * oplen + 2 * x["buflen"] + 65536:
                why = "heap %d bytes inside one call for a %d-byte record (buffer %d bytes)" % (x["alloc"], oplen, x["buflen"])
            elif x.get("fmt_panic"):
                why = "Debug formatting panicked"
            if why:
                ops = r["ops"][:r["results"].index(x) + 1]
                rep.violation("defrag:%s" % vlib.hashlib.sha1(json.dumps(ops).encode()).hexdigest()[:10], {"ops": ops}, "returns Ok/Err", x, why, "path")
                break
            rep.nontrivial(("defrag", op["op"], x["res"]["k"], x["inprog"]))
    # ... and the real-size stream (10 MiB boundary, a completion just below it, 70 000 one-byte continuation records)
    sp = os.path.join(d, "defrag_stream.ndjson")
    rc, _ = vlib.run_harness(binary, ["defrag-stream", sp])
    evs = vlib.read_ndjson(sp)
    if rc == 3 or len(evs) < 70000:
        rep.violation("hang:defrag-stream", {}, "returns", vlib.read_ndjson(sp + ".timeout") if rc == 3 else len(evs), "the real-size defragmenter stream did not finish", "path")
    for n, e in enumerate(evs):
        rep.count()
        if e["k"] in ("panic", "timeout") or e["alloc"] > 1024 * e["len"] + 2 * e["buflen"] + 65536:
            rep.violation("defrag-stream:%d" % n, {"stream_event": n, "event": e}, "returns Ok/Err within the heap bound", e,
                          "real-size defragmenter stream, event %d (%s of %d bytes, buffer %d): %s" % (n, e["op"], e["len"], e["buflen"], e["k"] if e["k"] in ("panic", "timeout") else "heap %d" % e["alloc"]), "path")
            break
    # what the parser HOLDS after very many records of one defragmentation (per-call windows cannot see bookkeeping that grows by a few bytes per record)
    hp = os.path.join(d, "defrag_hold.ndjson")
    vlib.run_harness(binary, ["defrag-hold", "4000000" if thorough else "400000", hp])
    for h in vlib.read_ndjson(hp):
        rep.count(h["records"])
        why = None
        if h["panicked"]:
            why = "a call panicked"
        elif h["held"] > 2 * h["buflen"] + 4096:
            why = "after %d continuation records the parser holds %d bytes of heap for a buffer of %d bytes" % (h["records"], h["held"], h["buflen"])
        if why:
            rep.violation("defrag-hold:%s" % h["run"], {"run": h["run"], "records": h["records"]}, "held <= 2 x buffer + 4 KiB", h, why, "path")
        rep.nontrivial(("defrag-hold", h["run"]))
    rep.assumptions += ["Heap bound per call: A = 1024 bytes per input byte + B = 64 KiB (defragmenter: + twice the buffer length after the call, i.e. amortised Vec growth, the buffer itself staying below 10 MiB); measured worst case ~205 B/byte",
                        "The harness is built with overflow-checks and debug-assertions on; a hang is a call exceeding 5 s"]
    return rep.finish("exploration",
                      "inputs = (1) every byte string of length <= 3 over a 12-symbol structural alphabet x 86 entry points, enumerated by TLC with the "
                      "specification's answer, + an allocation-hostile corpus (u24 maxima on 10-byte inputs, 16640-message records, 65535-byte lists); "
                      "(2) ALL strings of length <= 2 over 256 values x every entry point and argument variant; (3) seeded structural mutation of "
                      "TLC-generated valid encodings; (4) defragmenter operation sequences; each call observed for unwinding, a 5 s watchdog, the "
                      "heap high-water mark and Debug formatting; distinct = (function, outcome, error kind, input size class)")


def replay(path):
    return common.replay_case_file(PROP, path)
