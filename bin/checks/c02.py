"""C02 - TLS record framing: exact header decode, length cap, streaming contract."""
import vlib
from checks import common

PROP = "C02"


def key_of(c):
    n = c.get("note", {})
    return "%s:ct=%s:len=%s:cut=%s" % (c["fn"], n.get("ct"), n.get("len"), n.get("cut"))


def run(tier):
    rep = vlib.Report(PROP, tier)
    binary = vlib.build_harness()
    # (a) spec -> impl: bounded exhaustive model, every case replayed on the three parsers
    d, res, cases = vlib.tlc_chunked(PROP, "mc", "MC_C02")
    rep.add_tlc("MC_C02", res)
    outs = vlib.replay_cases(binary, d, cases)
    vlib.judge_cases(rep, cases, outs, keyf=key_of)
    rep.cov["traces_validated_against_impl"] += len(cases)
    for c in cases[:2] + cases[len(cases) // 2:len(cases) // 2 + 1]:
        rep.sample({"fn": c["fn"], "input": c["input"], "expect": c["expect"], "pin": c["pin"]})
    return rep.finish("model_checking",
                      "cases = model records (7 content types x payload pool x trailing bytes x every prefix cut, lying "
                      "lengths, cap boundary 16639/16640/16641/65535) x 3 parsers; distinct = (function, pin, outcome, value size)")


def replay(path):
    return common.replay_case_file(PROP, path)
