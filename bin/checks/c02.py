"""C02 - TLS record framing: exact header decode, length cap, streaming contract."""
import vlib
from checks import common

PROP = "C02"


def key_of(c):
    n = c.get("note", {})
    return "%s:ct=%s:len=%s:cut=%s" % (c["fn"], n.get("ct"), n.get("len"), n.get("cut"))


def run(tier):
    rep = vlib.Report(PROP, tier)
    binary = vlib.build_harness()
    # (a) spec -> impl: bounded exhaustive model, every case replayed on the three parsers
    d, res, cases = vlib.tlc_chunked(PROP, "mc", "MC_C02")
    rep.add_tlc("MC_C02", res)
    outs = vlib.replay_cases(binary, d, cases)
    vlib.judge_cases(rep, cases, outs, keyf=key_of)
    rep.cov["traces_validated_against_impl"] += len(cases)
    # (b) impl -> spec: value-level mutations of the accepted records, compared with the specification's answer
    common.dfuzz(rep, binary, PROP, cases, 3000 if tier != "thorough" else 60000)
    # (c) impl -> spec: content types x ALL 65536 declared lengths x {header only, header + 3 bytes} x 3 parsers, judged by TLC
    import os
    hp = os.path.join(d, "headers.ndjson")
    _, err = vlib.run_harness(binary, ["sweep-headers", hp, "all" if tier == "thorough" else "quick"])
    tables = vlib.read_ndjson(hp)
    _, res2, verdicts = vlib.tlc_chunked(PROP, "sweep_tlc", "Trace_C02", nchunks=15, env={"VERIF_IN": hp}, out_name="verdict", timeout=3000)
    rep.add_tlc("Trace_C02", res2)
    if len(verdicts) != len(tables):
        raise vlib.ToolError("header sweep: %d verdicts for %d tables" % (len(verdicts), len(tables)))
    rep.count(65536 * len(tables))
    for t in tables:
        for r in t["rle"]:
            rep.nontrivial((t["fn"], t["ct"], t["ver"], t["extra"], r[0]))
    for v in verdicts:
        if v["agree"]:
            rep.cov["traces_validated_against_impl"] += 1
        else:
            f = v["first"]
            ln = f[1] if len(f) == 4 else -1
            rep.violation("%s:ct=%s:ver=%s:len=%s:cut=%s" % (v["fn"], v["ct"], v["ver"], ln, 5 + v["extra"]), {"fn": v["fn"], "ct": v["ct"], "ver": v["ver"], "declared_len": ln, "bytes_after_header": v["extra"]},
                          f[3] if len(f) == 4 else None, f[2] if len(f) == 4 else None,
                          "header sweep %s ct=%s ver=%#06x (+%s bytes): from declared length %s the crate answers %s, the specification says %s" % (
                              v["fn"], v["ct"], v["ver"], v["extra"], ln, f[2] if len(f) == 4 else "?", f[3] if len(f) == 4 else "?"), "sweep")
    # (growth) the contract over a whole run: the streaming consumer of Stream.tla, model-checked and bound to the real parsers
    common.stream_runs(rep, binary, PROP, ["parse_tls_plaintext", "parse_tls_raw_record", "parse_tls_encrypted", "tls_parser"], 7,
                       thorough=(tier == "thorough"))
    # the two emergent properties for EVERY record size: TLAPS proof on the contract-level machine (MC_Stream: RefinesStreamLen)
    common.tlaps_proof(rep, PROP, "StreamLen", "Safety (Spec => [](BoundedReads /\\ NeverReadsAhead)), every record size T >= 5")
    for c in cases[:2] + cases[len(cases) // 2:len(cases) // 2 + 1]:
        rep.sample({"fn": c["fn"], "input": c["input"], "expect": c["expect"], "pin": c["pin"]})
    # (growth) every declared length WITH its payload (the header sweep above stops at header + 3 bytes)
    common.len_sweep(rep, binary, PROP)
    # (growth) a record at the head of a buffer of 10 MiB - 1 .. 2^24 + 1 bytes: everything after it is the remainder
    common.huge_buffers(rep, binary, PROP, fns=("parse_tls_raw_record", "parse_tls_encrypted", "parse_tls_plaintext", "parse_tls_record_header", "tls_parser"))
    return rep.finish("model_checking",
                      "cases = model records (7 content types x payload pool x trailing bytes x every prefix cut, lying "
                      "lengths, cap boundary 16639/16640/16641/65535) x 3 parsers; sweep = 8 (quick) / 256 (thorough) content types x {header only, +3 bytes} under TLS 1.2 plus 2x7 (quick) / 16x16 (thorough) "
                      "(content type, version) pairs, each x all 65536 declared lengths x 3 parsers, judged by TLC; distinct = (function, pin, outcome, value size)")


def replay(path):
    return common.replay_case_file(PROP, path)
