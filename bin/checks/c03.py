"""C03 - a record's payload decodes to exactly its messages, in order."""
import vlib
from checks import common

PROP = "C03"


def key_of(c):
    n = c.get("note", {})
    return "%s:ct=%s:%s:%s" % (c["fn"], n.get("ct"), n.get("kind"), vlib.hashlib.sha1(vlib.json.dumps(c["input"]).encode()).hexdigest()[:10])


def run(tier):
    rep = vlib.Report(PROP, tier)
    binary = vlib.build_harness()
    d, cases, outs = common.mc_replay(rep, binary, PROP, "MC_C03", keyf=key_of)
    # across record boundaries: every ordered pair / triple of content types through the multi-record entry point
    common.mc_replay(rep, binary, PROP, "MC_C03_Seq", keyf=lambda c: "seq:%s" % "-".join(str(x) for x in c["note"]["types"]), run="seq", nchunks=4)
    # (b) impl -> spec: value-level mutations of the accepted payloads, the crate's answer compared with the specification's
    common.dfuzz(rep, binary, PROP, cases, 3000 if tier != "thorough" else 60000)
    # (growth) every length of the variable-size fields, not only the boundaries (MC_LenSweep)
    common.len_sweep(rep, binary, PROP)
    return rep.finish("model_checking",
                      "cases = payloads built from pools of well-formed and malformed messages (lists of 0..3 items + tails, "
                      "every truncation of well-formed payloads, heartbeat/application-data/unknown content types) x "
                      "{one-step, two-step, with-header}; distinct = (function, pin, outcome, value size)")


def replay(path):
    return common.replay_case_file(PROP, path)
