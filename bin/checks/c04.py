"""C04 - handshake messages decode to the values an RFC encoder wrote; bad ones fail."""
import vlib
from checks import common

PROP = "C04"


def run(tier):
    rep = vlib.Report(PROP, tier)
    binary = vlib.build_harness()
    d, cases, outs = common.mc_replay(rep, binary, PROP, "MC_C04", keyf=common.default_key)
    # the u24 maxima: 16 MiB bodies, evaluated by TLC on a lazily defined input, built by the harness from (header, filler)
    d2, res2, big = vlib.tlc_single(PROP, "u24", "MC_C04_U24", workers=1, heap="6g", timeout=600, out_name="cases.ndjson")
    rep.add_tlc("MC_C04_U24", res2)
    outs2 = vlib.replay_cases(binary, d2, big, name="u24")
    vlib.judge_cases(rep, big, outs2, keyf=common.default_key)
    rep.cov["traces_validated_against_impl"] += len(big)
    # (growth) deep decoding as an IDS composes the parsers: ClientHello -> extension list, ServerKeyExchange -> parameters + signature
    common.mc_replay(rep, binary, PROP, "MC_Deep", keyf=common.default_key, run="deep", nchunks=4)
    # (growth) REAL traffic: the repository's own test vectors (captures of ClientHello / ServerHello / Certificate / ServerKeyExchange /
    # ... flights, extension blocks, DH and ECDH parameters, SCT lists), their tails and truncations, through 29 entry points:
    # the crate's answer is compared IN FULL with the answer TLC computes from the specification
    common.captures(rep, binary, PROP)
    # (growth) inputs nobody chose: value-level mutations of TLC's accepted encodings and of the accepted captures (every field
    # visits the middle of its range), the crate's answer compared with the one TLC computes from the specification
    common.dfuzz(rep, binary, PROP, cases, 4000 if tier != "thorough" else 80000)
    # (growth) seeded, structurally random values: every field from its whole domain, list counts 0 .. hundreds, extension blocks made of
    # typed extensions in arbitrary order, alone and inside records of 1..3 messages (RandRoundTrip on the specification, replayed in full)
    common.mc_replay(rep, binary, PROP, "MC_C04_Rand", keyf=lambda c: "rand:%s:%s" % (c["note"]["t"], c["id"]), run="rand", nchunks=12,
                     env={"VERIF_SEED": str(vlib.seed())})
    # (growth) every length of the variable-size fields, not only the boundaries (MC_LenSweep)
    common.len_sweep(rep, binary, PROP)
    return rep.finish("model_checking",
                      "cases = RFC encodings of ~700 abstract handshake values (17 variants, per-field boundary sets incl. "
                      "0/1/32/255/256/65535) with suffixes, each public body parser, every shortened hl of the small values, "
                      "lying hl (0,1,true-1,true+1,max), the property's rejection list, all 240 unknown type codes; 10 messages at the u24 maximum "
                      "(16 MiB bodies, TLC evaluating a lazily defined input); deep decoding compositions; the repository's ~42 test vectors x tails x truncations x 29 entry points "
                      "(impl -> spec, full comparison); "
                      "distinct = (function, pin, outcome, value size)")


def replay(path):
    return common.replay_case_file(PROP, path)
