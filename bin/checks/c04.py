"""C04 - handshake messages decode to the values an RFC encoder wrote; bad ones fail."""
import vlib
from checks import common

PROP = "C04"


def run(tier):
    rep = vlib.Report(PROP, tier)
    binary = vlib.build_harness()
    common.mc_replay(rep, binary, PROP, "MC_C04", keyf=common.default_key)
    return rep.finish("model_checking",
                      "cases = RFC encodings of ~700 abstract handshake values (17 variants, per-field boundary sets incl. "
                      "0/1/32/255/256/65535) with suffixes, each public body parser, every shortened hl of the small values, "
                      "lying hl (0,1,true-1,true+1,max), the property's rejection list, all 240 unknown type codes; "
                      "distinct = (function, pin, outcome, value size)")


def replay(path):
    return common.replay_case_file(PROP, path)
