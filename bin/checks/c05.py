"""C05 - extensions decode by IANA type; GREASE and unknown types are preserved."""
import vlib
from checks import common

PROP = "C05"


def run(tier):
    rep = vlib.Report(PROP, tier)
    binary = vlib.build_harness()
    d, cases, outs = common.mc_replay(rep, binary, PROP, "MC_C05", keyf=common.default_key)
    # (b) impl -> spec: value-level mutations of the accepted extension encodings, compared with the specification's answer
    common.dfuzz(rep, binary, PROP, cases, 3000 if tier != "thorough" else 60000)
    common.ext_type_sweep(rep, binary, PROP)
    # typed contents that are a bare number: every value of the number (all 256 / 65536) through the extension parsers
    common.site_sweep(rep, binary, PROP, keep=lambda s: s["fn"].startswith("parse_tls_extension") or s["fn"].endswith("_extension"))
    # (growth) seeded, structurally random typed values (counts 0 .. dozens, arbitrary sizes and contents) alone and in lists, three dispatchers
    common.mc_replay(rep, binary, PROP, "MC_C05_Rand", keyf=lambda c: "rand:%s:%s" % (c["note"]["t"], c["id"]), run="rand", nchunks=12,
                     env={"VERIF_SEED": str(vlib.seed())})
    # (growth) every length of the variable-size fields, not only the boundaries (MC_LenSweep)
    common.len_sweep(rep, binary, PROP)
    return rep.finish("model_checking",
                      "cases = RFC encodings of ~90 typed extension values (26 types, boundary contents), the 16 GREASE points, "
                      "~37 unknown types, through the 3 dispatchers with suffixes; 16 tag parsers on own and foreign types; "
                      "empty-only extensions with data; outer and inner length lies; lists of 0..3 extensions and broken lists; all 65536 types x 3 dispatchers x 2 payloads and x 16 tag parsers swept and judged by TLC; 16 numeric content fields (versions, groups, schemes, modes, name / status types) swept over their whole domain; "
                      "distinct = (function, pin, outcome, value size)")


def replay(path):
    return common.replay_case_file(PROP, path)
