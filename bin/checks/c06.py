"""C06 - parsers are local and zero-copy: only the declared bytes matter."""
import json
import os
import vlib
from checks import common

PROP = "C06"
SELF_DELIMITING = {
    "parse_tls_plaintext", "parse_tls_encrypted", "parse_tls_raw_record", "tls_parser", "parse_dtls_plaintext_record",
    "parse_dtls_message_handshake", "parse_tls_message_handshake", "parse_tls_extension", "parse_tls_client_hello_extension",
    "parse_tls_server_hello_extension", "parse_tls_extension_unknown", "parse_ct_signed_certificate_timestamp",
    "parse_ct_signed_certificate_timestamp_list", "parse_dh_params", "parse_ecdh_params", "parse_ec_parameters", "ECPoint::parse",
    "parse_digitally_signed", "parse_digitally_signed_old", "parse_content_and_signature", "parse_tls_record_header", "parse_dtls_record_header",
    "parse_tls_extension_sni", "parse_tls_extension_max_fragment_length", "parse_tls_extension_status_request",
    "parse_tls_extension_elliptic_curves", "parse_tls_extension_ec_point_formats", "parse_tls_extension_signature_algorithms",
    "parse_tls_extension_heartbeat", "parse_tls_extension_encrypt_then_mac", "parse_tls_extension_extended_master_secret",
    "parse_tls_extension_session_ticket", "parse_tls_extension_key_share", "parse_tls_extension_pre_shared_key",
    "parse_tls_extension_early_data", "parse_tls_extension_supported_versions", "parse_tls_extension_cookie",
    "parse_tls_extension_psk_key_exchange_modes",
}


def run(tier):
    rep = vlib.Report(PROP, tier)
    binary = vlib.build_harness()
    thorough = tier == "thorough"
    # (a) the model: Local / ClassStable on a pool of accepted and complete-but-malformed structures with suffixes
    d, cases, outs = common.mc_replay(rep, binary, PROP, "MC_C06", keyf=common.default_key)
    # (b) relational, oracle-free: every accepted input of the corpora re-run on its consumed bytes and with suffixes
    corpus = []
    for mod in (["MC_C05", "MC_C13", "MC_C14", "MC_C10", "MC_C04", "MC_C03"] if thorough else ["MC_C05", "MC_C13", "MC_C14", "MC_C10", "MC_C04"]):
        _, r2, cs = vlib.tlc_chunked(PROP, "corpus_" + mod, mod, nchunks=8)
        rep.add_tlc(mod + "(corpus)", r2)
        keep = [c for c in cs if c["fn"] in SELF_DELIMITING and c["expect"]["k"] == "ok" and len(json.dumps(c["input"])) < 20000]
        # (a caller-supplied content parser bounded by a length ARGUMENT is local to that window, not to its consumed bytes: MC_C13!BoundedRule)
        keep = [c for c in keep if c["a"].get("sub") != "bounded"]
        corpus += keep if (thorough or mod != "MC_C04") else keep[::4]
    fz = os.path.join(d, "fuzz.ndjson")
    cpath = os.path.join(d, "corpus.ndjson")
    vlib.write_ndjson(cpath, [{"fn": c["fn"], "a": c["a"], "input": c["input"]} for c in corpus])
    vlib.run_harness(binary, ["fuzz", str(vlib.seed() + 5), "1500" if thorough else "300", fz, cpath])
    fuzz_ok = [e for e in vlib.read_ndjson(fz) if e["fn"] in SELF_DELIMITING and e["res"]["k"] == "ok"]
    lin, lout = os.path.join(d, "loc.in.ndjson"), os.path.join(d, "loc.out.ndjson")
    allc = [{"id": "c%d" % k, "fn": c["fn"], "a": c["a"], "input": c["input"]} for k, c in enumerate(corpus)] + \
           [{"id": "f%d" % k, "fn": e["fn"], "a": e["a"], "input": e["input"]} for k, e in enumerate(fuzz_ok)]
    vlib.write_ndjson(lin, allc)
    rc, _ = vlib.run_harness(binary, ["locality", lin, lout])
    runs = vlib.read_ndjson(lout)
    _, res3, verdicts = vlib.tlc_chunked(PROP, "trace_tlc", "Trace_C06", nchunks=12, env={"VERIF_IN": lout}, out_name="verdict")
    rep.add_tlc("Trace_C06", res3)
    if len([v for v in verdicts if v["id"] == "done"]) != min(12, len(runs)):
        raise vlib.ToolError("Trace_C06 did not finish")
    bad = {v["id"]: v["why"] for v in verdicts if v["id"] != "done"}
    byid = {r["id"]: r for r in runs}
    for r in runs:
        rep.count(1 + len(r["ext"]))
        rep.nontrivial((r["fn"], min(r["p"], 200) // 4, r["base"]["max_end"] > 0))
    for rid, why in bad.items():
        r = byid[rid]
        rep.violation("local:%s:%s" % (r["fn"], vlib.hashlib.sha1(json.dumps([r["a"], r["input"]]).encode()).hexdigest()[:10]),
                      {"id": rid, "fn": r["fn"], "a": r["a"], "input": r["input"], "expect": r["base"]["res"], "pin": "full"},
                      r["base"]["res"], [x["res"] for x in r["ext"]], "%s: %s" % (r["fn"], why))
    rep.cov["traces_validated_against_impl"] += len(runs) - len(bad)
    if runs:
        rep.sample({"fn": runs[0]["fn"], "consumed_bytes": runs[0]["input"], "base": runs[0]["base"]["res"], "with_suffix": runs[0]["ext"][1]["res"]})
    rep.assumptions.append("Slice provenance of defragmented results (record vs internal buffer) is checked by C07 on every transition (src field)")
    # the multi-record entry points: stray bytes after the last whole record leave the records unchanged and are the remainder
    common.mc_replay(rep, binary, PROP, "MC_C06_Many", keyf=lambda c: "manylocal:%s:%s" % (c["fn"], c["id"]), run="many", nchunks=2)
    # (growth) locality at real buffer sizes: the structure followed by 10 MiB - 1 .. 2^24 + 1 bytes
    common.huge_buffers(rep, binary, PROP)
    return rep.finish("model_checking",
                      "model cases = 49 structures (accepted and complete-but-malformed with lying nested lengths) of 30 self-delimiting parsers x 5 "
                      "suffixes; relational runs = every accepted input of the TLC corpora and of a seeded fuzz corpus re-run on its consumed "
                      "bytes and with 4 suffixes in separate buffers, pointer-derived ranges of every reachable slice compared; "
                      "distinct = (function, size class, has slices)")


def replay(path):
    return common.replay_case_file(PROP, path)
