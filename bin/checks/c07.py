"""C07 - record defragmenter equals accumulate-then-parse, with its safety limits."""
import collections
import json
import os
import vlib
from checks import common

PROP = "C07"


def replay_lines(rep, binary, d, lines, name, cover):
    """spec -> impl: transition tests / runs emitted by TLC, replayed on a real TlsRecordsParser."""
    cin, cout = os.path.join(d, name + ".in.ndjson"), os.path.join(d, name + ".out.ndjson")
    vlib.write_ndjson(cin, [{"id": l["id"], "prefix": l["prefix"], "tests": l["tests"], "seq": l["seq"]} for l in lines])
    rc, _ = vlib.run_harness(binary, ["defrag", cin, cout])
    outs = {o["id"]: o for o in vlib.read_ndjson(cout)}
    if rc == 3:
        rep.violation("hang:defrag", {}, None, vlib.read_ndjson(cout + ".timeout"), "watchdog: a call did not return within 5 s", "path")
        return
    for l in lines:
        o = outs.get(l["id"])
        if o is None:
            raise vlib.ToolError("no observation for %s" % l["id"])
        for j, exp in enumerate(l["expect"]):
            cover[exp["path"]] += 1
            if exp["path"] == "Cont_TooLarge" and not l["seq"]:
                continue      # the bounded model's small MaxRecordData: bound to the code by the real-size stream below
            rep.count()
            obs = o["results"][j]
            why = vlib.judge_defrag_step(exp, obs)
            if why is None:
                # heap inside the call: linear in the bytes of this record, plus the (amortised, <= 2x) growth of the buffer itself
                this = l["tests"][j]
                if obs["alloc"] > 1024 * len(vlib_bytes(this)) + 2 * obs["buflen"] + 65536:
                    why = "heap %d bytes inside one call for a %d-byte record (buffer %d bytes)" % (obs["alloc"], len(vlib_bytes(this)), obs["buflen"])
            if why:
                ops = l["prefix"] + (l["tests"][:j + 1] if l["seq"] else [l["tests"][j]])
                key = "path:%s:%s" % (exp["path"], vlib.hashlib.sha1(json.dumps(ops).encode()).hexdigest()[:10])
                rep.violation(key, {"ops": ops}, exp, obs, why, "path")
            rep.nontrivial((exp["path"], exp["res"]["k"], exp["res"]["e"], exp["inprog"], min(exp["buflen"], 16)))
        if o.get("hlen_diff"):
            hd = o["hlen_diff"]
            ops = l["prefix"] + l["tests"][:max(0, hd["step"] - len(l["prefix"])) + 1]
            rep.violation("hdrlen:%s" % vlib.hashlib.sha1(json.dumps(ops).encode()).hexdigest()[:10], {"ops": ops, "header_len": hd["header_len"]},
                          hd["with_data_len"], hd["with_other_len"],
                          "the same records with %d in the length field of their headers are answered differently at step %d: the defragmenter works on the "
                          "record's data, the field is not an input (heartbeat records excepted)" % (hd["header_len"], hd["step"]), "path")
        rep.cov["traces_validated_against_impl"] += 1


def capture_runs():
    """Operation sequences made from the repository's captures (read from /repo at check time)."""
    arrs = common.extract_captures()
    flights = []
    for src, b in arrs:
        recs, o = [], 0
        while o + 5 <= len(b) and b[o] in (20, 21, 22, 23, 24) and b[o + 1] == 3 and o + 5 + b[o + 3] * 256 + b[o + 4] <= len(b):
            n = b[o + 3] * 256 + b[o + 4]
            recs.append((b[o], b[o + 1] * 256 + b[o + 2], b[o + 5:o + 5 + n]))
            o += 5 + n
        if recs and o == len(b):
            flights.append((src, recs))
    # captures that are consecutive fragments of one flight (name_1, name_2): also as one flight
    byname = {}
    for src, recs in flights:
        byname.setdefault(src.rsplit("_", 1)[0], []).append((src, recs))
    for base, parts in byname.items():
        if len(parts) > 1 and all(s.rsplit("_", 1)[-1].split(".")[0].isdigit() for s, _ in parts):
            flights.append((base + "_*", [r for _, recs in sorted(parts) for r in recs]))
    op = lambda ct, ver, data: {"op": "parse_record", "ct": ct, "ver": ver, "data": [{"lit": list(data), "fill": [0, 0, 0]}]}
    runs = []
    for n, (src, recs) in enumerate(flights):
        total = sum(len(r[2]) for r in recs)
        runs.append({"id": "cap%d:%s:as-is" % (n, src), "ops": [op(*r) for r in recs]})
        for k in (1, 7, 100, 1000):
            if total // k > 60 or k >= total:
                continue
            ops = []
            for ct, ver, data in recs:
                if ct in (20, 21):       # never fragmented by a conforming peer (and parsed without copy)
                    ops.append(op(ct, ver, data))
                else:
                    ops += [op(ct, ver, data[i:i + k]) for i in range(0, max(len(data), 1), k)]
            runs.append({"id": "cap%d:%s:k=%d" % (n, src, k), "ops": ops})
    if len(runs) < 10:
        raise vlib.ToolError("only %d capture runs could be built from /repo's test vectors" % len(runs))
    return runs


def big_runs():
    """Fragmented messages of 40000 .. 200000 bytes (a Finished message / a heartbeat with that much payload), cut into
    records of 16384 / 16640 / 4096 bytes, each followed by two short records of the same type and one of another."""
    fill = lambda seed, n: {"lit": [], "fill": [seed % 256, 7, n]}
    runs = []
    for total in (40000, 65535, 65536, 65537, 65538, 65539, 100000, 131072, 131073, 200000):
        for frag in (16384, 16640, 4096):
            if frag == 4096 and total > 70000:
                continue
            for ct in (22, 24):
                if ct == 22:
                    body = total - 4
                    head = [20, (body >> 16) & 255, (body >> 8) & 255, body & 255]
                else:
                    if total - 3 > 65535:
                        continue
                    body = total - 3
                    head = [1, (body >> 8) & 255, body & 255]
                ops, sent = [], 0
                while sent < total:
                    n = min(frag, total - sent)
                    parts = ([{"lit": head, "fill": [0, 0, 0]}, fill(sent, n - len(head))] if sent == 0 else [fill(sent, n)])
                    ops.append({"op": "parse_record", "ct": ct, "ver": 771, "data": parts})
                    sent += n
                tail = [20, 0, 0, 1, 9] if ct == 22 else [1, 0, 1, 5]
                ops.append({"op": "parse_record", "ct": ct, "ver": 771, "data": [{"lit": tail[:2], "fill": [0, 0, 0]}]})
                ops.append({"op": "parse_record", "ct": ct, "ver": 771, "data": [{"lit": tail[2:], "fill": [0, 0, 0]}]})
                ops.append({"op": "parse_record", "ct": 23, "ver": 771, "data": [{"lit": [1, 2, 3], "fill": [0, 0, 0]}]})
                runs.append({"id": "big:%d:%d:%d" % (ct, total, frag), "ops": ops})
    # a handshake header split over 2, 3 and 4 records, announcing 2^24 - 1 bytes: nothing beyond the bytes received is reserved
    for cuts in ([1], [2], [3], [1, 2], [1, 2, 3], [1, 3]):
        msg = [11, 255, 255, 255, 0, 1, 2]
        pieces, prev = [], 0
        for c in cuts + [len(msg)]:
            pieces.append(msg[prev:c]); prev = c
        runs.append({"id": "splithdr:%s" % "-".join(map(str, cuts)),
                     "ops": [{"op": "parse_record", "ct": 22, "ver": 771, "data": [{"lit": pc, "fill": [0, 0, 0]}]} for pc in pieces]
                            + [{"op": "parse_record", "ct": 22, "ver": 771, "data": [{"lit": [], "fill": [5, 1, 16384]}]}]})
    # first records that the one-shot parser REFUSES with each kind of hard error (an odd cipher list: LengthValue; a 33-byte session id:
    # Verify; an unknown ServerHello version: Tag; an unknown handshake type: Switch), then records of other and of the same type, nocopy, reset;
    # and defragmentations whose concatenation fails hard while the newest record, alone, would parse (no resynchronisation: the answer is the
    # concatenation's)
    rec = lambda ct, b, op="parse_record": {"op": op, "ct": ct, "ver": 771, "data": [{"lit": b, "fill": [0, 0, 0]}]}
    ch_odd = [1, 0, 0, 41, 3, 3] + [7] * 32 + [0, 0, 3, 0, 47, 0, 1]
    ch_sid33 = [1, 0, 0, 74, 3, 3] + [7] * 32 + [33] + [9] * 33 + [0, 2, 0, 47, 1, 0]
    ch_comp = [1, 0, 0, 41, 3, 3] + [7] * 32 + [0, 0, 2, 0, 47, 9, 0]
    for k, bad in enumerate([ch_odd, ch_sid33, ch_comp, [2, 0, 0, 2, 9, 9], [99, 0, 0, 1, 5], [4, 0, 0, 3, 0, 0, 0]]):
        runs.append({"id": "hardfirst:%d" % k, "ops": [rec(22, bad), rec(21, [1, 0]), rec(22, [14, 0, 0, 0]), rec(22, [20, 0, 0, 2, 1]), rec(23, [1]),
                                                       rec(22, bad), rec(22, [2]), rec(22, bad, "nocopy"), {"op": "reset", "ct": 0, "ver": 0, "data": [{"lit": [], "fill": [0, 0, 0]}]},
                                                       rec(22, bad), rec(24, [1, 0, 1, 9, 0, 0])]})
    for k, (first, later) in enumerate([([255, 0, 0], [0, 0, 0, 0]), ([1, 0, 0, 41, 3, 3], [14, 0, 0, 0]), ([2, 0, 0, 9, 9], [20, 0, 0, 1, 7]),
                                        (ch_sid33[:20], ch_sid33[20:] + [14, 0, 0, 0]), ([1, 0, 0], [41, 3, 3] + [7] * 32 + [0, 0, 3, 0, 47, 0, 1])]):
        runs.append({"id": "resync:%d" % k, "ops": [rec(22, first), rec(22, later), rec(22, [14, 0, 0, 0]), rec(21, [2, 40]), rec(22, [14, 0, 0, 0], "nocopy"),
                                                    {"op": "reset", "ct": 0, "ver": 0, "data": [{"lit": [], "fill": [0, 0, 0]}]}, rec(22, [14, 0, 0, 0])]})
    return runs


def vlib_bytes(op):
    out = []
    for p in op["data"]:
        out += p.get("lit", [])
        f = p.get("fill", [0, 0, 0])
        out += [(f[0] + i * f[1]) % 256 for i in range(f[2])]
    return out


def run(tier):
    rep = vlib.Report(PROP, tier)
    binary = vlib.build_harness()
    thorough = tier == "thorough"
    cover = collections.Counter()
    # (a) every (state, operation) of the bounded state machine
    # breadth-first (shortest path to every state); thorough: ~900 k states model-checked, a deterministic 1-in-131 sample of
    # them turned into transition tests
    d, res, lines = vlib.tlc_single(PROP, "mc", "MC_C07", cfg="MC_C07_thorough" if thorough else "MC_C07", env={"VERIF_BFS": 1},
                                    workers=8 if thorough else 1, heap="8g" if thorough else "4g", timeout=2400 if thorough else 400)
    rep.add_tlc("MC_C07", res)
    replay_lines(rep, binary, d, lines, "trans", cover)
    rep.sample({"state_reached_by": lines[min(40, len(lines) - 1)]["prefix"], "op": lines[min(40, len(lines) - 1)]["tests"][0],
                "expect": lines[min(40, len(lines) - 1)]["expect"][0]})
    # (a') the split statement, checked directly on every k-way split
    d2, res2, runs = vlib.tlc_chunked(PROP, "split", "MC_C07_Split", nchunks=8)
    rep.add_tlc("MC_C07_Split", res2)
    replay_lines(rep, binary, d2, runs, "split", cover)
    rep.sample({"split_run": runs[len(runs) // 2]["tests"], "expect_last": runs[len(runs) // 2]["expect"][-1]})
    # (a'') every operation history of length <= 4 (5: thorough) over a 13-operation universe: hidden implementation state
    # (a cached hint, a stored header) that survives into a later call shows up only after a particular history
    d2b, res2b, paths = vlib.tlc_chunked(PROP, "paths", "MC_C07_Paths", nchunks=14)
    rep.add_tlc("MC_C07_Paths", res2b)
    replay_lines(rep, binary, d2b, paths, "paths", cover)
    rep.sample({"history": [o["op"] + ":" + str(o["ct"]) for o in paths[len(paths) // 3]["tests"]],
                "expect_paths": [e["path"] for e in paths[len(paths) // 3]["expect"]]})
    # (b) seeded random operation sequences on the real object, validated by the trace specification
    nruns, maxops = (20000, 30) if thorough else (3000, 24)
    d3 = vlib.workdir(PROP, "trace")
    rpath = os.path.join(d3, "runs.ndjson")
    rc, _ = vlib.run_harness(binary, ["defrag-fuzz", str(vlib.seed()), str(nruns), str(maxops), rpath])
    recorded = vlib.read_ndjson(rpath)
    if rc == 3:
        rep.violation("hang:defrag-fuzz", {}, None, vlib.read_ndjson(rpath + ".timeout"), "watchdog: a call did not return within 5 s", "run")
    # (b+) REAL flights: the repository's own captures, record by record as captured, and re-fragmented into records of
    #      1 / 7 / 100 / 1000 payload bytes (what a peer may legally do), on the real object; validated with the random runs
    cap_in, cap_out = os.path.join(d3, "capture_runs.in.ndjson"), os.path.join(d3, "capture_runs.out.ndjson")
    cruns = capture_runs()
    vlib.write_ndjson(cap_in, [{"id": r["id"], "prefix": [], "tests": r["ops"], "seq": True} for r in cruns])
    rc, _ = vlib.run_harness(binary, ["defrag", cap_in, cap_out])
    couts = {o["id"]: o for o in vlib.read_ndjson(cap_out)}
    for r in cruns:
        if r["id"] not in couts:
            raise vlib.ToolError("no observation for capture run %s" % r["id"])
        recorded.append({"id": r["id"], "ops": r["ops"], "results": couts[r["id"]]["results"]})
    rep.cov["capture_runs"] = {"runs": len(cruns), "operations": sum(len(r["ops"]) for r in cruns),
                               "delivered_messages": sum(len(x["res"].get("v") or []) for r in cruns for x in couts[r["id"]]["results"] if x["res"]["k"] == "ok")}
    # (b++) completions at REAL sizes: messages whose accumulated length lands on and around 2^16 and 2^17 (where the pseudo
    #       header's 16-bit length wraps), in maximum-size fragments, handshake and heartbeat, followed by short records
    big_in, big_out = os.path.join(d3, "big_runs.in.ndjson"), os.path.join(d3, "big_runs.out.ndjson")
    bruns = big_runs()
    vlib.write_ndjson(big_in, [{"id": r["id"], "prefix": [], "tests": r["ops"], "seq": True} for r in bruns])
    rc, _ = vlib.run_harness(binary, ["defrag", big_in, big_out])
    bouts = {o["id"]: o for o in vlib.read_ndjson(big_out)}
    for r in bruns:
        if r["id"] not in bouts:
            raise vlib.ToolError("no observation for big run %s" % r["id"])
        recorded.append({"id": r["id"], "ops": r["ops"], "results": bouts[r["id"]]["results"]})
    slim = os.path.join(d3, "runs.slim.ndjson")
    vlib.write_ndjson(slim, [{"id": r["id"], "ops": r["ops"],
                              "results": [{"res": x["res"], "inprog": x["inprog"], "buflen": x["buflen"], "rem_ok": x["rem_ok"]} for x in r["results"]]}
                             for r in recorded])
    _, res3, verdicts = vlib.tlc_chunked(PROP, "trace_tlc", "Trace_C07", env={"VERIF_IN": slim}, out_name="verdicts")
    rep.add_tlc("Trace_C07", res3)
    byid = {r["id"]: r for r in recorded}
    if len(verdicts) != len(recorded):
        raise vlib.ToolError("trace validation produced %d verdicts for %d runs" % (len(verdicts), len(recorded)))
    for v in verdicts:
        r = byid[v["id"]]
        rep.count(len(r["ops"]))
        if v["verdict"] == "accepted":
            rep.cov["traces_validated_against_impl"] += 1
        else:
            ops = r["ops"][:v["at"]]
            obs = r["results"][v["at"] - 1]
            why = vlib.judge_defrag_step(v["expected"], obs) or "event not explained by the specification"
            key = "run:%s:%s" % (v["expected"].get("path"), vlib.hashlib.sha1(json.dumps(ops).encode()).hexdigest()[:10])
            rep.violation(key, {"ops": ops}, v["expected"], obs, why, "path")
        for x in r["results"]:
            rep.nontrivial(("fuzz", x["res"]["k"], x["res"]["e"] if x["res"]["k"] != "panic" else "", x["inprog"], min(x["buflen"], 16)))
    # (b') one real-size stream: records of 16640 bytes until the 10 MiB limit refuses, then the boundary
    spath = os.path.join(d3, "stream.ndjson")
    rc, _ = vlib.run_harness(binary, ["defrag-stream", spath])
    events = vlib.read_ndjson(spath)
    _, res4, sv = vlib.tlc_single(PROP, "stream_tlc", "Trace_C07_Stream", env={"VERIF_IN": spath}, out_name="stream_verdict.ndjson")
    rep.add_tlc("Trace_C07_Stream", res4)
    rep.count(len(events))
    if not sv or sv[-1]["verdict"] != "accepted":
        at = sv[-1]["at"] if sv else 0
        rep.violation("stream:event%d" % at, {"stream_event": events[at - 1] if 0 < at <= len(events) else None},
                      sv[-1].get("expected") if sv else None, events[at - 1] if 0 < at <= len(events) else None,
                      "real-size stream: event %d is not explained by the specification (TooLarge exactly when len+n >= 10 MiB; "
                      "buffer below the limit)" % at, "stream")
    else:
        rep.cov["traces_validated_against_impl"] += 1
        cover["Cont_TooLarge(real size)"] += sum(1 for e in events if e["e"] == "TooLarge")
        rep.sample({"stream_events": len(events), "max_buflen": max(e["buflen"] for e in events), "last": events[-1]})
    # (growth) the end-to-end pipeline: message delivery under every TCP segmentation of fragmented handshakes
    common.pipeline_runs(rep, binary, PROP, "delivery", runs=300 if thorough else 60)
    # BufferBound for UNBOUNDED parameters: the TLAPS proof of the inductive invariant of the length-only machine
    # (MC_C07 checks that every byte-level transition is a step of it: RefinesDefragLen)
    common.tlaps_proof(rep, PROP, "DefragLen", "Safety (Spec => [](TypeOK /\\ BufferBound)), unbounded MaxRecordData > MaxRecordLen")
    uncovered = [p for p in ["Reset", "NoCopy_Refuse", "NoCopy_NeedMore", "NoCopy_Parse", "First_Complete", "First_StartDefrag",
                             "First_Error", "Cont_WrongType", "Cont_TooLarge", "Cont_Complete", "Cont_NeedMore", "Cont_Error"] if cover[p] == 0]
    if uncovered:
        raise vlib.ToolError("code paths never exercised by the deterministic model: %s" % uncovered)
    return rep.finish("model_checking",
                      "transition tests = every (reachable state, operation) of the bounded defragmenter model; split runs = every "
                      "k-way split (k<=4) of the payload pool; traces = seeded random operation sequences on the real object "
                      "validated by Trace_C07; distinct = (code path, outcome, error kind, in-progress, buffer length)",
                      extra={"path_coverage": dict(cover)})


def replay(path):
    body = json.load(open(path))
    binary = vlib.build_harness()
    d = vlib.workdir(PROP, "replay")
    cin, cout = os.path.join(d, "r.in.ndjson"), os.path.join(d, "r.out.ndjson")
    ops = body["payload"]["ops"]
    vlib.write_ndjson(cin, [{"id": "replay", "prefix": [], "tests": ops, "seq": True}])
    vlib.run_harness(binary, ["defrag", cin, cout])
    obs = vlib.read_ndjson(cout)[0]["results"][-1]
    why = vlib.judge_defrag_step(body["expected"], obs)
    if why:
        print("VIOLATION property=%s replay=%s" % (PROP, path))
        print("  " + why)
        return 1
    print("replay: the step now agrees with the specification")
    return 0
