"""C08 - the handshake state machine accepts exactly the documented TLS flows."""
import json
import os
import vlib

PROP = "C08"


def run(tier):
    rep = vlib.Report(PROP, tier)
    binary = vlib.build_harness()
    thorough = tier == "thorough"
    # the model: exhaustive exploration from None, the rules as invariants, one row per reached state
    d, res, rows = vlib.tlc_single(PROP, "mc", "MC_C08", workers=1, timeout=300, out_name="rows.ndjson")
    rep.add_tlc("MC_C08", res)
    # (a) spec -> impl: every reached state's shortest path is walked on the real function, then its row is evaluated there
    cin, cout = os.path.join(d, "rows.in.ndjson"), os.path.join(d, "rows.out.ndjson")
    vlib.write_ndjson(cin, rows)
    vlib.run_harness(binary, ["states-run", cin, cout])
    outs = vlib.read_ndjson(cout)
    for exp, obs in zip(rows, outs):
        if obs["reached"] != exp["state"]:
            rep.violation("path:%s" % exp["state"], {"path": exp["path"]}, exp["state"], obs["trail"],
                          "the documented message sequence does not reach %s (trail %s)" % (exp["state"], obs["trail"]), "path")
            continue
        rep.cov["traces_validated_against_impl"] += 1
        for ce, co in zip(exp["cells"], obs["cells"]):
            rep.count()
            rep.nontrivial((exp["state"], ce["kind"], ce["dir"], ce["res"]))
            if co["res"] != [ce["res"]]:
                rep.violation("cell:%s:%s:%s" % (exp["state"], ce["kind"], ce["dir"]),
                              {"path": exp["path"], "cell": {"kind": ce["kind"], "dir": ce["dir"]}}, ce["res"], co["res"],
                              "tls_state_transition(%s, %s, to_server=%s) = %s, the specification says %s" % (
                                  exp["state"], ce["kind"], ce["dir"] == "c", co["res"], ce["res"]), "cell")
    rep.sample({"state": rows[-1]["state"], "reached_by": rows[-1]["path"], "row_sample": rows[-1]["cells"][:4]})
    # (c) impl -> spec: the complete table (all 25 states, every payload variant, all 65536 alerts per cell) and
    # (b) seeded random sequences, judged by TLC against the specification
    d2 = vlib.workdir(PROP, "trace")
    sweep, runs = os.path.join(d2, "sweep.ndjson"), os.path.join(d2, "runs.ndjson")
    _, err = vlib.run_harness(binary, ["states-sweep", sweep])
    vlib.run_harness(binary, ["states-fuzz", str(vlib.seed()), "20000" if thorough else "3000", "40", runs])
    _, res2, lines = vlib.tlc_single(PROP, "trace_tlc", "Trace_C08", env={"VERIF_SWEEP": sweep, "VERIF_RUNS": runs},
                                     workers=1, timeout=600, out_name="verdict.ndjson", d=d2)
    rep.add_tlc("Trace_C08", res2)
    if not lines or lines[-1].get("what") != "done":
        raise vlib.ToolError("trace validation did not finish")
    m = __import__("re").search(r"states-sweep: (\d+) calls", err)
    rep.count(int(m.group(1)) if m else lines[-1]["cells"])
    nsteps = sum(len(r["steps"]) for r in vlib.read_ndjson(runs))
    rep.count(nsteps)
    bad_runs = set()
    for l in lines[:-1]:
        if l["what"] == "cell":
            rep.violation("cell:%s:%s:%s" % (l["state"], l["kind"], l["dir"]), {"cell": l}, l["expected"], l["observed"],
                          "tls_state_transition(%s, %s, to_server=%s) = %s over all payloads of the kind, the specification says %s" % (
                              l["state"], l["kind"], l["dir"] == "c", l["observed"], l["expected"]), "cell")
        else:
            bad_runs.add(l["run"])
            rep.violation("cell:%s:%s:%s" % (l["from"], l["kind"], l["dir"]), {"step": l}, l["expected"], l["observed"],
                          "random sequence %s step %d: %s from %s gave %s, the specification says %s" % (
                              l["run"], l["at"], l["kind"], l["from"], l["observed"], l["expected"]), "cell")
    rep.cov["traces_validated_against_impl"] += lines[-1]["runs"] - len(bad_runs)
    # (growth) the automaton inside the end-to-end pipeline (Pipeline.tla), under random TCP segmentations
    from checks import common
    common.pipeline_runs(rep, binary, PROP, "state", runs=300 if thorough else 60)
    for r in vlib.read_ndjson(sweep):
        rep.nontrivial((r["state"], r["kind"], r["dir"], tuple(r["res"])))
    return rep.finish("model_checking",
                      "cells = 25 states x 2 directions x 23 message kinds, each evaluated on every payload variant of the kind "
                      "(all 256 warning alerts, all 65280 other alerts); sequences = documented flows + seeded random walks; "
                      "distinct = (state, kind, direction, result)", exhaustive=True)


def replay(path):
    body = json.load(open(path))
    binary = vlib.build_harness()
    d = vlib.workdir(PROP, "replay")
    pl = body["payload"]
    cell = pl.get("cell") or pl.get("step")
    state = cell.get("state") or cell.get("from")
    cin, cout = os.path.join(d, "r.in.ndjson"), os.path.join(d, "r.out.ndjson")
    sweep = os.path.join(d, "sweep.ndjson")
    vlib.run_harness(binary, ["states-sweep", sweep])
    for r in vlib.read_ndjson(sweep):
        if r["state"] == state and r["kind"] == cell["kind"] and r["dir"] == cell["dir"]:
            if r["res"] != [body["expected"]]:
                print("VIOLATION property=%s replay=%s" % (PROP, path))
                print("  cell (%s, %s, %s) = %s, the specification says %s" % (state, cell["kind"], cell["dir"], r["res"], body["expected"]))
                return 1
            print("replay: the cell now agrees with the specification")
            return 0
    raise vlib.ToolError("cell not found")
