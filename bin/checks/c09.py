"""C09 - serializer output parses back to the same value with consistent lengths."""
import os
import vlib

PROP = "C09"


def canon(v):
    """hs messages come back wrapped as {t:hs, m:..}; extension tags etc. are compared as is"""
    return v


def run(tier):
    rep = vlib.Report(PROP, tier)
    binary = vlib.build_harness(features="serialize", target="target-ser")
    d, res, cases = vlib.tlc_chunked(PROP, "mc", "MC_C09", nchunks=8)
    rep.add_tlc("MC_C09", res)
    cases.sort(key=lambda c: c["id"])
    cin, cout = os.path.join(d, "ser.in.ndjson"), os.path.join(d, "ser.out.ndjson")
    vlib.write_ndjson(cin, [{"id": c["id"], "kind": c["kind"], "v": c["v"]} for c in cases])
    vlib.run_harness(binary, ["ser", cin, cout])
    outs = {o["id"]: o["obs"] for o in vlib.read_ndjson(cout)}
    # the produced bytes are judged by the specification's strict decoders
    produced = [{"id": c["id"], "kind": c["kind"], "bytes": outs[c["id"]]["bytes"]} for c in cases
                if outs[c["id"]].get("ok") and c["kind"] in ("hs", "record", "exts", "ccs_msg", "from_bytes")]
    for e in produced:
        if e["kind"] == "from_bytes":
            e["kind"] = "record"
    ev = os.path.join(d, "produced.ndjson")
    vlib.write_ndjson(ev, produced)
    _, res2, verdicts = vlib.tlc_chunked(PROP, "trace", "Trace_C09", nchunks=8, env={"VERIF_IN": ev}, out_name="verdict")
    rep.add_tlc("Trace_C09", res2)
    strict = {v["id"]: v["strict"] for v in verdicts}
    for c in cases:
        rep.count()
        o = outs[c["id"]]
        kind = c["kind"]
        vt = c["v"].get("t") if isinstance(c["v"], dict) else kind
        key = "%s:%s:%s" % (kind, vt, vlib.hashlib.sha1(vlib.json.dumps(c["v"], sort_keys=True).encode()).hexdigest()[:10])
        rep.nontrivial((kind, vt, o.get("ok"), len(o.get("bytes", [])) // 16))
        why = None
        if kind.startswith("unsupported"):
            if o.get("ok") or o.get("err") != "NotYetImplemented":
                why = "an unsupported value must yield GenError::NotYetImplemented, got %s" % (o.get("err") or "bytes %s" % o.get("bytes"))
        elif not o.get("ok"):
            why = "serialization failed: %s" % o.get("err")
        elif kind == "flight":
            if not o.get("flight_equals_concatenation"):
                why = "records written one after the other into one output differ from the concatenation of their own serializations"
            elif o["bytes"] != c["ser"]:
                why = "the flight's bytes differ from the specification's SerFlight (%d vs %d bytes)" % (len(o["bytes"]), len(c["ser"]))
            if not o.get("again") == o["bytes"]:
                why = why or "serializing the flight a second time gave different bytes"
        else:
            s = strict.get(c["id"])
            norm = c["norm"]
            if kind == "hs":
                norm_wrapped = [{"t": "hs", "m": norm[0]}]
                sv = [{"t": "hs", "m": s["v"][0]}] if s else None
            else:
                norm_wrapped, sv = norm, (s["v"] if s else None)
            if s is None:
                raise vlib.ToolError("no verdict for case %s" % c["id"])
            if not s["ok"]:
                why = "the emitted bytes are not strictly decodable (a length field does not equal the length of what it prefixes, or bytes are left over): %s" % o["bytes"][:24]
            elif not vlib.jeq(sv, norm_wrapped):
                why = "the emitted bytes decode to a different value than the one serialized"
            elif o["consumed"] != len(o["bytes"]):
                why = "the crate's parser consumed %s of %s emitted bytes" % (o["consumed"], len(o["bytes"]))
            elif not vlib.jeq(o["parsed"], norm_wrapped):
                why = "parsing the emitted bytes with the crate does not yield the original value: %s" % vlib.json.dumps(o["parsed"])[:200]
            elif o["bytes2"] != o["bytes"]:
                why = "re-serializing the parsed value does not reproduce the same bytes"
            elif "parsed_via_client_hello" in o and not vlib.jeq(o["parsed_via_client_hello"], norm_wrapped):
                why = "parsing the emitted extensions with the ClientHello variant of the parser does not yield the original values: %s" % vlib.json.dumps(o["parsed_via_client_hello"])[:200]
            elif o.get("again") != o["bytes"]:
                why = "serializing the same value a second time, after an unrelated write into a too small buffer failed, gave different bytes (%s...)" % str(o.get("again"))[:60]
            elif o.get("exact_ok") is False:
                why = "writing the message into an exactly sized slice does not produce the same bytes"
            elif o.get("short_err") not in (None, "BufferTooSmall"):
                why = "writing the message into a slice one byte too short must fail with BufferTooSmall, got %s" % o.get("short_err")
            elif o["direct"] != o["bytes"]:
                why = "the handshake-level and message-level serializers disagree"
            elif "plain_writer" in o and o["plain_writer"] != o["bytes"]:
                why = "into a writer that implements only `write` the serializer does not produce the same bytes (%s)" % str(o["plain_writer"])[:60]
            elif "retry" in o and o["retry"] != o["bytes"]:
                why = "the same serializer value, run again after two attempts into too small buffers, does not produce the same bytes (%s)" % str(o["retry"])[:60]
            elif "per_fn" in o and o["per_fn"] != o["bytes"]:
                why = "the public per-message serializer (gen_tls_clienthello / _serverhello / _finished / ...) and gen_tls_message emit different bytes for the same value"
            elif kind in ("record", "from_bytes") and o["hdr"]["len"] != len(o["bytes"]) - 5:
                why = "record length field %s for %s payload bytes" % (o["hdr"]["len"], len(o["bytes"]) - 5)
            if why is None and c["ser"] and o["bytes"] != c["ser"]:
                rep.cov["advisory_mismatches"] += 1
        if why:
            rep.violation(key, {"kind": kind, "v": c["v"]}, {"norm": c["norm"], "ser": c["ser"][:64]}, {k: (o[k] if k != "bytes" else o[k][:64]) for k in o}, why, "ser")
        else:
            rep.cov["traces_validated_against_impl"] += 1
    rep.sample({"kind": cases[3]["kind"], "v": cases[3]["v"], "norm": cases[3]["norm"], "bytes": outs[cases[3]["id"]].get("bytes")})
    return rep.finish("model_checking",
                      "values = ~520 serializable ClientHello / ServerHello (incl. SSLv3 and draft-18 forms) / ClientKeyExchange (raw, DH, ECDH) / "
                      "Finished / HelloRequest messages over boundary field sets (incl. 32767 ciphers, 65535-byte extension block), records made "
                      "of them, ChangeCipherSpec, SNI / max-fragment-length / groups extension blocks, and unsupported values; the crate's bytes "
                      "are judged by the specification's strict decoders; distinct = (kind, variant, outcome, size)")


def replay(path):
    print("replay = re-run the check")
    return run("quick")
