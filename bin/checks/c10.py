"""C10 - DTLS records and handshake fragments decode per RFC 6347."""
import vlib
from checks import common

PROP = "C10"


def run(tier):
    rep = vlib.Report(PROP, tier)
    binary = vlib.build_harness()
    d, cases, outs = common.mc_replay(rep, binary, PROP, "MC_C10", keyf=common.default_key)
    # (b) impl -> spec: value-level mutations of the accepted DTLS encodings, compared with the specification's answer
    common.dfuzz(rep, binary, PROP, cases, 3000 if tier != "thorough" else 60000)
    # (growth) the same Incomplete / Needed contract over a whole run: the streaming consumer of Stream.tla on DTLS records
    common.stream_runs(rep, binary, PROP, ["parse_dtls_plaintext_record"], 3, thorough=(tier == "thorough"))
    # (growth) seeded, structurally random DTLS messages / records / datagrams: every header field from its whole domain
    common.mc_replay(rep, binary, PROP, "MC_C10_Rand", keyf=lambda c: "rand:%s:%s" % (c["note"]["t"], c["id"]), run="rand", nchunks=8,
                     env={"VERIF_SEED": str(vlib.seed())})
    common.len_sweep(rep, binary, PROP)
    common.huge_buffers(rep, binary, PROP, fns=("parse_dtls_plaintext_record", "parse_dtls_record_header", "parse_dtls_message_handshake"))
    return rep.finish("model_checking",
                      "cases = DTLS records over a grid of content types, epochs {0,1,0x0102,0xffff}, sequence numbers up to 2^48-1, "
                      "payload pools, every prefix cut and trailing bytes, the cap boundary; handshake headers over the fragment grid "
                      "(length x offset x fragment length x type); the six supported bodies (cookie 0/1/255); unsupported types; datagrams; "
                      "distinct = (function, pin, outcome, size)")


def replay(path):
    return common.replay_case_file(PROP, path)
