"""C11 - unknown enumerated code points are accepted and preserved, not rejected."""
import os
import vlib
from checks import common

PROP = "C11"


def run(tier):
    rep = vlib.Report(PROP, tier)
    binary = vlib.build_harness()
    # the model: Preserved(site) on the specification for all u8 values and a boundary-rich u16 stride; emits the templates
    d, res, sites = vlib.tlc_chunked(PROP, "mc", "MC_C11", nchunks=6, out_name="sites")
    rep.add_tlc("MC_C11", res)
    # (a) the template bytes are cross-checked: three full inputs per site, expected results from the specification
    cases = []
    for s in sites:
        if s["fn"] == "split_parse_record":
            continue      # (a defragmented result lives in the parser's buffer: its slices are not ranges of the input; bound in C07 - here the sweep reads the values)
        for k, smp in enumerate(s["samples"]):
            cases.append({"id": "%s/%d" % (s["site"], k), "fn": s["fn"], "a": s["a"], "input": smp["input"], "expect": smp["expect"],
                          "pin": "full", "note": {"site": s["site"], "x": smp["x"]}})
    outs = vlib.replay_cases(binary, d, cases)
    vlib.judge_cases(rep, cases, outs, keyf=lambda c: "site:%s:x=%s" % (c["note"]["site"], c["note"]["x"]))
    # (c) the crate is evaluated on the WHOLE domain of every site
    sin, sout = os.path.join(d, "sites.in.ndjson"), os.path.join(d, "sites.out.ndjson")
    vlib.write_ndjson(sin, sites)
    vlib.run_harness(binary, ["sweep-sites", sin, sout])
    total = 0
    for s, o in zip(sites, vlib.read_ndjson(sout)):
        total += o["domain"]
        rep.count(o["domain"])
        rep.nontrivial((s["site"], o["domain"]))
        rep.nontrivial((s["site"], "ok", o["ok"]))
        if o["ok"] != o["domain"]:
            first = o["bad"][0]
            rep.violation("site:%s:x=%s" % (s["site"], first["x"]),
                          {"id": s["site"], "fn": s["fn"], "a": s["a"], "note": {"site": s["site"], "x": first["x"]},
                           "input": [{"lit": s["pre"] + ([first["x"] >> 8] if s["w"] == 2 else []) + [first["x"] & 255] + s["suf"], "fill": [0, 0, 0]}],
                           "expect": {"k": "ok"}, "pin": "none", "path": s["path"]},
                          first["x"], first["observed"],
                          "%d of %d values of the field are not accepted and returned unchanged (first: %s)" % (o["domain"] - o["ok"], o["domain"], first["x"]))
    rep.cov["traces_validated_against_impl"] += len(sites)
    # the extension type itself, through the three dispatchers, for all 65536 values
    common.ext_type_sweep(rep, binary, PROP)
    rep.sample({"site": sites[0]["site"], "fn": sites[0]["fn"], "template": [sites[0]["pre"], sites[0]["w"], sites[0]["suf"]], "field": sites[0]["path"]})
    return rep.finish("model_checking",
                      "sites = %d (enclosing template, enumerated field) pairs; every site is swept over its whole domain (256 or 65536 "
                      "values) on the compiled crate; TLC checks the same statement on the specification for all u8 values and a "
                      "boundary-rich stride of u16 values; distinct = sites and their accepted counts" % len(sites), exhaustive=True)


def replay(path):
    return common.replay_case_file(PROP, path)
