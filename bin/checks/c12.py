"""C12 - the cipher-suite registry is exact, self-consistent and invertible."""
import json
import os
import subprocess
import sys
import vlib

PROP = "C12"


def run(tier):
    rep = vlib.Report(PROP, tier)
    binary = vlib.build_harness()
    d = vlib.workdir(PROP, "trace")
    # the tables are generated mechanically (split on ':' and '_') from the working tree and from the pinned snapshot
    gen = os.path.join(vlib.VERIF, "gen", "mk_cipher_table.py")
    for src, mod, op in ((os.path.join(vlib.REPO, "scripts", "tls-ciphersuites.txt"), "CipherTable", "Current"),
                         (os.path.join(vlib.VERIF, "spec", "data", "ciphersuites.pinned.txt"), "PinnedTable", "Pinned")):
        p = subprocess.run([sys.executable, gen, src, mod, op, os.path.join(d, mod + ".tla")], capture_output=True, text=True)
        if p.returncode != 0:
            raise vlib.ToolError("table generator: " + p.stderr + p.stdout)
    dump = os.path.join(d, "dump.ndjson")
    nrand = 400_000_000 if tier == "thorough" else 50_000_000
    _, err = vlib.run_harness(binary, ["sweep-ciphers", dump, str(nrand)])
    _, res, lines = vlib.tlc_single(PROP, "trace", "Trace_C12", env={"VERIF_IN": dump}, workers=1, timeout=600, out_name="verdict.ndjson", d=d)
    rep.add_tlc("Trace_C12", res)
    if not lines or lines[-1].get("what") != "done":
        raise vlib.ToolError("the judgement did not finish")
    rows = [r for r in vlib.read_ndjson(dump)]
    nrows = sum(1 for r in rows if r["kind"] == "row")
    nnames = sum(1 for r in rows if r["kind"] == "name")
    rep.count(65536 * 4 + nnames * 2 + nrand)
    for r in rows:
        if r["kind"] == "row":
            rep.nontrivial(("row", r["hex"]))
        elif r["kind"] == "name":
            rep.nontrivial(("name", r["s"], r["from_name"]))
    for l in lines[:-1]:
        if l["what"] == "table":
            rep.violation("table", l, "unique ids and names, pinned rows unaltered, parameters agree with the name tokens", l,
                          "scripts/tls-ciphersuites.txt: unique_ids=%s unique_names=%s pinned_kept=%s bad_rows=%s altered=%s" % (
                              l["unique_ids"], l["unique_names"], l["pinned_kept"], l["bad_rows"][:5], l["altered"][:5]), "sweep")
        elif l["what"] == "row":
            rep.violation("row:%s" % l["hex"], {"id": l["hex"]}, l["expected"], l["observed"],
                          "suite 0x%s: the crate's entry differs from the listed row / derived sizes / routes" % l["hex"], "sweep")
        elif l["what"] == "count":
            rep.violation("count", l, l["listed"], l["present"], "the registry holds %s suites, the file lists %s (missing %s; route disagreements %s)" % (
                l["present"], l["listed"], l["missing"][:5], l["route_disagreements"]), "sweep")
        elif l["what"] == "name":
            rep.violation("name:%s" % l["s"], {"name": l["s"]}, l["expected"], l["observed"],
                          "lookup by name %r returned %s, the specification says %s" % (l["s"], l["observed"], l["expected"]), "sweep")
    rep.cov["traces_validated_against_impl"] += 1
    rep.sample([r for r in rows if r["kind"] == "row"][5])
    rep.sample([r for r in rows if r["kind"] == "name"][200])
    return rep.finish("model_checking",
                      "all 65536 ids through the four id routes; all %d registry rows x 10 columns + 3 derived sizes; %d name queries "
                      "(every name + ~30 perturbations each) through both name routes and %d seeded pseudo-random non-registry strings; the table itself checked for unique ids/names, "
                      "pinned rows, name-token agreement; distinct = rows and (query, answer) pairs" % (nrows, nnames, nrand), exhaustive=True)


def replay(path):
    print("replay of a sweep = re-run the check")
    return run("quick")
