"""C13 - key-exchange parameters and signatures decode exactly and self-delimit."""
import vlib
from checks import common

PROP = "C13"


def run(tier):
    rep = vlib.Report(PROP, tier)
    binary = vlib.build_harness()
    d, cases, outs = common.mc_replay(rep, binary, PROP, "MC_C13", keyf=common.default_key)
    # (b) impl -> spec: value-level mutations of the accepted key-exchange encodings, compared with the specification's answer
    common.dfuzz(rep, binary, PROP, cases, 3000 if tier != "thorough" else 60000)
    return rep.finish("model_checking",
                      "cases = RFC encodings of ServerDHParams (field lengths 0/1/255/256/65535), ECPoint, ECParameters (named "
                      "groups, explicit prime), ServerECDHParams, both DigitallySigned forms, with suffixes; every strict prefix of the "
                      "small ones; all 256 curve types; content+signature under both values of the flag; distinct = (function, pin, outcome, size)")


def replay(path):
    return common.replay_case_file(PROP, path)
