"""C13 - key-exchange parameters and signatures decode exactly and self-delimit."""
import vlib
from checks import common

PROP = "C13"


def run(tier):
    rep = vlib.Report(PROP, tier)
    binary = vlib.build_harness()
    d, cases, outs = common.mc_replay(rep, binary, PROP, "MC_C13", keyf=common.default_key)
    # (b) impl -> spec: value-level mutations of the accepted key-exchange encodings, compared with the specification's answer
    common.dfuzz(rep, binary, PROP, cases, 3000 if tier != "thorough" else 60000)
    # all 65536 named groups / all 256 hash and signature codes through every structure of this property that carries them (the sites of MC_C11)
    common.site_sweep(rep, binary, PROP, keep=lambda s: s["fn"] in ("parse_ecdh_params", "parse_ec_parameters", "parse_content_and_signature", "ECParametersContent::parse",
                                                                    "deep_server_key_exchange", "parse_digitally_signed"))
    # (growth) every length of the variable-size fields, not only the boundaries (MC_LenSweep)
    common.len_sweep(rep, binary, PROP)
    return rep.finish("model_checking",
                      "cases = RFC encodings of ServerDHParams (field lengths 0/1/255/256/65535), ECPoint, ECParameters (named "
                      "groups, explicit prime), ServerECDHParams, both DigitallySigned forms, with suffixes; every strict prefix of the "
                      "small ones; all 256 curve types; content+signature under both values of the flag; distinct = (function, pin, outcome, size)")


def replay(path):
    return common.replay_case_file(PROP, path)
