"""C14 - Signed Certificate Timestamp lists decode per RFC 6962."""
import vlib
from checks import common

PROP = "C14"


def run(tier):
    rep = vlib.Report(PROP, tier)
    binary = vlib.build_harness()
    d, cases, outs = common.mc_replay(rep, binary, PROP, "MC_C14", keyf=common.default_key)
    # (b) impl -> spec: value-level mutations of the accepted SCT encodings, compared with the specification's answer
    common.dfuzz(rep, binary, PROP, cases, 3000 if tier != "thorough" else 60000)
    # (growth) seeded, structurally random SCTs and lists of 0..12 of them (every field from its whole domain, arbitrary sizes)
    common.mc_replay(rep, binary, PROP, "MC_C14_Rand", keyf=lambda c: "rand:%s:%s" % (c["note"]["t"], c["id"]), run="rand", nchunks=8,
                     env={"VERIF_SEED": str(vlib.seed())})
    # (growth) every length of the variable-size fields, not only the boundaries (MC_LenSweep)
    common.len_sweep(rep, binary, PROP)
    return rep.finish("model_checking",
                      "cases = RFC 6962 encodings of 109 SCT values (versions 0/1/255, timestamps 0/1/0x0102..08/2^64-1, extension and "
                      "signature lengths 0/1/255/30000) alone and in lists of 0..3 with suffixes; entries reaching beyond the list; lists "
                      "beyond the input; every truncation; distinct = (function, pin, outcome, size)")


def replay(path):
    return common.replay_case_file(PROP, path)
