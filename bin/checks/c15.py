"""C15 - hello accessors and constructors reflect the parsed fields."""
import os
import subprocess
import sys
import vlib

PROP = "C15"
KEYS = ["version", "random", "session_id", "ciphers", "comp", "ext", "rand_time", "rand_bytes", "cipher_suites"]


def run(tier):
    rep = vlib.Report(PROP, tier)
    binary = vlib.build_harness()
    d = vlib.workdir(PROP, "mc")
    gen = os.path.join(vlib.VERIF, "gen", "mk_cipher_table.py")
    p = subprocess.run([sys.executable, gen, os.path.join(vlib.REPO, "scripts", "tls-ciphersuites.txt"), "CipherTable", "Current",
                        os.path.join(d, "CipherTable.tla")], capture_output=True, text=True)
    if p.returncode != 0:
        raise vlib.ToolError("table generator: " + p.stderr)
    _, res, cases = vlib.tlc_single(PROP, "mc", "MC_C15", workers=1, timeout=300, out_name="cases.ndjson", d=d)
    rep.add_tlc("MC_C15", res)
    cin, cout = os.path.join(d, "hello.in.ndjson"), os.path.join(d, "hello.out.ndjson")
    vlib.write_ndjson(cin, cases)
    vlib.run_harness(binary, ["hello", cin, cout])
    outs = {o["id"]: o["obs"] for o in vlib.read_ndjson(cout)}
    for c in cases:
        rep.count()
        obs, exp = outs[c["id"]], c["expect"]
        rlen = len(c["random"])
        rep.nontrivial((c["kind"], rlen, tuple(c["random"][:4]), len(c["ciphers"])))
        why = None
        if "panic" in obs or "error" in obs:
            why = "accessor call failed: %s" % obs
        else:
            for k in KEYS:
                if k in obs and obs[k] != exp[k]:
                    why = "%s() = %s, the specification says %s" % (k, obs[k], exp[k])
                    break
            if why is None and "other_receiver" in obs:
                why = "rand_bytes() / accessors called through a reference to the reference, or in fully qualified form, differ: %s" % str(obs["other_receiver"])[:200]
            if why is None and "get_version" in obs and obs["get_version"] != exp["version"]:
                why = "get_version() = %s" % obs["get_version"]
            if why is None and "get_ciphers" in obs and obs["get_ciphers"] != exp["cipher_suites"]:
                why = "get_ciphers() = %s, the specification says %s" % (obs["get_ciphers"], exp["cipher_suites"])
            if why is None and "get_cipher" in obs and [obs["get_cipher"]] != exp["cipher_suites"]:
                why = "get_cipher() = %s, the specification says %s" % (obs["get_cipher"], exp["cipher_suites"])
            if why is None and "fields" in obs:
                f = obs["fields"]
                if f["version"] != exp["version"] or f["random"] != exp["random"] or f["session_id"] != exp["session_id"] or f["ext"] != exp["ext"]:
                    why = "new() did not store its arguments unchanged"
        if why:
            acc = why.split("(")[0].split(" ")[0]
            rep.violation("%s:%s:randlen=%d" % (c["kind"], acc, rlen), {k: c[k] for k in c if k != "expect"}, exp, obs, why, "hello")
        else:
            rep.cov["traces_validated_against_impl"] += 1
    rep.sample({k: cases[12][k] for k in ("kind", "ver", "random", "ciphers", "expect")})
    return rep.finish("model_checking",
                      "cases = constructed ClientHello/ServerHello values with random lengths {0,3,4,5,31,32,33} x 7 leading words "
                      "(0, 1, 0x01020304, 0x7fffffff, 0x80000000, 0xffffffff, ...) and parsed TLS / DTLS ClientHello and ServerHello values; "
                      "cipher lists mixing registered and unregistered ids; every accessor compared with Hello.tla; "
                      "distinct = (kind, random length, leading word, cipher count)")


def replay(path):
    print("replay = re-run the check")
    return run("quick")
