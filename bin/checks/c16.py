"""C16 - multi-record parsers equal repeated single-record parsing."""
import vlib
from checks import common

PROP = "C16"


def run(tier):
    rep = vlib.Report(PROP, tier)
    binary = vlib.build_harness()
    d, cases, outs = common.mc_replay(rep, binary, PROP, "MC_C16", keyf=common.default_key)
    # (b) impl -> spec: value-level mutations of the accepted record sequences, compared with the specification's answer
    common.dfuzz(rep, binary, PROP, cases, 3000 if tier != "thorough" else 60000)
    # relational binding without a functional oracle: the multi-record result must be what an explicit loop over
    # the crate's own single-record parser yields, on every model input (pinned and not)
    singles = []
    for c in cases:
        if c["fn"] == "tls_parser":
            singles.append({"id": "s%s" % c["id"], "fn": "parse_tls_plaintext", "a": c["a"], "input": c["input"], "expect": c["expect"], "pin": "full"})
    souts = vlib.replay_cases(binary, d, singles, name="alias")
    for s in singles:
        rep.count()
        a, b = souts[s["id"]]["res"], outs[int(s["id"][1:])]["res"]
        if not vlib.jeq(a, b):
            rep.violation("alias:%s" % s["id"], s, a, b, "tls_parser and parse_tls_plaintext differ on the same input")
    # (growth) random handshake records among random neighbours of the other content types through the multi-record entry point (MC_C04_Rand)
    dr, rres, rcases = vlib.tlc_chunked(PROP, "rand", "MC_C04_Rand", nchunks=12, env={"VERIF_SEED": str(vlib.seed())})
    rep.add_tlc("MC_C04_Rand", rres)
    many = [c for c in rcases if c["fn"] == "tls_parser_many"]
    mouts = vlib.replay_cases(binary, dr, many, name="rand_many")
    vlib.judge_cases(rep, many, mouts, keyf=lambda c: "rand:many:%s" % c["id"])
    rep.cov["traces_validated_against_impl"] += len(many)
    # (growth) every length of the variable-size fields, not only the boundaries (MC_LenSweep)
    common.len_sweep(rep, binary, PROP)
    return rep.finish("model_checking",
                      "cases = concatenations of 0..3 records from TLS and DTLS pools followed by nothing / a truncated record / an "
                      "oversized header / garbage / a malformed record, through tls_parser_many, parse_dtls_plaintext_records and tls_parser; "
                      "distinct = (function, pin, outcome, size)")


def replay(path):
    return common.replay_case_file(PROP, path)
