"""C17 - registry constants, names and integer conversions are exact."""
import os
import vlib

PROP = "C17"


def norm_name(n):
    n = n.upper().replace("_", "")
    for pre in ("ECDH", "TLS", "SSL"):
        if n.startswith(pre) and len(n) > len(pre) + 2:
            n = n[len(pre):]
    return n


def run(tier):
    rep = vlib.Report(PROP, tier)
    binary = vlib.build_harness()      # (regenerates generated_consts.rs / generated_convs.rs from /repo's sources first)
    found, convs = vlib.discover_consts(), vlib.discover_convs()
    d = vlib.workdir(PROP, "trace")
    dump = os.path.join(d, "dump.ndjson")
    vlib.run_harness(binary, ["sweep-registry", dump])
    _, res, lines = vlib.tlc_single(PROP, "trace", "Trace_C17", env={"VERIF_IN": dump}, workers=1, timeout=600, out_name="verdict.ndjson", d=d)
    rep.add_tlc("Trace_C17", res)
    if not lines or lines[-1].get("what") != "done":
        raise vlib.ToolError("the judgement did not finish")
    done = lines[-1]
    ev = vlib.read_ndjson(dump)
    for e in ev:
        if e["kind"] == "const":
            rep.count()
            rep.nontrivial(("const", e["type"], e["name"]))
        elif e["kind"] == "class":
            n = sum(r[1] for r in e["rle"])
            rep.count(n)
            for r in e["rle"]:
                rep.nontrivial((e["type"], e["which"], r[0]))
        elif e["kind"] == "conv":
            rep.count(e["domain"])
            rep.nontrivial(("conv", e["type"], e["conv"]))
        else:
            rep.count(65536)
    # constants found outside the tables: a name of the registry (or a spelling of one: case, underscores, Ecdh / Tls prefixes) must carry
    # that name's value (the reference is the table TLC has just validated, constant by constant); other names cannot be judged
    table = {}
    for e in ev:
        if e["kind"] == "const":
            table.setdefault(e["type"], {})[norm_name(e["name"])] = (e["name"], e["value"])
    for e in ev:
        if e["kind"] == "alias":
            rep.count()
            hit = table.get(e["type"], {}).get(norm_name(e["name"]))
            if hit is None:
                rep.cov["advisory_mismatches"] += 1
                rep.advisory.append({"constant_not_in_the_registries": "%s::%s = %s" % (e["type"], e["name"], e["value"])})
            elif hit[1] != e["value"]:
                rep.violation("const:%s::%s" % (e["type"], e["name"]), e, hit[1], e["value"],
                              "%s::%s = %s, but the registry constant %s is %s" % (e["type"], e["name"], e["value"], hit[0], hit[1]), "sweep")
    if len([e for e in ev if e["kind"] == "conv" and e["conv"].startswith("discovered:")]) != len(convs):
        raise vlib.ToolError("discovered %d conversions, the harness reported %d" % (len(convs), len([e for e in ev if e["kind"] == "conv" and e["conv"].startswith("discovered:")])))
    if len([e for e in ev if e["kind"] == "alias"]) != len(found):
        raise vlib.ToolError("discovered %d constants, the harness reported %d" % (len(found), len([e for e in ev if e["kind"] == "alias"])))
    if done["consts"] != done["expected_consts"]:
        rep.violation("consts:count", done, done["expected_consts"], done["consts"],
                      "the crate exposes %d named constants, the registries list %d" % (done["consts"], done["expected_consts"]), "sweep")
    for l in lines[:-1]:
        if l["what"] == "const":
            rep.violation("const:%s::%s" % (l["type"], l["name"]), l, l["expected"], l["observed"],
                          "%s::%s = %s, the IANA registry says %s" % (l["type"], l["name"], l["observed"], l["expected"]), "sweep")
        elif l["what"] == "class":
            fd = l["first_difference"]
            rep.violation("class:%s:%s:%s" % (l["type"], l["which"], fd["expected"][0]), l, fd["expected"], fd["observed"],
                          "%s %s text: run %s of the domain is %s, the registry says %s" % (l["type"], l["which"], fd["at"], fd["observed"], fd["expected"]), "sweep")
        elif l["what"] == "conv":
            rep.violation("conv:%s:%s" % (l["type"], l["conv"]), l, 0, l["failures"],
                          "%s %s is not the identity on the raw value for %d values (first %s)" % (l["type"], l["conv"], l["failures"], l["first"]), "sweep")
        elif l["what"] == "reserved":
            rep.violation("reserved", l, "0xFE00..0xFEFF", l["observed"], "SignatureScheme::is_reserved is not exactly 0xFE00..0xFEFF", "sweep")
        elif l["what"] == "keybits":
            for b in l["bad"]:
                rep.violation("keybits:%s" % b[0], {"group": b[0]}, "admissible set of Registry.tla", b[1],
                              "NamedGroup(%s).key_bits() = %s is not an admissible answer" % (b[0], "None" if b[1] == -1 else b[1]), "sweep")
    rep.cov["traces_validated_against_impl"] += 1
    rep.sample([e for e in ev if e["kind"] == "class"][0])
    rep.sample([e for e in ev if e["kind"] == "const"][10])
    return rep.finish("model_checking",
                      "every integer of the domain of each of the 18 registry newtypes (5 x 65536 + 13 x 256): Display and Debug text class "
                      "(constant name / numeric fallback), conversions (From, Deref, AsRef, to_be_bytes, LowerHex, cipher-id Display), "
                      "SignatureScheme split and reserved range, key_bits; 207 named constants; distinct = (type, text class) and constants",
                      exhaustive=True)


def replay(path):
    print("replay of a sweep = re-run the check")
    return run("quick")
