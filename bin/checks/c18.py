"""C18 - feature matrix: no_std, std and serialize builds agree; no unsafe code; Send + Sync."""
import glob
import hashlib
import json
import os
import re
import subprocess
import vlib

PROP = "C18"
SETS = [("default", ["--features", "std"], "std", "target"),
        ("none", [], "", "target-nostd"),
        ("std+serialize", ["--features", "std,serialize"], "serialize", "target-ser"),
        ("serialize-only", ["--features", "serialize"], None, None)]


def crate_build(d, name, flags):
    """cargo build of the crate itself with one feature set (own target directory, /repo untouched)."""
    tdir = os.path.join(vlib.HARNESS, "target-crate-" + name.replace("+", "_"))
    p = subprocess.run(["cargo", "build", "--offline", "--lib", "--manifest-path", os.path.join(vlib.REPO, "Cargo.toml"),
                        "--no-default-features", "--target-dir", tdir] + flags,
                       capture_output=True, text=True, env=dict(os.environ, CARGO_NET_OFFLINE="true"))
    return p.returncode == 0, p.stderr


def run(tier):
    rep = vlib.Report(PROP, tier)
    d = vlib.workdir(PROP, "trace")
    obs = []
    # the differential corpus: TLC-generated cases of five grammars + a seeded fuzz corpus
    std_bin = vlib.build_harness()
    _, res, cases = vlib.tlc_chunked(PROP, "corpus", "MC_C03", nchunks=8)
    rep.add_tlc("MC_C03(corpus)", res)
    _, res5, cases5 = vlib.tlc_chunked(PROP, "corpus5", "MC_C05", nchunks=8)
    rep.add_tlc("MC_C05(corpus)", res5)
    _, res10, cases10 = vlib.tlc_chunked(PROP, "corpus10", "MC_C10", nchunks=8)      # DTLS headers over grids of epochs / sequence numbers
    rep.add_tlc("MC_C10(corpus)", res10)
    _, res13, cases13 = vlib.tlc_chunked(PROP, "corpus13", "MC_C13", nchunks=8)      # key-exchange parameters (derived parsers: an attribute may differ by feature)
    rep.add_tlc("MC_C13(corpus)", res13)
    _, res14, cases14 = vlib.tlc_chunked(PROP, "corpus14", "MC_C14", nchunks=8)
    rep.add_tlc("MC_C14(corpus)", res14)
    cases5 = cases5 + cases10 + cases13 + [c for c in cases14 if sum(len(sg["lit"]) + sg["fill"][2] for sg in c["input"]) < 20000]
    for k, c in enumerate(cases + cases5):
        c["id"] = k
    corpus = [{"id": c["id"], "fn": c["fn"], "a": c["a"], "input": c["input"]} for c in cases + cases5]
    cpath = os.path.join(d, "corpus.ndjson")
    vlib.write_ndjson(cpath, corpus)
    outputs = {}
    for name, flags, hfeat, target in SETS:
        builds, err = crate_build(d, name, flags)
        ce = "cannot be enabled when using `no_std`" in err
        e = {"kind": "build", "config": name, "builds": builds, "compile_error": ce, "digest": ""}
        rep.count()
        rep.nontrivial(("build", name, builds))
        if builds and hfeat is not None:
            try:
                b = vlib.build_harness(features=hfeat, target=target) if hfeat else build_nostd(target)
            except vlib.ToolError as ex:
                e["builds"] = False
                e["note"] = str(ex)[:300]
                obs.append(e)
                continue
            # (runs beside the rest) the same two records with 10.5 s of wall-clock time between the calls: what a parser answers does not
            # depend on when it is asked - under any feature set
            pz = os.path.join(d, "pause.%s.ndjson" % target)
            pause_proc = subprocess.Popen([b, "defrag-pause", "10500", pz], stdout=subprocess.DEVNULL, stderr=subprocess.DEVNULL)
            out = os.path.join(d, "out.%s.ndjson" % target)
            vlib.run_harness(b, ["run", cpath, out])
            fz = os.path.join(d, "fuzz.%s.ndjson" % target)
            vlib.run_harness(b, ["fuzz", str(vlib.seed()), "150", fz, cpath])
            lines = [json.dumps({"id": o["id"], "res": o["res"]}, sort_keys=True) for o in vlib.read_ndjson(out)]
            lines += [json.dumps({"id": o["id"], "in": o["input"], "res": o["res"]}, sort_keys=True) for o in vlib.read_ndjson(fz)]
            # stateful part of the corpus: the defragmenter's real-size stream and seeded operation sequences
            st = os.path.join(d, "stream.%s.ndjson" % target)
            vlib.run_harness(b, ["defrag-stream", st])
            lines += [json.dumps({k: e[k] for k in ("op", "ct", "len", "k", "e", "inprog", "buflen")}, sort_keys=True) for e in vlib.read_ndjson(st)]
            dfz = os.path.join(d, "defrag.%s.ndjson" % target)
            vlib.run_harness(b, ["defrag-fuzz", str(vlib.seed()), "300", "20", dfz])
            lines += [json.dumps({"id": r["id"], "steps": [[x["res"], x["inprog"], x["buflen"]] for x in r["results"]]}, sort_keys=True) for r in vlib.read_ndjson(dfz)]
            # the static tables too: the cipher-suite registry through every lookup route (all 65536 ids, the name queries) and the
            # registry newtypes' texts and conversions must not depend on the feature set either
            for sub, extra in (("sweep-ciphers", ["100000"]), ("sweep-registry", []), ("sweep-ext", [])):
                tp = os.path.join(d, "%s.%s.ndjson" % (sub, target))
                vlib.run_harness(b, [sub, tp] + extra)
                lines += [json.dumps(x, sort_keys=True) for x in vlib.read_ndjson(tp)]
            if pause_proc.wait(timeout=120) != 0:
                raise vlib.ToolError("defrag-pause failed under %s" % name)
            pl = vlib.read_ndjson(pz)
            lines += [json.dumps({k: v for k, v in x.items() if k != "run"}, sort_keys=True) for x in pl]
            if len(pl) == 2 and {k: v for k, v in pl[0].items() if k != "run"} != {k: v for k, v in pl[1].items() if k != "run"}:
                rep.violation("pause:%s" % name, {"config": name, "records": [[22, [20, 0, 0, 8, 1, 2, 3]], [22, [4, 5, 6, 7, 8]]], "pause_ms": 10500}, pl[0], pl[1],
                              "under %s the defragmenter answers differently when 10.5 s pass between the two records of a message" % name, "sweep")
            outputs[name] = lines
            e["digest"] = hashlib.sha256("\n".join(lines).encode()).hexdigest()
            rep.count(len(lines))
        obs.append(e)
    # static facts: forbid(unsafe_code) present, no `unsafe` token, Send + Sync assertions compile
    lib = open(os.path.join(vlib.REPO, "src", "lib.rs")).read()
    forbid = bool(re.search(r"#!\[forbid\([^)]*unsafe_code", lib))
    toks = 0
    where = []
    for f in sorted(glob.glob(os.path.join(vlib.REPO, "src", "*.rs"))) + [os.path.join(vlib.REPO, "build.rs")]:
        src = re.sub(r"//.*", "", open(f).read())
        src = re.sub(r'"(\\.|[^"\\])*"', '""', src)
        # the keyword, and any identifier that names an unsafe facility (e.g. a derive called UnsafeFromPrimitive); the lint name
        # `unsafe_code` inside forbid(...) / deny(...) is the one expected occurrence
        src = re.sub(r"#!?\[(forbid|deny)\([^\]]*\)\]", "", src)
        for m in re.finditer(r"[A-Za-z0-9_]*[Uu][Nn][Ss][Aa][Ff][Ee][A-Za-z0-9_]*", src):
            toks += 1
            where.append("%s:%s" % (os.path.basename(f), m.group(0)))
    # ... and in the MACRO-EXPANDED crate (rustc does not apply forbid(unsafe_code) to code expanded from other crates' derives):
    # nightly `-Zunpretty=expanded`, default features and serialize; built-in derives' `unsafe impl ::core::...` marker impls are not code
    for feat in ([], ["--features", "serialize"]):
        px = subprocess.run(["cargo", "+nightly", "rustc", "--offline", "--lib", "--target-dir", os.path.join(vlib.HARNESS, "target-expand")] + feat +
                            ["--", "-Zunpretty=expanded"], cwd=vlib.REPO, capture_output=True, text=True, env=dict(os.environ, CARGO_NET_OFFLINE="true"))
        if px.returncode != 0 or len(px.stdout) < 10000:
            raise vlib.ToolError("macro expansion of the crate failed: %s" % px.stderr[-600:])
        exp = re.sub(r"//.*", "", px.stdout)
        exp = re.sub(r'"(\\.|[^"\\])*"', '""', exp)
        exp = re.sub(r"#!?\[(forbid|deny)\([^\]]*\)\]", "", exp)
        exp = re.sub(r"unsafe\s+impl(<[^>]*>)?\s+::core::[A-Za-z_:]+\s+for\b", "", exp)
        # (built-in derives of this toolchain: `unsafe { ::core::intrinsics::unreachable() }` in derived comparisons of fieldless enums)
        exp = re.sub(r"unsafe\s*\{\s*::core::intrinsics::(unreachable|discriminant_value)\([^)]*\)\s*\}", "", exp)
        for m in re.finditer(r"\bunsafe\b[^\n]{0,60}", exp):
            toks += 1
            where.append("expanded(%s):%s" % (" ".join(feat) or "default", m.group(0).strip()[:50]))
    # the Send + Sync assertions cover the hand-written list AND every `pub struct` / `pub enum` found in the sources now
    gen_lines = []
    for f in sorted(glob.glob(os.path.join(vlib.REPO, "src", "*.rs"))):
        if os.path.basename(f) in ("tls_serialize.rs",):
            continue
        srcf = re.sub(r"//[^\n]*", "", open(f).read())
        for m in re.finditer(r"^\s*pub\s+(?:struct|enum|union)\s+([A-Za-z_][A-Za-z0-9_]*)\s*(<[^>{(;]*>)?", srcf, flags=re.M):
            name, gen = m.group(1), m.group(2) or ""
            if gen and not re.fullmatch(r"<\s*'[a-z_]+\s*(,\s*'[a-z_]+\s*)*>", gen):
                continue      # type parameters: nothing to instantiate mechanically
            n_lt = gen.count("'")
            gen_lines.append("    ok::<tls_parser::%s%s>();" % (name, ("<" + ", ".join(["'a"] * n_lt) + ">") if n_lt else ""))
    with open(os.path.join(vlib.HARNESS, "sendsync", "src", "generated.rs"), "w") as gf:
        gf.write("// generated by bin/checks/c18.py from the `pub struct` / `pub enum` items of /repo/src at check time\n"
                 "#[allow(dead_code)]\npub fn all_public_types<'a>() {\n    fn ok<T: Send + Sync>() {}\n" + "\n".join(sorted(set(gen_lines))) + "\n}\n")
    # the assertions are compiled under BOTH feature sets of the library (std and no_std): an auto trait can differ between them
    ss_ok, ss_err = True, ""
    for extra in ([], ["--no-default-features"]):
        p = subprocess.run(["cargo", "build", "--offline", "--target-dir", os.path.join(vlib.HARNESS, "target-sendsync")] + extra,
                           cwd=os.path.join(vlib.HARNESS, "sendsync"), capture_output=True, text=True, env=dict(os.environ, CARGO_NET_OFFLINE="true"))
        if p.returncode != 0:
            ss_ok = False
            ss_err += ("[%s] " % (" ".join(extra) or "default features")) + "\n".join(l for l in p.stderr.splitlines() if l.startswith("error"))[:600]
    obs.append({"kind": "static", "forbid_attribute": forbid, "unsafe_tokens": toks, "sendsync_compiles": ss_ok})
    opath = os.path.join(d, "obs.ndjson")
    vlib.write_ndjson(opath, obs)
    _, res2, verdict = vlib.tlc_single(PROP, "trace_tlc", "Trace_C18", env={"VERIF_IN": opath}, out_name="verdict.ndjson", d=d)
    rep.add_tlc("Trace_C18", res2)
    if not verdict:
        raise vlib.ToolError("no verdict")
    v = verdict[-1]
    if not v["all_configs"]:
        raise vlib.ToolError("not all feature sets were observed")
    for c in v["bad_configs"]:
        e = [x for x in obs if x.get("config") == c][0]
        rep.violation("build:%s" % c, e, "builds" if c != "serialize-only" else "refused with the crate's compile_error!", e,
                      "feature set %s: builds=%s compile_error=%s" % (c, e["builds"], e["compile_error"]), "config")
    if not v["digests_agree"]:
        names = list(outputs)
        first = None
        for a, b in zip(outputs[names[0]], outputs[names[1]] if len(names) > 1 else []):
            if a != b:
                first = (a[:300], b[:300])
                break
        if first is None and len(names) > 2:
            for a, b in zip(outputs[names[0]], outputs[names[2]]):
                if a != b:
                    first = (a[:300], b[:300])
                    break
        rep.violation("digest", {"configs": names}, "identical results", first, "the parsers return different results under different feature sets: %s" % (first,), "config")
    if not v["no_unsafe"]:
        rep.violation("unsafe", {"files": where}, "forbid(unsafe_code) and no unsafe token", {"forbid": forbid, "tokens": toks},
                      "forbid(unsafe_code) present=%s, `unsafe` tokens=%d in %s" % (forbid, toks, sorted(set(where))), "config")
    if not v["send_sync"]:
        rep.violation("sendsync", {}, "every public value type is Send + Sync", ss_err, "the Send/Sync assertions do not compile: %s" % ss_err, "config")
    rep.cov["traces_validated_against_impl"] += 1
    rep.sample({"observations": obs})
    return rep.finish("other", "configurations = the 4 feature sets {default, none, std+serialize, serialize-only}; corpus = TLC cases of "
                      "MC_C03 and MC_C05 plus a seeded fuzz corpus over all entry points, run under each buildable set; distinct = build outcomes",
                      exhaustive=True,
                      explanation="Exhaustive enumeration of the 4 feature sets: cargo build outcome of the crate per set (the fourth must be refused by the "
                      "crate's compile_error!), SHA-256 digests of the projected results of a differential corpus under each buildable set, a token "
                      "scan for `unsafe` plus the forbid attribute, compile-time Send + Sync assertions for every public value type; the observation "
                      "list is judged by TLC against FeatureMatrix.tla.")


def build_nostd(target):
    return vlib.build_harness(features="nostd_marker", target=target)


def replay(path):
    print("replay = re-run the check")
    return run("quick")
