"""Helpers shared by the per-property checks."""
import json
import os
import vlib


def replay_case_file(prop, path):
    """Re-run exactly one recorded violation against the current tree."""
    body = json.load(open(path))
    binary = vlib.build_harness()
    rep = vlib.Report(prop, "quick")
    d = vlib.workdir(prop, "replay")
    if body.get("kind") == "case":
        c = body["payload"]
        outs = vlib.replay_cases(binary, d, [c])
        vlib.judge_cases(rep, [c], outs, keyf=lambda c: body["key"])
        for key, p, expl in rep.violations:
            print("VIOLATION property=%s replay=%s" % (prop, path))
            print("  " + expl)
        if not rep.violations:
            print("replay: the case now agrees with the specification")
        return 1 if rep.violations else 0
    raise vlib.ToolError("cannot replay kind %s here" % body.get("kind"))
