"""Helpers shared by the per-property checks."""
import json
import os
import vlib


def replay_case_file(prop, path):
    """Re-run exactly one recorded violation against the current tree."""
    body = json.load(open(path))
    binary = vlib.build_harness()
    rep = vlib.Report(prop, "quick")
    d = vlib.workdir(prop, "replay")
    if body.get("kind") == "case":
        c = body["payload"]
        outs = vlib.replay_cases(binary, d, [c])
        vlib.judge_cases(rep, [c], outs, keyf=lambda c: body["key"])
        for key, p, expl in rep.violations:
            print("VIOLATION property=%s replay=%s" % (prop, path))
            print("  " + expl)
        if not rep.violations:
            print("replay: the case now agrees with the specification")
        return 1 if rep.violations else 0
    raise vlib.ToolError("cannot replay kind %s here" % body.get("kind"))


def mc_replay(rep, binary, prop, module, keyf=None, run="mc", nchunks=None, env=None, timeout=600):
    """(a) spec -> impl: run the bounded exhaustive configuration `module` (TLC checks the property's
    theorems on the specification and emits one case per state), replay every case on the real
    code and judge it under its pin mask."""
    d, res, cases = vlib.tlc_chunked(prop, run, module, nchunks=nchunks, env=env, timeout=timeout)
    rep.add_tlc(module, res)
    outs = vlib.replay_cases(binary, d, cases, name=run)
    vlib.judge_cases(rep, cases, outs, keyf=keyf)
    rep.cov["traces_validated_against_impl"] += len(cases)
    step = max(1, len(cases) // 3)
    for c in cases[::step][:3]:
        rep.sample({"fn": c["fn"], "a": c["a"], "input": c["input"], "expect": c["expect"], "pin": c["pin"]})
    return d, cases, outs


def trace_parse(rep, prop, run, events, nchunks=None, timeout=600):
    """(b) impl -> spec: TLC evaluates the specification on every recorded event; returns
    {id: spec result}.  The comparison is made by `judge_events`."""
    d = vlib.workdir(prop, run)
    slim = [{"id": e["id"], "fn": e["fn"], "a": e["a"], "input": e["input"]} for e in events]
    path = vlib.os.path.join(d, "events.ndjson")
    vlib.write_ndjson(path, slim)
    d2, res, lines = vlib.tlc_chunked(prop, run + "_tlc", "Trace_Parse", nchunks=nchunks,
                                      env={"VERIF_IN": path}, timeout=timeout, out_name="spec")
    rep.add_tlc("Trace_Parse(%s)" % run, res)
    return {l["id"]: l["spec"] for l in lines}


def judge_events(rep, events, spec, pinf=None, keyf=None):
    """Every recorded event must satisfy the observation invariants (Robust); where `pinf`
    pins something for an event the specification's answer is compared under that pin,
    otherwise a disagreement with the precise decoder is advisory."""
    agree = 0
    for e in events:
        rep.count()
        why = vlib.robust_check(e)
        s = spec.get(e["id"])
        adv, pin = False, "none"
        if why is None and s is not None:
            pin = pinf(e, s) if pinf else "none"
            why, adv = vlib.compare(pin, s, e["res"])
        key = keyf(e) if keyf else "%s:%s" % (e["fn"], vlib.hashlib.sha1(vlib.json.dumps([e["a"], e["input"]]).encode()).hexdigest()[:10])
        if why:
            rep.violation(key, {"id": e["id"], "fn": e["fn"], "a": e["a"], "input": e["input"], "expect": s, "pin": pin},
                          s, e["res"], why)
        elif adv:
            rep.cov["advisory_mismatches"] += 1
            if len(rep.advisory) < 8:
                rep.advisory.append({"fn": e["fn"], "a": e["a"], "input": e["input"], "spec": s, "observed": e["res"]})
        else:
            agree += 1
        r = e["res"]
        rep.nontrivial((e["fn"], r["k"], r["e"] if r["k"] in ("err", "fail") else "", min(e["len"], 40) // 4))
    rep.cov["traces_validated_against_impl"] += agree
    return agree


def default_key(c):
    n = c.get("note", {})
    tag = ":".join("%s=%s" % (k, n[k]) for k in sorted(n)) if isinstance(n, dict) else str(n)
    h = vlib.hashlib.sha1(vlib.json.dumps([c["a"], c["input"]], sort_keys=True).encode()).hexdigest()[:10]
    return "%s:%s:%s" % (c["fn"], tag, h)


def trace_robust(rep, prop, run, events, nchunks=8):
    """TLC evaluates the observation invariants of Robust.tla on every recorded event; returns {id: broken invariant}."""
    d = vlib.workdir(prop, run)
    path = vlib.os.path.join(d, "events.ndjson")
    vlib.write_ndjson(path, [{"id": e["id"], "res": {"k": e["res"]["k"], "p": e["res"]["p"]}, "fmt_panic": e.get("fmt_panic", ""),
                              "alloc": e["alloc"], "len": e["len"], "rem_ok": e["rem_ok"], "foreign": e["foreign"], "max_end": e["max_end"]}
                             for e in events])
    _, res, lines = vlib.tlc_chunked(prop, run + "_tlc", "Trace_Robust", nchunks=nchunks, env={"VERIF_IN": path}, out_name="broken")
    rep.add_tlc("Trace_Robust(%s)" % run, res)
    done = [l for l in lines if l["id"] == "done"]
    if len(done) != min(nchunks, len(events)):
        raise vlib.ToolError("Trace_Robust: %d of %d chunks finished" % (len(done), nchunks))
    return {l["id"]: l["broken"] for l in lines if l["id"] != "done"}


def ext_type_sweep(rep, binary, prop):
    """(c) all 65536 extension types x 3 dispatchers x 2 payloads and x 16 tag parsers, swept on the crate and judged
    run by run by TLC against the codes the specification computes (Trace_C05)."""
    d = vlib.workdir(prop, "extsweep")
    path = vlib.os.path.join(d, "ext.ndjson")
    vlib.run_harness(binary, ["sweep-ext", path])
    tables = vlib.read_ndjson(path)
    _, res, verdicts = vlib.tlc_chunked(prop, "extsweep_tlc", "Trace_C05", nchunks=len(tables), env={"VERIF_IN": path}, out_name="verdict")
    rep.add_tlc("Trace_C05", res)
    if len(verdicts) != len(tables):
        raise vlib.ToolError("extension sweep: %d verdicts for %d tables" % (len(verdicts), len(tables)))
    rep.count(65536 * len(tables))
    for t in tables:
        for r in t["rle"]:
            rep.nontrivial(("extsweep", t.get("which") or t.get("fn"), t.get("plen", 1), r[0]))
    for v in verdicts:
        if not v["agree"]:
            f = v["first"]
            where = "type %s" % f[1] if len(f) == 4 else "run %s" % f[0]
            rep.violation("exttype:%s:%s" % (v["table"], f[1] if len(f) == 4 else f[0]), {"table": v["table"], "first": f},
                          f[3] if len(f) == 4 else None, f[2] if len(f) == 4 else None,
                          "extension type sweep %s: from %s the crate answers %s, the specification says %s" % (
                              v["table"], where, f[2] if len(f) == 4 else "?", f[3] if len(f) == 4 else "?"), "sweep")
        else:
            rep.cov["traces_validated_against_impl"] += 1


def pipeline_runs(rep, binary, prop, aspect, runs=60):
    """Growth beyond the listed properties: the end-to-end pipeline model (Pipeline.tla: TCP segments -> raw records ->
    defragmenter -> automaton) is explored by TLC for every segmentation of three fragmented handshakes
    (ChunkingInvariance, NeverError, PrefixOfReference, NoWholeRecordWaiting); its per-position states are then compared
    with the real pipeline under seeded random segmentations.  `aspect` selects what this property judges:
    "delivery" (messages delivered, bytes waiting, defragmenter state) or "state" (the automaton's state)."""
    table = {}
    scen = []
    d = None
    for sc in (1, 2, 3):
        d, res, lines = vlib.tlc_single(prop, "pipeline%d" % sc, "MC_Pipeline", cfg="MC_Pipeline_%d" % sc, workers=1, timeout=300,
                                        out_name="pos.ndjson")
        rep.add_tlc("MC_Pipeline_%d" % sc, res)
        for l in lines:
            if "flights" in l:
                scen.append(l)
            else:
                table[(l["scenario"], l["fl"], l["sent"])] = l
    # REAL sessions: flights made of the repository's captures (scenarios 4, 5), every position under segment sizes {1, 7, 100, 1460, all}
    for sc, flights in captured_sessions():
        dd = vlib.workdir(prop, "pipeline%d" % sc)
        fp = vlib.os.path.join(dd, "flights.ndjson")
        vlib.write_ndjson(fp, flights)
        d, res, lines = vlib.tlc_single(prop, "pipeline%d" % sc, "MC_Pipeline", cfg="MC_Pipeline_cap%d" % sc, workers=1, timeout=900, heap="6g",
                                        env={"VERIF_FLIGHTS": fp}, out_name="pos.ndjson", d=dd)
        rep.add_tlc("MC_Pipeline_cap%d" % sc, res)
        for l in lines:
            if "flights" in l:
                scen.append(l)
            else:
                table[(l["scenario"], l["fl"], l["sent"])] = l
    sp = vlib.os.path.join(d, "scenarios.ndjson")
    vlib.write_ndjson(sp, scen)
    out = vlib.os.path.join(d, "pipeline.out.ndjson")
    vlib.run_harness(binary, ["pipeline", sp, str(vlib.seed()), str(runs), out])
    keys = ("nkinds", "tcp_c", "tcp_s", "inprog_c", "inprog_s", "buf_c", "buf_s") if aspect == "delivery" else ("tls",)
    nruns = set()
    for o in vlib.read_ndjson(out):
        rep.count()
        nruns.add((o["scenario"], o["run"]))
        exp = table.get((o["scenario"], o["fl"], o["sent"]))
        if exp is None:
            raise vlib.ToolError("pipeline position %s not in the model" % ((o["scenario"], o["fl"], o["sent"]),))
        rep.nontrivial(("pipeline", o["scenario"], o["fl"], o["sent"] // 8, o["tls"]))
        if aspect == "state" and o["nkinds"] != exp["nkinds"]:
            continue      # message delivery is judged by the delivery aspect (C07), not here
        bad = [k for k in keys if o[k] != exp[k] and not (k.startswith("buf_") and not exp["inprog_" + k[-1]])]
        if bad or str(o["tls"]).startswith("PANIC"):
            k = bad[0] if bad else "tls"
            rep.violation("pipeline:%s:%s:%s:%s" % (o["scenario"], o["fl"], o["sent"], k), {"scenario": o["scenario"], "position": [o["fl"], o["sent"]], "run": o["run"]},
                          {x: exp[x] for x in keys}, {x: o[x] for x in keys},
                          "end-to-end pipeline, scenario %s, flight %s byte %s: %s = %s, the model says %s" % (o["scenario"], o["fl"], o["sent"], k, o[k], exp[k]), "pipeline")
    rep.cov["traces_validated_against_impl"] += len(nruns)


def captured_sessions():
    """Sessions assembled from the repository's captures: (4) ClientHello / the server's ServerHello..ServerHelloDone flight /
    ClientKeyExchange + ChangeCipherSpec + encrypted Finished; (5) a ClientHello fragmented over two records (the two assets)
    answered by a TLS 1.3 ServerHello."""
    def recs(b):
        o, r = 0, []
        while o + 5 <= len(b):
            n = b[o + 3] * 256 + b[o + 4]
            r.append({"ct": b[o], "ver": b[o + 1] * 256 + b[o + 2], "data": b[o + 5:o + 5 + n]})
            o += 5 + n
        return r
    caps = [(s, b) for s, b in extract_captures() if len(b) > 9 and b[0] in (20, 21, 22, 23) and b[1] == 3]
    first = lambda pred: next((b for s, b in caps if pred(s, b)), None)
    ch = first(lambda s, b: b[0] == 22 and b[5] == 1 and 5 + b[3] * 256 + b[4] == len(b) and len(b) > 100)
    sf = first(lambda s, b: b[0] == 22 and b[5] == 2 and len(b) > 5 + b[3] * 256 + b[4] + 100)
    ck = first(lambda s, b: b[0] == 22 and b[5] == 16)
    f1 = first(lambda s, b: s.endswith("fragmented_1.bin"))
    f2 = first(lambda s, b: s.endswith("fragmented_2.bin"))
    sh13 = first(lambda s, b: s.startswith("tls_tls13") and b[0] == 22 and b[5] == 2)
    out = []
    if ch and sf and ck:
        out.append((4, [{"dir": "c", "recs": recs(ch)}, {"dir": "s", "recs": recs(sf)}, {"dir": "c", "recs": recs(ck)}]))
    if f1 and f2 and sh13:
        out.append((5, [{"dir": "c", "recs": recs(f1) + recs(f2)}, {"dir": "s", "recs": recs(sh13)}]))
    if not out:
        raise vlib.ToolError("no session could be assembled from /repo's captures")
    return out


# ------------------------------------------------------------------ the repository's own test vectors
CAPTURE_FNS = ["parse_tls_plaintext", "tls_parser_many", "parse_tls_raw_record", "parse_tls_encrypted", "two_step",
               "parse_tls_message_handshake", "deep_client_hello", "parse_tls_extensions", "parse_tls_client_hello_extensions",
               "parse_tls_server_hello_extensions", "parse_tls_extension", "parse_dh_params", "parse_ecdh_params",
               "parse_ct_signed_certificate_timestamp_list", "parse_ct_signed_certificate_timestamp",
               "parse_dtls_plaintext_record", "parse_dtls_plaintext_records", "parse_dtls_message_handshake",
               "parse_digitally_signed", "parse_tls_handshake_msg_client_hello", "parse_tls_handshake_msg_server_hello",
               "parse_tls_handshake_msg_certificate", "parse_tls_handshake_msg_serverkeyexchange",
               ("deep_server_key_exchange", {"sub": "ecdh", "ext": 1}), ("deep_server_key_exchange", {"sub": "dh", "ext": 1}),
               ("deep_server_key_exchange", {"sub": "ecdh", "ext": 0}), ("deep_server_key_exchange", {"sub": "dh", "ext": 0}),
               ("parse_content_and_signature", {"sub": "ecdh", "ext": 1}), ("parse_content_and_signature", {"sub": "dh", "ext": 0})]


def extract_captures(repo=vlib.REPO):
    """Every byte-array literal (>= 4 bytes) of the crate's tests, benches and test modules, and its binary assets:
    the real captures the maintainers test with.  Read from the working tree at check time."""
    import glob, re
    arrs, seen = [], set()

    def add(src, vals):
        t = tuple(vals)
        if len(vals) >= 4 and t not in seen:
            seen.add(t)
            arrs.append((src, list(vals)))
    for f in sorted(glob.glob(repo + "/tests/*.rs") + glob.glob(repo + "/src/*.rs") + glob.glob(repo + "/benches/*.rs")):
        t = re.sub(r"//[^\n]*", "", open(f, errors="replace").read())
        t = re.sub(r"/\*.*?\*/", "", t, flags=re.S)
        for m in re.finditer(r"\[\s*((?:(?:0x[0-9a-fA-F]{1,2}|\d{1,3})(?:u8)?\s*,\s*)*(?:0x[0-9a-fA-F]{1,2}|\d{1,3})(?:u8)?\s*,?\s*)\]", t):
            vals = [int(x.replace("u8", ""), 0) for x in re.findall(r"0x[0-9a-fA-F]{1,2}|\d{1,3}(?:u8)?", m.group(1))]
            if all(v < 256 for v in vals):
                add(os.path.basename(f), vals)
    for f in sorted(glob.glob(repo + "/assets/*.bin")):
        add(os.path.basename(f), list(open(f, "rb").read()))
    return arrs


def captures(rep, binary, prop, fns=None, cuts=True):
    """(b) impl -> spec on REAL traffic: every test vector of the repository (and its tails after a record header / a
    handshake header, and a few truncations) through the entry points, the crate's answer compared IN FULL with the
    specification's.  Returns the number of events."""
    arrs = extract_captures()
    if len(arrs) < 20:
        raise vlib.ToolError("only %d test vectors found in /repo (expected about 45)" % len(arrs))
    inputs = []
    for src, b in arrs:
        inputs.append((src, b))
        if len(b) > 5 and b[0] in (20, 21, 22, 23, 24) and b[1] in (3, 254):
            inputs.append((src + "[5..]", b[5:]))
            if len(b) > 9 and b[0] == 22:
                inputs.append((src + "[9..]", b[9:]))
        if cuts and len(b) > 12:
            for k in sorted({1, 5, 6, 9, len(b) // 2, len(b) - 1}):
                inputs.append((src + "[..%d]" % k, b[:k]))
    d = vlib.workdir(prop, "captures")
    cases = []
    for n, (src, b) in enumerate(inputs):
        for k, fn in enumerate(fns or CAPTURE_FNS):
            fn, over = (fn, {}) if isinstance(fn, str) else fn
            a = dict(default_args(fn, b), **over)
            cases.append({"id": "%d/%d/%s" % (n, k, fn), "fn": fn, "a": a, "input": [{"lit": b, "fill": [0, 0, 0]}], "note": {"src": src}})
    outs = vlib.replay_cases(binary, d, [dict(c, expect=None, pin="none") for c in cases], name="captures")
    events = []
    for c in cases:
        o = outs.get(c["id"])
        if o is None or "res" not in o:
            raise vlib.ToolError("no observation for capture %s" % c["id"])
        events.append(dict(o, id=c["id"], fn=c["fn"], a=c["a"], input=c["input"], src=c["note"]["src"]))
    spec = trace_parse(rep, prop, "captures_oracle", events, nchunks=12)
    if len(spec) != len(events):
        raise vlib.ToolError("captures: %d specification answers for %d events" % (len(spec), len(events)))
    ok_n = sum(1 for e in events if e["res"]["k"] == "ok")
    judge_events(rep, events, spec, pinf=lambda e, s: "full",
                 keyf=lambda e: "capture:%s:%s" % (e["fn"], vlib.hashlib.sha1(vlib.json.dumps(e["input"]).encode()).hexdigest()[:10]))
    big = [e for e in events if e["res"]["k"] == "ok" and e["len"] > 200]
    if big:
        rep.sample({"capture": big[0]["src"], "fn": big[0]["fn"], "bytes": big[0]["len"], "consumed": big[0]["res"]["p"]})
    rep.cov["captures"] = {"vectors": len(arrs), "inputs": len(inputs), "events": len(events), "accepted": ok_n}
    rep.capture_ok = [{"fn": e["fn"], "a": e["a"], "input": e["input"], "expect": {"k": "ok"}} for e in events if e["res"]["k"] == "ok"]
    return len(events)


NEEDED_IS_STATED = ("C02", "C10")      # the properties whose statement pins the size carried by Incomplete(Needed)


def class_pin(e, s, needed_exact=False):
    """What the specification's answer pins on an arbitrary input: an accepted input pins value and position, an incomplete
    one the class - and Needed only for the properties that state it (C02, C10: elsewhere the hint is not part of the
    statement and a different one is not a violation) -, a rejected one the class (err / fail), not the error kind."""
    if s["k"] == "ok":
        return "full"
    if s["k"] == "inc":
        return "inc_n" if (needed_exact and s["n"] > 0) else "inc"
    return "reject"


def dfuzz(rep, binary, prop, cases, n, fns=None, run="dfuzz", nchunks=12, with_captures=True):
    """(b) impl -> spec on inputs NOBODY chose: seeded value-level mutations of the accepted encodings of this property's
    corpus (TLC's cases and, where present, the repository's captures): one or a few bytes move to arbitrary values, so
    every field visits the middle of its range, not only the boundaries the model enumerates; the crate's answer to each is
    compared with the answer TLC computes from the specification (value and position in full when accepted, class and
    Needed otherwise).  Seeded by VERIF_SEED."""
    base, seen = [], set()
    pool = list(cases) + (getattr(rep, "capture_ok", []) if with_captures else [])
    for c in pool:
        if c.get("expect", {}).get("k") != "ok" or (fns is not None and c["fn"] not in fns):
            continue
        size = sum(len(seg["lit"]) + seg["fill"][2] for seg in c["input"])
        if size == 0 or size > 1200:
            continue
        key = vlib.json.dumps([c["fn"], c["a"], c["input"]], sort_keys=True)
        if key not in seen:
            seen.add(key)
            base.append({"fn": c["fn"], "a": c["a"], "input": c["input"]})
    if len(base) < 5:
        raise vlib.ToolError("dfuzz(%s): only %d accepted encodings to mutate" % (prop, len(base)))
    d = vlib.workdir(prop, run)
    corpus, out = vlib.os.path.join(d, "corpus.ndjson"), vlib.os.path.join(d, "events.out.ndjson")
    vlib.write_ndjson(corpus, base)
    rc, _ = vlib.run_harness(binary, ["dfuzz", str(vlib.seed() + 101), str(n), corpus, out])
    events = vlib.read_ndjson(out)
    if rc == 3:
        rep.violation("hang:dfuzz", {}, None, vlib.read_ndjson(out + ".timeout"), "watchdog: a call did not return within 5 s")
    spec = trace_parse(rep, prop, run + "_oracle", events, nchunks=nchunks)
    if len(spec) != len(events):
        raise vlib.ToolError("dfuzz: %d specification answers for %d events" % (len(spec), len(events)))
    judge_events(rep, events, spec, pinf=lambda e, s: class_pin(e, s, needed_exact=prop in NEEDED_IS_STATED),
                 keyf=lambda e: "dfuzz:%s:%s" % (e["fn"], vlib.hashlib.sha1(vlib.json.dumps([e["a"], e["input"]]).encode()).hexdigest()[:10]))
    ok_n = sum(1 for e in events if e["res"]["k"] == "ok")
    rep.cov["dfuzz"] = {"bases": len(base), "events": len(events), "accepted": ok_n}
    return len(events)


def default_args(fn, b):
    a = {"len": len(b), "ext": 1, "ct": 22, "ver": 771, "sub": "ecdh"}
    return a


def huge_buffers(rep, binary, prop, fns=None):
    """(growth) buffers larger than anything the protocol needs: a structure followed by 10 MiB - 1 .. 2^24 + 1 bytes
    (MC_Huge: TLC checks HugeLocal on the specification over a lazily defined input and emits the cases; the harness
    builds the real buffers and the crate's answer is compared in full, remainder position included)."""
    d, res, cases = vlib.tlc_single(prop, "huge", "MC_Huge", workers=1, heap="6g", timeout=900, out_name="cases.ndjson")
    rep.add_tlc("MC_Huge", res)
    if fns is not None:
        cases = [c for c in cases if c["fn"] in fns]
    if len(cases) < 5:
        raise vlib.ToolError("MC_Huge emitted %d cases" % len(cases))
    outs = vlib.replay_cases(binary, d, cases, name="huge")
    vlib.judge_cases(rep, cases, outs, keyf=lambda c: "huge:%s:%s:%s" % (c["fn"], c["note"]["total"], len(c["input"][0]["lit"])))
    rep.cov["traces_validated_against_impl"] += len(cases)
    return len(cases)


def len_sweep(rep, binary, prop, nchunks=12):
    """(growth) length-domain sweeps (MC_LenSweep): for every site of this property - an entry point and a skeleton whose
    tied length fields are all set from one L - and the L of the outermost field's domain (a residue sample in the quick
    tier, every L up to 2048 and a denser sample beyond in the thorough one) TLC checks the site's law on the specification (a well-formed encoding is
    accepted at EVERY length and consumed up to its end; records up to the cap) and emits the case; the harness builds
    the real input and the crate's answer is compared in full."""
    d, res, cases = vlib.tlc_chunked(prop, "lensweep", "MC_LenSweep", nchunks=nchunks, env={"VERIF_PROP": prop}, timeout=3000)
    rep.add_tlc("MC_LenSweep", res)
    if len(cases) < 200:
        raise vlib.ToolError("MC_LenSweep emitted %d cases for %s" % (len(cases), prop))
    if prop not in NEEDED_IS_STATED:
        for c in cases:
            if c["pin"] == "inc_n":
                c["pin"] = "inc"
    outs = vlib.replay_cases(binary, d, cases, name="lensweep")
    vlib.judge_cases(rep, cases, outs, keyf=lambda c: "len:%s:site=%s:L=%s" % (c["fn"], c["note"]["site"], c["note"]["L"]))
    rep.cov["traces_validated_against_impl"] += len(cases)
    rep.cov["len_sweep"] = {"sites": len({c["note"]["site"] for c in cases}), "cases": len(cases)}
    return len(cases)


# ------------------------------------------------------------------ the streaming consumer (Stream.tla)
def stream_runs(rep, binary, prop, fns, nwires, thorough=False):
    """Growth (C02 / C10): Stream.tla - a consumer that follows Incomplete(Needed) - is explored by TLC for every
    behaviour over the model's wires under both read policies (BoundedReads, NeverReadsAhead, DeliversReference,
    StuckIffReference, NoSpin); the same loop is run on the real parsers (the model's wires, the repository's captures,
    seeded random wires) and every recorded run is validated by Trace_Stream.  Under "needed" the run is deterministic
    and must visit exactly the states TLC reached; under "any" it must stay inside them."""
    import concurrent.futures as cf
    import random
    jobs = [(fn, w, pol) for fn in fns for w in range(1, nwires + 1) for pol in ("needed", "any")]

    def one(job):
        fn, w, pol = job
        return job, vlib.tlc_single(prop, "stream_%s_%d_%s" % (fn, w, pol), "MC_Stream", workers=1, heap="2g", timeout=600,
                                    env={"VERIF_WIRE": w, "VERIF_FN": fn, "VERIF_POLICY": pol}, out_name="states.ndjson")
    reach, wires = {}, {}
    with cf.ThreadPoolExecutor(max_workers=12) as ex:
        for job, (d, res, lines) in ex.map(one, jobs):
            rep.add_tlc("MC_Stream(%s,%d,%s)" % job, res)
            for l in lines:
                if l["policy"] == "wire":
                    wires[(job[0], job[1])] = l["bytes"]
                else:
                    reach.setdefault(job, set()).add(tuple(sorted(l["st"].items())))
    d = vlib.workdir(prop, "stream")
    rng = random.Random(vlib.seed())
    runs = []
    for (fn, w), wire in sorted(wires.items()):
        runs.append({"id": "model:%s:%d:needed" % (fn, w), "fn": fn, "policy": "needed", "wire": wire, "chunks": [], "model": (fn, w, "needed")})
        for k in (1, 2, 3, 5, 8, 400):
            runs.append({"id": "model:%s:%d:any:k=%d" % (fn, w, k), "fn": fn, "policy": "any", "wire": wire, "chunks": [k], "model": (fn, w, "any")})
        for j in range(8 if not thorough else 40):
            runs.append({"id": "model:%s:%d:any:r%d" % (fn, w, j), "fn": fn, "policy": "any", "wire": wire,
                         "chunks": [rng.choice([1, 2, 3, 5, 8, 400]) for _ in range(40)], "model": (fn, w, "any")})
    # real traffic and seeded random wires (no model state set: judged by trace validation alone)
    caps = [(src, b) for src, b in extract_captures() if len(b) > 5 and b[0] in (20, 21, 22, 23, 24) and b[1] in (3, 254)]
    for fn in fns:
        for n, (src, b) in enumerate(caps):
            if (fn.startswith("parse_dtls")) != (b[1] == 254):
                continue
            runs.append({"id": "cap:%s:%d:needed" % (fn, n), "fn": fn, "policy": "needed", "wire": b, "chunks": []})
            runs.append({"id": "cap:%s:%d:any" % (fn, n), "fn": fn, "policy": "any", "wire": b, "chunks": [rng.choice([1, 7, 64, 500, 1460]) for _ in range(16)]})
        base = [w for (f, _), w in sorted(wires.items()) if f == fn]
        for j in range(30 if not thorough else 300):
            w = list(rng.choice(base)) if base else []
            for _ in range(rng.randint(0, 3)):
                if w:
                    i = rng.randrange(len(w))
                    w[i] = rng.choice([0, 1, 3, 20, 22, 23, 65, 255, rng.randrange(256)])
            if rng.random() < 0.3:
                w = w[:rng.randrange(len(w) + 1)]
            runs.append({"id": "rnd:%s:%d" % (fn, j), "fn": fn, "policy": rng.choice(["needed", "any"]), "wire": w,
                         "chunks": [rng.choice([1, 2, 3, 5, 8, 400]) for _ in range(24)]})
    sin, sout = os.path.join(d, "stream.in.ndjson"), os.path.join(d, "stream.out.ndjson")
    vlib.write_ndjson(sin, [{k: r[k] for k in ("id", "fn", "policy", "wire", "chunks")} for r in runs])
    rc, _ = vlib.run_harness(binary, ["stream", sin, sout])
    if rc == 3:
        rep.violation("hang:stream", {}, None, vlib.read_ndjson(sout + ".timeout"), "watchdog: the consumer loop did not finish", "stream")
        return
    recorded = vlib.read_ndjson(sout)
    if len(recorded) != len(runs):
        raise vlib.ToolError("stream: %d recorded runs for %d requested" % (len(recorded), len(runs)))
    byid = {r["id"]: r for r in runs}
    # spec -> impl: the states visited on the model's wires
    visited = {}
    for rec in recorded:
        m = byid[rec["id"]].get("model")
        if m:
            v = visited.setdefault(m, set())
            v.add(tuple(sorted({"have": 0, "start": 0, "phase": "parse", "need": 0, "incs": 0, "out": 0}.items())))
            for e in rec["events"]:
                if "st" in e:
                    v.add(tuple(sorted(e["st"].items())))
    for m, v in sorted(visited.items()):
        want = reach.get(m, set())
        extra = v - want
        missing = (want - v) if m[2] == "needed" else set()
        rep.nontrivial(("stream", m, len(v)))
        if extra or missing:
            s = dict(sorted(extra or missing)[0])
            rep.violation("stream:%s:%d:%s" % m, {"fn": m[0], "wire": wires[(m[0], m[1])], "policy": m[2]}, "a state of Stream.tla", s,
                          "streaming consumer on model wire %d with %s (%s): state %s is %s" % (
                              m[1], m[0], m[2], s, "not reachable in Stream.tla" if extra else "reached by Stream.tla but not by the real loop"), "stream")
    # impl -> spec: every recorded run is a behaviour of Stream.tla satisfying its properties in every state
    tin = os.path.join(d, "recorded.ndjson")
    vlib.write_ndjson(tin, recorded)
    _, res, verdicts = vlib.tlc_chunked(prop, "stream_trace", "Trace_Stream", nchunks=12, env={"VERIF_IN": tin}, out_name="verdict", timeout=1200)
    rep.add_tlc("Trace_Stream", res)
    if len(verdicts) != len(recorded):
        raise vlib.ToolError("Trace_Stream: %d verdicts for %d runs" % (len(verdicts), len(recorded)))
    nsteps = 0
    for v in verdicts:
        r = byid[v["id"]]
        rec = next(x for x in recorded if x["id"] == v["id"]) if v["verdict"] != "accepted" else None
        if v["verdict"] == "accepted":
            rep.cov["traces_validated_against_impl"] += 1
            continue
        ev = rec["events"][v["at"] - 1] if rec and 0 < v["at"] <= len(rec["events"]) else None
        rep.violation("stream:%s:%s" % (r["fn"], vlib.hashlib.sha1(json.dumps([r["wire"], r["policy"], r["chunks"]]).encode()).hexdigest()[:10]),
                      {"fn": r["fn"], "wire": r["wire"], "policy": r["policy"], "chunks": r["chunks"]}, v.get("expected"), ev,
                      "streaming consumer (%s, %s): event %d (%s) is %s; state before it %s" % (
                          r["fn"], r["policy"], v["at"], ev and ev.get("a"), v["verdict"], v.get("state")), "stream")
    for rec in recorded:
        nsteps += len(rec["events"])
    rep.count(nsteps)
    rep.cov["stream"] = {"model_configurations": len(jobs), "recorded_runs": len(recorded), "steps": nsteps,
                         "capture_runs": sum(1 for r in runs if r["id"].startswith("cap:"))}
    rep.sample({"stream_run": recorded[0]["id"], "events": [[e["a"], e.get("st", {}).get("have")] for e in recorded[0]["events"][:12]]})


def tlaps_proof(rep, prop, module, theorem):
    """A TLAPS proof is part of the check: tlapm must discharge every obligation of <module>.tla (no proof, no claim)."""
    import re, shutil, subprocess
    pd = vlib.workdir(prop, "tlaps_" + module)
    p = subprocess.run(["timeout", "600", "tlapm", "--threads", "4", module + ".tla"], cwd=pd, capture_output=True, text=True)
    m = re.search(r"All (\d+) obligations? proved", p.stdout + p.stderr)
    if not m:
        raise vlib.ToolError("tlapm did not prove %s: %s" % (module, (p.stdout + p.stderr)[-800:]))
    rep.cov.setdefault("tlaps_proofs", []).append({"module": module + ".tla", "theorem": theorem, "obligations": int(m.group(1)), "discharged": int(m.group(1))})
    if module == "DefragLen":
        rep.cov["tlaps"] = rep.cov["tlaps_proofs"][-1]
    shutil.rmtree(os.path.join(pd, ".tlacache"), ignore_errors=True)


def site_sweep(rep, binary, prop, keep=None, run="sites"):
    """Preserved(site) (MC_C11): TLC checks the statement on the specification and emits the templates; the crate is then
    evaluated on the WHOLE domain of every kept site (256 or 65536 values) and must return each value unchanged."""
    d, res, sites = vlib.tlc_chunked(prop, run, "MC_C11", nchunks=6, out_name="sites")
    rep.add_tlc("MC_C11(%s)" % run, res)
    sites = [s for s in sites if keep is None or keep(s)]
    if not sites:
        raise vlib.ToolError("no site selected")
    sin, sout = os.path.join(d, "sites.in.ndjson"), os.path.join(d, "sites.out.ndjson")
    vlib.write_ndjson(sin, sites)
    vlib.run_harness(binary, ["sweep-sites", sin, sout])
    for s, o in zip(sites, vlib.read_ndjson(sout)):
        rep.count(o["domain"])
        rep.nontrivial((s["site"], o["domain"]))
        rep.nontrivial((s["site"], "ok", o["ok"]))
        if o["ok"] != o["domain"]:
            first = o["bad"][0]
            rep.violation("site:%s:x=%s" % (s["site"], first["x"]),
                          {"id": s["site"], "fn": s["fn"], "a": s["a"], "note": {"site": s["site"], "x": first["x"]},
                           "input": [{"lit": s["pre"] + ([first["x"] >> 8] if s["w"] == 2 else []) + [first["x"] & 255] + s["suf"], "fill": [0, 0, 0]}],
                           "expect": {"k": "ok"}, "pin": "none", "path": s["path"]},
                          first["x"], first["observed"],
                          "%d of %d values of the field are not accepted and returned unchanged (first: %s)" % (o["domain"] - o["ok"], o["domain"], first["x"]))
    rep.cov["traces_validated_against_impl"] += len(sites)
    return sites
