#!/usr/bin/env python3
"""Regenerates MANIFEST.json from the table below (kept valid at all times)."""
import json, os, subprocess
V = os.path.dirname(os.path.dirname(os.path.abspath(__file__)))
props = [json.loads(l)["id"] for l in open(os.path.join(V, "properties.jsonl"))]

CHECKS = {
 "C02": dict(level="model_checking", technique="TLA+ spec (TlsRecord.tla) model-checked by TLC; TLC-generated cases replayed on the real parsers; exhaustive header sweep judged against the spec",
   text="TLC checks HeaderExact, ExactConsumption, CapAlways, FramedUpToCap, IncompleteIff, NeededExact on the specification over a bounded, boundary-rich record universe (every prefix cut, lying lengths, the cap boundary); every case is replayed through parse_tls_plaintext / _encrypted / _raw_record and compared under the pin mask.",
   note="Bounded model: guarantees hold inside the explored record universe; the binding covers the inputs explored. Trusted: TLC, the projection in harness/src/project.rs, nom semantics as transcribed in Nom.tla.", ref="6 (C02)"),
 "C03": dict(level="model_checking", technique="TLA+ spec (TlsMessage/TlsRecord) model-checked by TLC; TLC-generated payloads replayed one-step / two-step / with-header on the real parsers",
   text="TLC checks ExactMessages, RemainderAtTail, NeverIncomplete, OneStepEqTwoStep on the specification for payloads built from pools of well-formed and malformed messages (lists, every truncation, tails), all five content types and all unknown ones; every case is replayed on parse_tls_plaintext, raw+with_header, and parse_tls_record_with_header.",
   note="Bounded pools of messages; binding covers explored inputs. Trusted: TLC, projection, Nom.tla transcription.", ref="6 (C03)"),
 "C04": dict(level="model_checking", technique="TLA+ spec (TlsHandshake.tla): RFC encoder vs code-shaped decoder model-checked by TLC; ~11k TLC cases replayed on parse_tls_message_handshake and each public body parser",
   text="TLC checks RoundTrip (+locality under suffixes), PublicBodyParsers, Rejected, WithinDeclared on ~700 abstract values of the 17 variants with per-field boundary sets (0/1/32/255/256/65535), every shortened hl, lying hl, the property's rejection list and all 240 unknown type codes; every case is replayed on the real code under its pin mask.",
   note="Bounded value domains (boundary-rich, not all values); u24-maximum bodies not materialised. Trusted: TLC, projection, Nom.tla.", ref="6 (C04)"),
 "C05": dict(level="model_checking", technique="TLA+ spec (TlsExtensions.tla, normative GREASE/IANA tags) model-checked by TLC; TLC cases replayed through the 3 dispatchers, 16 tag parsers and 3 list parsers",
   text="TLC checks Dispatch (typed round trip, GREASE rule, Unknown preserved, tag = wire type, locality), DispatchersAgree, TagParserAcceptsOwnType, EmptyOnlyExtensions, LengthBeyondBlock, ListWholeBlock on the specification; ~3800 cases replayed on the real code.",
   note="Bounded content domains per type; type space sampled in the model (full 65536 sweep is part of the thorough tier). Trusted: TLC, projection, IANA table as transcribed.", ref="6 (C05)"),
 "C07": dict(level="model_checking", technique="TLA+ state machine (Defrag.tla) explored exhaustively by TLC with the property's clauses as invariants; one transition test per (state, operation) replayed on a real TlsRecordsParser; recorded random runs and a real-size 10 MiB stream validated by trace specifications",
   text="Every interleaving of parse_record / parse_record_nocopy / reset over a record universe is explored (RefinesAccumulate, ErrorsPreserveState, BufferBound, InProgressIff, CompletionEqualsOneShot, NoBufferingWhenComplete, FreshAfterResetOrCompletion); the split statement is checked on every k-way split (k<=4); each explored transition is replayed on the real object comparing result, slice provenance, defrag_in_progress() and buffer length (hook); 3000+ recorded random runs are accepted by Trace_C07; a real-size stream is accepted by the length-only instance with MaxRecordData = 10 MiB.",
   note="Model universe is small (MaxRecordData = 12 in the exhaustive model); the real constant is bound by the recorded stream. Trusted: TLC, hook verif_defrag_buffer(), projection.", ref="6 (C07)"),
 "C08": dict(level="model_checking", technique="TLA+ spec (States.tla: documented flows + precedence rules) model-checked by TLC; the complete 25x2x23 cell table with every payload variant and all 65536 alerts swept from the crate and judged cell by cell by TLC; flow paths and random walks replayed/validated",
   text="The relation is total and memoryless, so equality on every cell (exhaustive, all payload variants of each kind) implies equality on all finite message sequences; TLC checks the rule invariants (absorbing states, Finished, alert severity, HelloRequest, sender rule, exactly the documented flows) on the specification and judges the swept table and 3000 random sequences.",
   note="Exhaustive over the relation's domain as the property defines it (state, direction, kind, session-id presence, alert severity); payload independence is checked on 2-3 payloads per kind and all 256 alert descriptions. Trusted: TLC, the flows as transcribed from the crate's documentation/comments.", ref="6 (C08)"),
 "C01": dict(level="exploration", technique="TLA+ spec as input generator and per-input oracle (totality of all decoders checked by TLC on short strings; allocation-hostile corpus); compiled crate observed under catch_unwind, watchdog and a counting allocator; events judged by TLC against Robust.tla",
   text="Panic-freedom, termination and heap use are facts about the compiled artefact, so the verdict is an observation: 11 M calls (ALL inputs of length <= 2 for every entry point and argument variant; all strings <= 3 over a structural alphabet enumerated by TLC with the specification's answer; allocation-hostile inputs; seeded mutations of TLC-generated valid encodings; defragmenter call sequences) each checked for unwinding, a 5 s watchdog, peak heap <= 1024*len + 64 KiB, Debug formatting. The model contributes the corpus, the oracle and the invariants (Robust.tla, evaluated by TLC on every recorded event).",
   note="Exploration, not proof: beyond length 2 the inputs are enumerated from the grammar / mutated, not exhaustive. Trusted: the harness's allocator accounting and watchdog.", ref="6 (C01), 11"),
 "C06": dict(level="model_checking", technique="TLA+ windowed-decoder model (Local / ClassStable theorems checked by TLC on accepted and lying-nested-length structures with suffixes); relational trace validation of recorded (input, input+suffix) runs with pointer-derived slice ranges",
   text="TLC checks Local and ClassStable on the specification for a pool of structures of 30 self-delimiting parsers x 5 suffixes and every case is replayed; every accepted input of the TLC corpora and a fuzz corpus is re-run by the harness on exactly its consumed bytes and with 4 suffixes in separate buffers, and TLC validates the recorded triples against Robust!LocalPair, RemainderIsSuffix, SlicesInsideConsumed, NoForeignSlice (ranges of every reachable &[u8] are computed from pointers, so a copy or a slice of a foreign region differs even with equal contents).",
   note="Bounded pools and seeded corpora. Slice provenance of defragmented results is bound in C07. Trusted: TLC, the projection walking every field.", ref="6 (C06)"),
 "C09": dict(level="model_checking", technique="TLA+ spec of the serializer (Serialize.tla: RFC encoder, Normalize, strict decoders) model-checked by TLC; the crate's emitted bytes judged by TLC's strict decoders (trace validation), parse-back and re-serialization compared",
   text="TLC checks ParseBack, ReSerializeStable and strictness on ~520 serializable values; the harness (feature serialize) builds the crate's structs from the abstract values, serializes, parses back and re-serializes; TLC judges the produced bytes with the strict decoders (every length field equals the length of what it prefixes; everything consumed) and returns the decoded value, which must equal Normalize(v); unsupported values must give NotYetImplemented.",
   note="Bounded value domains (incl. 32767 ciphers, 65535-byte extension block). Byte-for-byte equality with the specification's encoding is advisory. Trusted: TLC, harness struct construction.", ref="6 (C09)"),
 "C10": dict(level="model_checking", technique="TLA+ spec (Dtls.tla) model-checked by TLC; cases replayed on the DTLS parsers",
   text="TLC checks HeaderExact, CapAlways, IncompleteIff, NeededExact, FragmentRule, BodiesRoundTrip, DatagramRecordByRecord on the specification over a grid of header fields (epochs, 48-bit sequence numbers), every prefix cut, the cap boundary, the fragment grid (length x offset x fragment length), the six supported bodies; ~1150 cases replayed.",
   note="Bounded grids; trusted: TLC, projection.", ref="6 (C10)"),
 "C11": dict(level="model_checking", technique="TLA+ Preserved(site) theorem checked by TLC per site; every site swept over its WHOLE field domain on the compiled crate using TLC-emitted templates",
   text="42 (template, field) sites covering every enumerated non-selector field the property lists; TLC checks Preserved on the specification for all u8 values and a boundary-rich stride of u16 values and emits the templates (cross-checked by three full inputs per site); the harness evaluates all 256 / 65536 values per site (1.25 M calls).",
   note="Exhaustive per site on the crate; the enclosing templates are fixed. Trusted: TLC, JSON path navigation in the harness.", ref="6 (C11)"),
 "C12": dict(level="model_checking", technique="TLA+ spec (Ciphers.tla over tables generated mechanically from scripts/tls-ciphersuites.txt and a pinned snapshot); all 65536 ids x 4 routes and ~5400 name queries swept from the crate and judged row by row by TLC",
   text="TLC checks the table (unique ids/names, pinned rows unaltered, parameters agree with the IANA name tokens, derived sizes) and judges the crate's complete dump: every suite equals its listed row in all 10 columns and 3 derived sizes on all four id routes, presence iff listed, name lookup exact and unique.",
   note="The name-token rules are my reading of the IANA naming scheme, validated on today's 352 rows; the pinned snapshot is today's file. Trusted: TLC, the mechanical generator (split on ':' and '_').", ref="6 (C12)"),
 "C13": dict(level="model_checking", technique="TLA+ spec (KeyExchange.tla) model-checked by TLC; cases replayed",
   text="TLC checks RoundTrip + SelfDelimiting (suffix locality), Truncated, CurveTypeRule (all 256 curve types), SignatureFormIffFlag (both flag values, incl. the same bytes under the other flag) on the specification; ~1100 cases replayed on the real parsers.",
   note="Bounded field lengths (0/1/255/256/65535). Trusted: TLC, projection.", ref="6 (C13)"),
 "C14": dict(level="model_checking", technique="TLA+ spec (Sct.tla) model-checked by TLC; cases replayed",
   text="TLC checks ListRoundTrip, SingleEntryExact, EntryBeyondList, ListBeyondInput, IdIs32 on 109 SCT values, lists of 0..3, lying entry/list lengths and every truncation; 645 cases replayed.",
   note="Bounded; trusted: TLC, projection.", ref="6 (C14)"),
 "C15": dict(level="model_checking", technique="TLA+ spec (Hello.tla: accessors, RandTime/RandBytes, cipher lookups over the generated table) checked by TLC; cases replayed through the accessors of constructed and parsed TLS/DTLS hellos",
   text="TLC checks RandomPartition and LookupOrder and emits expected accessor values for constructed hellos with random lengths {0,3,4,5,31,32,33} x 7 leading words and parsed TLS/DTLS ClientHello / ServerHello values; every accessor, get_ciphers/get_cipher/get_version and the stored fields are compared.",
   note="91 cases (boundaries + seeded words), not all 2^32 leading words. Trusted: TLC.", ref="6 (C15)"),
 "C16": dict(level="model_checking", technique="TLA+ loop machine (Iterate) vs many1(complete(single)) model-checked by TLC; cases replayed; alias checked relationally",
   text="TLC checks EqualsIteration (records, FailsIffFirstFails, RemainderAtFirstFailure) and TlsParserAlias on concatenations of 0..3 TLS / DTLS records with tails (truncated, oversized header, garbage, malformed); 704 cases replayed; tls_parser and parse_tls_plaintext compared on the same inputs.",
   note="Bounded pools. Trusted: TLC, projection.", ref="6 (C16)"),
 "C17": dict(level="model_checking", technique="TLA+ registry tables (Registry.tla, transcribed from IANA) ; every integer of every registry newtype's domain swept on the crate and judged by TLC as run-length encoded text classes; constants, conversions, key_bits judged against the tables",
   text="For all 18 newtypes and every integer of the domain (5 x 65536 + 13 x 256): Display and Debug text class (constant name / numeric fallback containing the value), conversions identity, SignatureScheme split and reserved range, key_bits against admissible sets; all 207 named constants by name.",
   note="The IANA side is my transcription (no network); the fallback is pinned only as 'contains the decimal value and is not a name'. Trusted: TLC, harness classification (mechanical string tests).", ref="6 (C17)"),
 "C18": dict(level="other", technique="exhaustive enumeration of the 4 feature sets judged by TLC against FeatureMatrix.tla: cargo build outcomes, result digests of a TLC-generated differential corpus per configuration, unsafe token scan, compile-time Send/Sync assertions",
   text="Build outcomes, absence of unsafe and auto-traits are facts about cargo and rustc; the model is a four-row table and the check enumerates all four configurations, runs the same corpus (TLC cases of two grammars + a seeded fuzz corpus) under each buildable set and compares digests.",
   note="Trusted: cargo/rustc; the token scan ignores comments and string literals.", ref="6 (C18), 11"),
}
NOT_YET = "check not built yet in this round (the specification does not cover it yet); see DESIGN.md section 10"

def main():
    hooks_commits = subprocess.run(["git", "-C", "/repo", "log", "--format=%h %s"], capture_output=True, text=True).stdout.splitlines()
    hook = [l.split()[0] for l in hooks_commits if "tls_parser_verif" in l]
    m = {"version": 1,
         "setup_cmd": "bin/setup.sh",
         "hooks": {"guard": "tls_parser_verif",
                   "enable": "rustc --cfg tls_parser_verif, passed only by /verif/harness/.cargo/config.toml (build.rustflags)",
                   "baseline_off_cmd": "cd /repo && cargo test --workspace --no-fail-fast --offline",
                   "source_commits": hook, "add_only": True},
         "engines": [{"name": "tlc", "path": "/verif/bin/tlc.sh", "serves_properties": sorted(CHECKS), "kind_free_text": "TLA+ model checker (explicit state), specs in /verif/spec, configurations in /verif/mc and /verif/trace"},
                     {"name": "tlsverif", "path": "/verif/harness", "serves_properties": sorted(CHECKS), "kind_free_text": "Rust conformance harness: replays TLC cases/behaviours on the compiled crate, records traces and sweeps for TLC to judge"}],
         "checks": [], "not_applicable": [],
         "notes": "bin/check <ID> --tier quick|thorough; exit 0 held, 1 VIOLATION, 2 tool error. Known findings: KNOWN_FINDINGS.txt."}
    for p in props:
        if p in CHECKS:
            c = CHECKS[p]
            m["checks"].append({"property_id": p, "quick_cmd": "bin/check %s --tier quick" % p,
                "thorough_cmd": "bin/check %s --tier thorough" % p, "evidence_file": "/verif/evidence/%s.json" % p,
                "replay_cmd_template": "bin/check %s --replay {path}" % p, "engine": "tlc",
                "level_claimed": {"category": c["level"], "text": c["text"], "design_ref": c["ref"]},
                "level_note": c["note"], "technique": c["technique"]})
        else:
            m["not_applicable"].append({"property_id": p, "reason": NOT_YET})
    json.dump(m, open(os.path.join(V, "MANIFEST.json"), "w"), indent=1)
main()
