#!/usr/bin/env python3
"""Regenerates MANIFEST.json from the table below (kept valid at all times)."""
import json, os, subprocess
V = os.path.dirname(os.path.dirname(os.path.abspath(__file__)))
props = [json.loads(l)["id"] for l in open(os.path.join(V, "properties.jsonl"))]

CHECKS = {
 "C02": dict(level="model_checking", technique="TLA+ spec (TlsRecord.tla) model-checked by TLC; TLC-generated cases replayed on the real parsers; exhaustive header sweep judged against the spec",
   text="TLC checks HeaderExact, ExactConsumption, CapAlways, FramedUpToCap, IncompleteIff, NeededExact on the specification over a bounded, boundary-rich record universe (every prefix cut, lying lengths, the cap boundary); every case is replayed through parse_tls_plaintext / _encrypted / _raw_record and compared under the pin mask.",
   note="Bounded model: guarantees hold inside the explored record universe; the binding covers the inputs explored. Trusted: TLC, the projection in harness/src/project.rs, nom semantics as transcribed in Nom.tla.", ref="6 (C02)"),
 "C03": dict(level="model_checking", technique="TLA+ spec (TlsMessage/TlsRecord) model-checked by TLC; TLC-generated payloads replayed one-step / two-step / with-header on the real parsers",
   text="TLC checks ExactMessages, RemainderAtTail, NeverIncomplete, OneStepEqTwoStep on the specification for payloads built from pools of well-formed and malformed messages (lists, every truncation, tails), all five content types and all unknown ones; every case is replayed on parse_tls_plaintext, raw+with_header, and parse_tls_record_with_header.",
   note="Bounded pools of messages; binding covers explored inputs. Trusted: TLC, projection, Nom.tla transcription.", ref="6 (C03)"),
 "C04": dict(level="model_checking", technique="TLA+ spec (TlsHandshake.tla): RFC encoder vs code-shaped decoder model-checked by TLC; ~11k TLC cases replayed on parse_tls_message_handshake and each public body parser",
   text="TLC checks RoundTrip (+locality under suffixes), PublicBodyParsers, Rejected, WithinDeclared on ~700 abstract values of the 17 variants with per-field boundary sets (0/1/32/255/256/65535), every shortened hl, lying hl, the property's rejection list and all 240 unknown type codes; every case is replayed on the real code under its pin mask.",
   note="Bounded value domains (boundary-rich, not all values); u24-maximum bodies not materialised. Trusted: TLC, projection, Nom.tla.", ref="6 (C04)"),
 "C05": dict(level="model_checking", technique="TLA+ spec (TlsExtensions.tla, normative GREASE/IANA tags) model-checked by TLC; TLC cases replayed through the 3 dispatchers, 16 tag parsers and 3 list parsers",
   text="TLC checks Dispatch (typed round trip, GREASE rule, Unknown preserved, tag = wire type, locality), DispatchersAgree, TagParserAcceptsOwnType, EmptyOnlyExtensions, LengthBeyondBlock, ListWholeBlock on the specification; ~3800 cases replayed on the real code.",
   note="Bounded content domains per type; type space sampled in the model (full 65536 sweep is part of the thorough tier). Trusted: TLC, projection, IANA table as transcribed.", ref="6 (C05)"),
 "C07": dict(level="model_checking", technique="TLA+ state machine (Defrag.tla) explored exhaustively by TLC with the property's clauses as invariants; one transition test per (state, operation) replayed on a real TlsRecordsParser; recorded random runs and a real-size 10 MiB stream validated by trace specifications",
   text="Every interleaving of parse_record / parse_record_nocopy / reset over a record universe is explored (RefinesAccumulate, ErrorsPreserveState, BufferBound, InProgressIff, CompletionEqualsOneShot, NoBufferingWhenComplete, FreshAfterResetOrCompletion); the split statement is checked on every k-way split (k<=4); each explored transition is replayed on the real object comparing result, slice provenance, defrag_in_progress() and buffer length (hook); 3000+ recorded random runs are accepted by Trace_C07; a real-size stream is accepted by the length-only instance with MaxRecordData = 10 MiB.",
   note="Model universe is small (MaxRecordData = 12 in the exhaustive model); the real constant is bound by the recorded stream. Trusted: TLC, hook verif_defrag_buffer(), projection.", ref="6 (C07)"),
 "C08": dict(level="model_checking", technique="TLA+ spec (States.tla: documented flows + precedence rules) model-checked by TLC; the complete 25x2x23 cell table with every payload variant and all 65536 alerts swept from the crate and judged cell by cell by TLC; flow paths and random walks replayed/validated",
   text="The relation is total and memoryless, so equality on every cell (exhaustive, all payload variants of each kind) implies equality on all finite message sequences; TLC checks the rule invariants (absorbing states, Finished, alert severity, HelloRequest, sender rule, exactly the documented flows) on the specification and judges the swept table and 3000 random sequences.",
   note="Exhaustive over the relation's domain as the property defines it (state, direction, kind, session-id presence, alert severity); payload independence is checked on 2-3 payloads per kind and all 256 alert descriptions. Trusted: TLC, the flows as transcribed from the crate's documentation/comments.", ref="6 (C08)"),
}
NOT_YET = "check not built yet in this round (the specification does not cover it yet); see DESIGN.md section 10"

def main():
    hooks_commits = subprocess.run(["git", "-C", "/repo", "log", "--format=%h %s"], capture_output=True, text=True).stdout.splitlines()
    hook = [l.split()[0] for l in hooks_commits if "tls_parser_verif" in l]
    m = {"version": 1,
         "setup_cmd": "cd /verif/harness && cargo build --release --offline 2>&1 | tail -1",
         "hooks": {"guard": "tls_parser_verif",
                   "enable": "rustc --cfg tls_parser_verif, passed only by /verif/harness/.cargo/config.toml (build.rustflags)",
                   "baseline_off_cmd": "cd /repo && cargo test --workspace --no-fail-fast --offline",
                   "source_commits": hook, "add_only": True},
         "engines": [{"name": "tlc", "path": "/verif/bin/tlc.sh", "serves_properties": sorted(CHECKS), "kind_free_text": "TLA+ model checker (explicit state), specs in /verif/spec, configurations in /verif/mc and /verif/trace"},
                     {"name": "tlsverif", "path": "/verif/harness", "serves_properties": sorted(CHECKS), "kind_free_text": "Rust conformance harness: replays TLC cases/behaviours on the compiled crate, records traces and sweeps for TLC to judge"}],
         "checks": [], "not_applicable": [],
         "notes": "bin/check <ID> --tier quick|thorough; exit 0 held, 1 VIOLATION, 2 tool error. Known findings: KNOWN_FINDINGS.txt."}
    for p in props:
        if p in CHECKS:
            c = CHECKS[p]
            m["checks"].append({"property_id": p, "quick_cmd": "bin/check %s --tier quick" % p,
                "thorough_cmd": "bin/check %s --tier thorough" % p, "evidence_file": "/verif/evidence/%s.json" % p,
                "replay_cmd_template": "bin/check %s --replay {path}" % p, "engine": "tlc",
                "level_claimed": {"category": c["level"], "text": c["text"], "design_ref": c["ref"]},
                "level_note": c["note"], "technique": c["technique"]})
        else:
            m["not_applicable"].append({"property_id": p, "reason": NOT_YET})
    json.dump(m, open(os.path.join(V, "MANIFEST.json"), "w"), indent=1)
main()
