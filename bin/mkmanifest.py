#!/usr/bin/env python3
"""Regenerates MANIFEST.json from the table below (kept valid at all times)."""
import json, os, subprocess
V = os.path.dirname(os.path.dirname(os.path.abspath(__file__)))
props = [json.loads(l)["id"] for l in open(os.path.join(V, "properties.jsonl"))]

CHECKS = {
 "C02": dict(level="model_checking", technique="TLA+ spec (TlsRecord.tla) model-checked by TLC; TLC-generated cases replayed on the real parsers; exhaustive header sweep judged against the spec",
   text="TLC checks HeaderExact, ExactConsumption, CapAlways, FramedUpToCap, IncompleteIff, NeededExact on the specification over a bounded, boundary-rich record universe (every prefix cut, lying lengths, the cap boundary); every case is replayed through parse_tls_plaintext / _encrypted / _raw_record and compared under the pin mask.",
   note="Bounded model: guarantees hold inside the explored record universe; the binding covers the inputs explored. Trusted: TLC, the projection in harness/src/project.rs, nom semantics as transcribed in Nom.tla.", ref="6 (C02)"),
}
NOT_YET = "check not built yet in this round (the specification does not cover it yet); see DESIGN.md section 10"

def main():
    hooks_commits = subprocess.run(["git", "-C", "/repo", "log", "--format=%h %s"], capture_output=True, text=True).stdout.splitlines()
    hook = [l.split()[0] for l in hooks_commits if "tls_parser_verif" in l]
    m = {"version": 1,
         "setup_cmd": "cd /verif/harness && cargo build --release --offline 2>&1 | tail -1",
         "hooks": {"guard": "tls_parser_verif",
                   "enable": "rustc --cfg tls_parser_verif, passed only by /verif/harness/.cargo/config.toml (build.rustflags)",
                   "baseline_off_cmd": "cd /repo && cargo test --workspace --no-fail-fast --offline",
                   "source_commits": hook, "add_only": True},
         "engines": [{"name": "tlc", "path": "/verif/bin/tlc.sh", "serves_properties": sorted(CHECKS), "kind_free_text": "TLA+ model checker (explicit state), specs in /verif/spec, configurations in /verif/mc and /verif/trace"},
                     {"name": "tlsverif", "path": "/verif/harness", "serves_properties": sorted(CHECKS), "kind_free_text": "Rust conformance harness: replays TLC cases/behaviours on the compiled crate, records traces and sweeps for TLC to judge"}],
         "checks": [], "not_applicable": [],
         "notes": "bin/check <ID> --tier quick|thorough; exit 0 held, 1 VIOLATION, 2 tool error. Known findings: KNOWN_FINDINGS.txt."}
    for p in props:
        if p in CHECKS:
            c = CHECKS[p]
            m["checks"].append({"property_id": p, "quick_cmd": "bin/check %s --tier quick" % p,
                "thorough_cmd": "bin/check %s --tier thorough" % p, "evidence_file": "/verif/evidence/%s.json" % p,
                "replay_cmd_template": "bin/check %s --replay {path}" % p, "engine": "tlc",
                "level_claimed": {"category": c["level"], "text": c["text"], "design_ref": c["ref"]},
                "level_note": c["note"], "technique": c["technique"]})
        else:
            m["not_applicable"].append({"property_id": p, "reason": NOT_YET})
    json.dump(m, open(os.path.join(V, "MANIFEST.json"), "w"), indent=1)
main()
