#!/bin/sh
# Build the conformance harness (all feature sets used by the checks) from files on disk only.
set -e
cd "$(dirname "$0")/../harness"
export CARGO_NET_OFFLINE=true
cargo build --release --offline --no-default-features --features std --target-dir target 2>&1 | tail -1
cargo build --offline --no-default-features --features std --target-dir target-dev 2>&1 | tail -1     # the unoptimised build (deep-recursion runs of C01)
cargo build --release --offline --no-default-features --features nostd_marker --target-dir target-nostd 2>&1 | tail -1
cargo build --release --offline --no-default-features --features serialize --target-dir target-ser 2>&1 | tail -1
(cd sendsync && cargo build --offline --target-dir ../target-sendsync 2>&1 | tail -1 && cargo build --offline --no-default-features --target-dir ../target-sendsync 2>&1 | tail -1)
java -version 2>&1 | head -1
