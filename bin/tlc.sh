#!/bin/sh
# TLC with a large main-thread stack (JAVA_TOOL_OPTIONS -Xss does not reach the main thread).
# usage: tlc.sh <heap e.g. 4g> <tlc args...>
HEAP="$1"; shift
exec java -Xss1g -Xmx"$HEAP" -XX:+UseParallelGC -Dtlc2.tool.queue.IStateQueue=StateDeque \
  -cp /opt/veriftools/tla/tla2tools.jar:/opt/veriftools/tla/CommunityModules-deps.jar tlc2.TLC "$@"
