#!/bin/sh
# TLC with a large main-thread stack (JAVA_TOOL_OPTIONS -Xss does not reach the main thread).
# usage: tlc.sh <heap e.g. 4g> <tlc args...>
# The depth-first state queue suits trace validation and case enumeration; VERIF_BFS=1 keeps TLC's breadth-first
# queue (shortest paths to every state: what the reachable-state exploration of a state machine wants).
HEAP="$1"; shift
if [ -n "$VERIF_BFS" ]; then Q=""; else Q="-Dtlc2.tool.queue.IStateQueue=StateDeque"; fi
exec java -Xss1g -Xmx"$HEAP" -XX:+UseParallelGC $Q \
  -cp /opt/veriftools/tla/tla2tools.jar:/opt/veriftools/tla/CommunityModules-deps.jar tlc2.TLC "$@"
