"""Shared machinery of the checks: building the harness against /repo's working tree, running
TLC (exhaustive configurations split over processes, trace validation), comparing expected and
observed results under the pin masks, violations / replays / known findings, evidence."""
import hashlib
import json
import os
import re
import shutil
import subprocess
import sys
import time

VERIF = os.path.dirname(os.path.dirname(os.path.abspath(__file__)))
REPO = os.environ.get("VERIF_REPO", "/repo")   # (an isolated copy for mutation runs; the registered commands never set it)
HARNESS = os.path.join(VERIF, "harness")
WORK = os.path.join(VERIF, ".work")
TLC_SH = os.path.join(VERIF, "bin", "tlc.sh")
NCPU = os.cpu_count() or 4


TIER = ["quick"]      # set by Report(); handed to TLC as VERIF_TIER (Emit!Thorough)


class ToolError(Exception):
    pass


def log(*a):
    print(*a, file=sys.stderr, flush=True)


def seed():
    try:
        return int(os.environ.get("VERIF_SEED", "1"))
    except ValueError:
        return 1


def repo_head():
    try:
        return subprocess.run(["git", "-C", REPO, "rev-parse", "HEAD"], capture_output=True, text=True).stdout.strip()
    except Exception:
        return ""


# ------------------------------------------------------------------------------- harness
_built = {}


def build_harness(features="std", target="target", dev=False):
    """(Re)build the harness against /repo's current working tree; returns the binary path.
    A compile failure of the crate under test is a tool error here (the checks of C18 look
    at build outcomes on their own)."""
    key = (features, target, dev)
    if key in _built:
        return _built[key]
    lock_src = os.path.join(REPO, "Cargo.lock")
    env = dict(os.environ, CARGO_NET_OFFLINE="true")
    # dev=True: the unoptimised build (what `cargo test` / `cargo run` users execute: no tail-call or inlining rescue for deep recursion)
    cmd = ["cargo", "build"] + ([] if dev else ["--release"]) + ["--offline", "--no-default-features", "--features", features,
           "--target-dir", target]
    t0 = time.time()
    p = subprocess.run(cmd, cwd=HARNESS, env=env, capture_output=True, text=True)
    if p.returncode != 0 and os.path.exists(lock_src):
        # a changed dependency set in /repo: refresh our lock file from the repository's and retry
        shutil.copy(lock_src, os.path.join(HARNESS, "Cargo.lock"))
        p = subprocess.run(cmd, cwd=HARNESS, env=env, capture_output=True, text=True)
    if p.returncode != 0:
        errs = "\n".join(l for l in p.stderr.splitlines() if l.startswith("error") or "-->" in l)[:4000]
        raise ToolError("cargo build of the harness failed:\n" + errs)
    log("harness built (%s) in %.1fs" % (features, time.time() - t0))
    b = os.path.join(HARNESS, target, "debug" if dev else "release", "tlsverif")
    _built[key] = b
    return b


def run_harness(binary, args, timeout=1800):
    """Run the harness; exit status 3 = watchdog (a hang in the code under test)."""
    p = subprocess.run([binary] + args, capture_output=True, text=True, timeout=timeout)
    if p.returncode not in (0, 3):
        raise ToolError("harness %s failed (%d): %s" % (args[:1], p.returncode, p.stderr[-2000:]))
    return p.returncode, p.stderr


def read_ndjson(path):
    out = []
    with open(path) as f:
        for line in f:
            line = line.strip()
            if line:
                out.append(json.loads(line))
    return out


def write_ndjson(path, rows):
    with open(path, "w") as f:
        for r in rows:
            f.write(json.dumps(r, separators=(",", ":")) + "\n")


# ------------------------------------------------------------------------------- TLC
def workdir(prop, run):
    d = os.path.join(WORK, prop, run)
    shutil.rmtree(d, ignore_errors=True)
    os.makedirs(d)
    for sub in ("spec", "mc", "trace"):
        sd = os.path.join(VERIF, sub)
        if os.path.isdir(sd):
            for f in os.listdir(sd):
                if f.endswith(".tla") or f.endswith(".cfg"):
                    shutil.copy(os.path.join(sd, f), d)
            gen = os.path.join(sd, "gen")
    return d


_STATS = re.compile(r"(\d+) states generated, (\d+) distinct states found")
_DEPTH = re.compile(r"The depth of the complete state graph search is (\d+)")


class TlcResult:
    def __init__(self):
        self.generated = 0
        self.distinct = 0
        self.depth = 0
        self.ok = True
        self.errors = []
        self.wall = 0.0
        self.violated = []
        self.coverage = {}
        self.stdout = ""


def parse_tlc(out, res):
    for m in _STATS.finditer(out):
        g, d = int(m.group(1)), int(m.group(2))
    ms = list(_STATS.finditer(out))
    if ms:
        res.generated += int(ms[-1].group(1))
        res.distinct += int(ms[-1].group(2))
    md = _DEPTH.search(out)
    if md:
        res.depth = max(res.depth, int(md.group(1)))
    for l in out.splitlines():
        if l.startswith("Error:"):
            res.errors.append(l)
        m = re.match(r"Error: Invariant (\S+) is violated", l)
        if m:
            res.violated.append(m.group(1))
    if "Model checking completed. No error has been found." not in out and "Finished computing" in out:
        if not res.errors:
            res.errors.append("TLC did not complete")
    # coverage lines: <Action line ..>: distinct:generated
    for m in re.finditer(r"^<(\w+) line \d+, col \d+ to line \d+, col \d+ of module (\w+)>: (\d+):(\d+)", out, re.M):
        res.coverage[m.group(2) + "!" + m.group(1)] = res.coverage.get(m.group(2) + "!" + m.group(1), 0) + int(m.group(4))


def run_tlc(d, module, cfg=None, env=None, workers=1, heap="3g", timeout=900, extra=None, simulate=None):
    """One TLC process in directory d.  Returns (returncode, stdout)."""
    cfg = cfg or module
    e = dict(os.environ)
    if env:
        e.update({k: str(v) for k, v in env.items()})
    meta = os.path.join(d, "md_%s_%s" % (module, (env or {}).get("VERIF_CHUNK", 0)))
    cmd = ["timeout", str(timeout), TLC_SH, heap, "-workers", str(workers), "-metadir", meta, "-cleanup",
           "-noGenerateSpecTE", "-nowarning", "-config", cfg + ".cfg"]
    if simulate:
        cmd += ["-simulate", simulate]
    if extra:
        cmd += extra
    cmd += [module + ".tla"]
    p = subprocess.run(cmd, cwd=d, env=e, capture_output=True, text=True)
    return p.returncode, p.stdout + p.stderr


def tlc_chunked(prop, run, module, nchunks=None, env=None, heap="3g", timeout=600, out_name="cases", coverage=False):
    """Exhaustive configuration split over `nchunks` single-worker TLC processes.
    Every process checks the module's invariants on its share of the cases and appends one
    JSON line per case to <d>/<out_name>.<k>.ndjson.  A TLC error here means the MODEL is
    broken (the specification is normative): tool error, nothing is claimed."""
    nchunks = nchunks or min(NCPU, 12)
    d = workdir(prop, run)
    procs = []
    t0 = time.time()
    for k in range(nchunks):
        e = dict(os.environ)
        e.update({kk: str(v) for kk, v in (env or {}).items()})
        e.update(VERIF_OUT=os.path.join(d, "%s.%d.ndjson" % (out_name, k)), VERIF_NCHUNKS=str(nchunks), VERIF_CHUNK=str(k))
        e.setdefault("VERIF_TIER", TIER[0])
        meta = os.path.join(d, "md_%d" % k)
        cmd = ["timeout", str(timeout), TLC_SH, heap, "-workers", "1", "-metadir", meta, "-cleanup",
               "-noGenerateSpecTE", "-nowarning"] + (["-coverage", "1"] if coverage else []) + ["-config", module + ".cfg", module + ".tla"]
        procs.append(subprocess.Popen(cmd, cwd=d, env=e, stdout=subprocess.PIPE, stderr=subprocess.STDOUT, text=True))
    res = TlcResult()
    for k, p in enumerate(procs):
        out, _ = p.communicate()
        res.stdout += out
        parse_tlc(out, res)
        if p.returncode != 0:
            res.ok = False
            res.errors.append("chunk %d exit %d" % (k, p.returncode))
            tail = "\n".join(l for l in out.splitlines() if not re.match(r"^(Parsing|Semantic|Linting)", l))[-3000:]
            log("TLC chunk %d of %s failed:\n%s" % (k, module, tail))
    res.wall = time.time() - t0
    cases = []
    for k in range(nchunks):
        f = os.path.join(d, "%s.%d.ndjson" % (out_name, k))
        if os.path.exists(f):
            cases += read_ndjson(f)
    if not res.ok:
        raise ToolError("model checking of %s failed (the specification itself is broken): %s" % (module, res.errors[:3]))
    log("TLC %s: %d states, %d cases, %.1fs" % (module, res.distinct, len(cases), res.wall))
    return d, res, cases


# ------------------------------------------------------------------------------- comparison
def jeq(a, b):
    return json.dumps(a, sort_keys=True) == json.dumps(b, sort_keys=True)


def compare(pin, exp, obs):
    """Returns (violation_reason or None, advisory_mismatch bool).
    Only pinned observables can fail (DESIGN.md Appendix I)."""
    k = obs.get("k")
    if k in ("panic", "timeout"):
        return "the call %s: %s" % (k, obs.get("e", "")), False
    full_equal = (exp["k"] == k and ((k == "ok" and exp["p"] == obs["p"] and jeq(exp["v"], obs["v"]))
                                     or (k == "inc" and exp["n"] == obs["n"])
                                     or (k in ("err", "fail") and exp["e"] == obs["e"])))
    adv = not full_equal
    if pin == "full":
        return (None if full_equal else "result differs from the specification"), False
    if pin == "inc":
        return (None if k == "inc" else "expected Incomplete, got %s" % k), adv
    if pin == "inc_n":
        ok = k == "inc" and obs["n"] == exp["n"]
        return (None if ok else "expected Incomplete(%s), got %s(%s)" % (exp["n"], k, obs.get("n"))), False
    if pin == "err_kind":
        ok = k == exp["k"] and obs["e"] == exp["e"]
        return (None if ok else "expected %s(%s), got %s(%s)" % (exp["k"], exp["e"], k, obs.get("e"))), False
    if pin == "reject":        # complete input, malformed: neither a value nor Incomplete
        return (None if k in ("err", "fail") else "expected an error, got %s" % k), adv
    if pin == "novalue":       # must not yield a value
        return (None if k != "ok" else "a value was returned for a malformed input"), adv
    if pin == "prefix_or_err":  # many0 contexts: the valid prefix, or an error
        ok = k != "ok" or (exp["k"] == "ok" and exp["p"] == obs["p"] and jeq(exp["v"], obs["v"]))
        return (None if ok else "value differs from the valid prefix"), adv
    if pin == "none":
        return None, adv
    raise ToolError("unknown pin " + str(pin))


def slices_of(v, acc=None):
    """All {"o","l"} slices reachable from a projected value."""
    if acc is None:
        acc = []
    if isinstance(v, dict):
        if set(v.keys()) == {"o", "l"}:
            acc.append((v["o"], v["l"]))
        else:
            for x in v.values():
                slices_of(x, acc)
    elif isinstance(v, list):
        for x in v:
            slices_of(x, acc)
    return acc


def robust_check(o, a=1024, b=65536, extra=0):
    """The observation invariants of Robust.tla evaluated on one harness output line
    (also evaluated by TLC on the sampled events).  Returns a reason or None."""
    r = o["res"]
    if r["k"] in ("panic", "timeout"):
        return "panic: %s" % r.get("e")
    if o.get("fmt_panic"):
        return "Debug formatting panicked: %s" % o["fmt_panic"]
    if o.get("again_differs"):
        return "the same bytes at another address, after an unrelated call, gave a different result: %s" % json.dumps(o.get("again"))[:160]
    if o["alloc"] > a * o["len"] + b + extra:
        return "heap %d bytes for a %d-byte input" % (o["alloc"], o["len"])
    if not o.get("rem_ok", True):
        return "remainder is not a suffix of the input"
    if o.get("foreign", 0):
        return "a returned slice lies outside the input"
    if r["k"] == "ok":
        if not (0 <= r["p"] <= o["len"]):
            return "consumed length outside the input"
        if o.get("max_end", 0) > r["p"]:
            return "a returned slice extends beyond the consumed input"
    return None


# ------------------------------------------------------------------------------- violations
def known_findings():
    known = []
    path = os.path.join(VERIF, "KNOWN_FINDINGS.txt")
    if os.path.exists(path):
        for l in open(path):
            l = l.strip()
            m = re.match(r"known: property=(\S+) key=(\S+) (.*)", l)
            if m:
                known.append((m.group(1), m.group(2), m.group(3)))
    return known


class Report:
    def __init__(self, prop, tier):
        self.prop = prop
        self.tier = tier
        TIER[0] = tier
        self.t0 = time.time()
        self.violations = []     # (key, replay path)
        self.known_hits = []
        self.advisory = []
        self.cov = {"evaluations": 0, "distinct_nontrivial": 0, "states": 0, "transitions": 0,
                    "traces_validated_against_impl": 0, "samples": [], "tlc_runs": [], "advisory_mismatches": 0}
        self.distinct = set()
        self.assumptions = []
        self._known = [(k, w) for (p, k, w) in known_findings() if p == prop]

    def violation(self, key, payload, expected, observed, explanation, kind="case"):
        """key identifies the failing case for KNOWN_FINDINGS matching."""
        for (k, what) in self._known:
            if k == key:
                if key not in [x[0] for x in self.known_hits]:
                    self.known_hits.append((key, what))
                return
        body = {"property": self.prop, "kind": kind, "key": key, "payload": payload, "expected": expected,
                "observed": observed, "seed": seed(), "repo_head": repo_head(), "explanation": explanation}
        h = hashlib.sha1(json.dumps([key, payload], sort_keys=True).encode()).hexdigest()[:16]
        d = os.path.join(VERIF, "replays", self.prop)
        os.makedirs(d, exist_ok=True)
        path = os.path.join(d, h + ".json")
        if len(self.violations) < 50:
            with open(path, "w") as f:
                json.dump(body, f, indent=1)
        self.violations.append((key, path, explanation))

    def add_tlc(self, name, res):
        self.cov["states"] += res.distinct
        self.cov["transitions"] += res.generated
        run = {"config": name, "states_generated": res.generated, "distinct": res.distinct, "depth": res.depth,
               "wall_s": round(res.wall, 1)}
        if res.coverage:
            run["actions"] = res.coverage
        self.cov["tlc_runs"].append(run)

    def sample(self, x):
        if len(self.cov["samples"]) < 6:
            s = json.dumps(x)
            if len(s) > 1500:
                s = s[:1500] + "..."
                self.cov["samples"].append(s)
            else:
                self.cov["samples"].append(x)

    def count(self, n=1):
        self.cov["evaluations"] += n

    def nontrivial(self, key):
        self.distinct.add(key)

    def finish(self, level, rule, exhaustive=False, explanation=None, extra=None):
        self.cov["distinct_nontrivial"] = len(self.distinct)
        self.cov["rule"] = rule
        if exhaustive:
            self.cov["exhaustive"] = True
        if explanation:
            self.cov["explanation"] = explanation
        if extra:
            self.cov.update(extra)
        self.cov["known_findings_hit"] = [k for k, _ in self.known_hits]
        self.cov["advisory_samples"] = self.advisory[:5]
        ev = {"property_id": self.prop, "tier": self.tier, "seed": seed(), "level": level, "coverage": self.cov,
              "assumptions": self.assumptions, "wall_s": round(time.time() - self.t0, 1),
              "violations": len(self.violations)}
        os.makedirs(os.path.join(VERIF, "evidence"), exist_ok=True)
        with open(os.path.join(VERIF, "evidence", self.prop + ".json"), "w") as f:
            json.dump(ev, f, indent=1)
        for key, what in self.known_hits:
            print("KNOWN-FINDING: property=%s key=%s %s" % (self.prop, key, what))
        seen = set()
        for key, path, expl in self.violations[:50]:
            if path in seen:
                continue
            seen.add(path)
            print("VIOLATION property=%s replay=%s" % (self.prop, path))
            log("  %s: %s" % (key, expl))
        print("%s %s: %d evaluations, %d states, %d violations, %.1fs" % (
            self.prop, self.tier, self.cov["evaluations"], self.cov["states"], len(self.violations), time.time() - self.t0))
        return 1 if self.violations else 0


def _run_cases_once(binary, d, cases, name, stack_kb=None):
    """One harness process over `cases`; returns (status, outs): status 0 ok, 3 watchdog, "crash:<n>" when the process was killed by a signal
    (the code under test exhausted the stack or aborted: nothing in-process can report that)."""
    cin = os.path.join(d, name + ".in.ndjson")
    cout = os.path.join(d, name + ".out.ndjson")
    write_ndjson(cin, [{"id": c["id"], "fn": c["fn"], "a": c["a"], "input": c["input"]} for c in cases])
    env = dict(os.environ, VERIF_STACK_KB=str(stack_kb)) if stack_kb else None
    p = subprocess.run([binary, "run", cin, cout], capture_output=True, text=True, timeout=3600, env=env)
    if p.returncode < 0 or p.returncode in (134, 139):
        return "crash:%d" % p.returncode, {}
    if p.returncode not in (0, 3):
        raise ToolError("harness run failed (%d): %s" % (p.returncode, p.stderr[-2000:]))
    outs = {o["id"]: o for o in read_ndjson(cout)}
    if p.returncode == 3:
        t = read_ndjson(cout + ".timeout")
        outs["__timeout__"] = t[0] if t else {"timeout": "?"}
    return p.returncode, outs


def replay_cases(binary, d, cases, name="run", stack_kb=None):
    """Send case lines through the real code; returns {id: output line}.  A process killed by a signal is data too: the cases that
    kill it are isolated by bisection (at most 3) and reported under "__crash__"; the others are run without them."""
    cases = list(cases)
    status, outs = _run_cases_once(binary, d, cases, name, stack_kb)
    crashers = []
    while isinstance(status, str) and len(crashers) < 3:
        lo = cases
        while len(lo) > 1:
            half = lo[:len(lo) // 2]
            st, _ = _run_cases_once(binary, d, half, name + ".bisect", stack_kb)
            lo = half if isinstance(st, str) else lo[len(lo) // 2:]
        st, _ = _run_cases_once(binary, d, lo, name + ".bisect", stack_kb)
        if not isinstance(st, str):
            raise ToolError("the harness was killed by a signal (%s) but no single case reproduces it" % status)
        crashers.append(dict(lo[0], signal=st))
        cases = [c for c in cases if c["id"] != lo[0]["id"]]
        status, outs = _run_cases_once(binary, d, cases, name, stack_kb)
    if isinstance(status, str):
        raise ToolError("more than 3 cases kill the harness process (%s)" % status)
    if crashers:
        outs["__crash__"] = crashers
    return outs


def judge_cases(rep, cases, outs, keyf=None, robust=True):
    """Compare every case with its observation under its pin mask."""
    crashed = {x["id"]: x for x in outs.get("__crash__", [])}
    for c in cases:
        if c["id"] in crashed:
            rep.count()
            rep.violation("abort:%s:%s" % (c["fn"], c["id"]), c, c.get("expect"), {"k": "abort", "signal": crashed[c["id"]]["signal"]},
                          "the process was killed by a signal inside this call (stack exhaustion or abort): the call does not return", "case")
            continue
        o = outs.get(c["id"])
        rep.count()
        if o is None or "res" not in o:
            if "__timeout__" in outs:
                rep.violation("hang:" + c["fn"], c, c["expect"], outs["__timeout__"], "watchdog: a call did not return within 5 s", "case")
                return
            raise ToolError("no observation for case %s (%s)" % (c["id"], o))
        key = (keyf(c) if keyf else "%s:%s" % (c["fn"], c["id"]))
        why, adv = compare(c["pin"], c["expect"], o["res"])
        if why is None and robust:
            why = robust_check(o)
        if why:
            rep.violation(key, c, c["expect"], o["res"], why)
        elif adv:
            rep.cov["advisory_mismatches"] += 1
            if len(rep.advisory) < 5:
                rep.advisory.append({"case": c["id"], "fn": c["fn"], "expected": c["expect"], "observed": o["res"]})
        r = o["res"]
        shape = r["k"] + ":" + (r["e"] if r["k"] in ("err", "fail") else "")
        rep.nontrivial((c["fn"], c["pin"], shape, len(json.dumps(c["expect"].get("v", ""))) // 8))


def tlc_single(prop, run, module, cfg=None, env=None, workers=1, heap="4g", timeout=600, out_name="out.ndjson", d=None):
    """One TLC process exploring a state machine (not chunked).  Lines it emits go to <d>/<out_name>."""
    d = d or workdir(prop, run)
    out_path = os.path.join(d, out_name)
    e = {"VERIF_OUT": out_path, "VERIF_NCHUNKS": "1", "VERIF_CHUNK": "0", "VERIF_TIER": TIER[0]}
    e.update(env or {})
    t0 = time.time()
    rc, out = run_tlc(d, module, cfg=cfg, env=e, workers=workers, heap=heap, timeout=timeout)
    res = TlcResult()
    res.stdout = out
    parse_tlc(out, res)
    res.wall = time.time() - t0
    if rc != 0:
        tail = "\n".join(l for l in out.splitlines() if not re.match(r"^(Parsing|Semantic|Linting)", l))[-3000:]
        log("TLC %s failed (%d):\n%s" % (module, rc, tail))
        raise ToolError("model checking of %s failed (the specification itself is broken): %s" % (module, res.errors[:3]))
    lines = read_ndjson(out_path) if os.path.exists(out_path) else []
    log("TLC %s: %d distinct states, %d generated, %d lines, %.1fs" % (module, res.distinct, res.generated, len(lines), res.wall))
    return d, res, lines


def judge_defrag_step(exp, obs):
    """Pinned observables of one defragmenter step (DESIGN.md appendix I).  Returns reason or None."""
    r, e = obs["res"], exp["res"]
    if r["k"] in ("panic", "timeout"):
        return "the call panicked: %s" % r.get("e")
    if r["k"] != e["k"]:
        return "outcome %s(%s), the specification says %s(%s) [%s]" % (r["k"], r.get("e") or r.get("n"), e["k"], e.get("e") or e.get("n"), exp.get("path"))
    if obs["inprog"] != exp["inprog"]:
        return "defrag_in_progress() = %s, the specification says %s [%s]" % (obs["inprog"], exp["inprog"], exp.get("path"))
    if exp["inprog"] and obs["buflen"] != exp["buflen"]:
        return "buffer length %d while defragmenting, the specification says %d [%s]" % (obs["buflen"], exp["buflen"], exp.get("path"))
    if e["k"] == "ok":
        if r["p"] != e["p"] or not jeq(r["v"], e["v"]):
            return "value / remainder differ from the specification [%s]" % exp.get("path")
        if r["src"] not in ("none", exp["src"]):
            return "returned slices borrow '%s', the specification says '%s'" % (r["src"], exp["src"])
    if e["k"] in ("err", "fail") and e["e"] in ("Tag", "TooLarge", "NonEmpty") and r["e"] != e["e"]:
        return "error kind %s, the specification says %s" % (r["e"], e["e"])
    if not obs.get("rem_ok", True):
        return "remainder is not the tail of the parsed region"
    return None
