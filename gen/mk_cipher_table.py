#!/usr/bin/env python3
"""Mechanical generator: scripts/tls-ciphersuites.txt -> a TLA+ module holding the table.
Splits each line on ':' and the name on '_'; interprets nothing (the interpretation is Ciphers.tla)."""
import sys


def q(s):
    return '"' + s.replace('\\', '\\\\').replace('"', '\\"') + '"'


def num(s):
    return s if s.isdigit() else q(s)


def main(src, module, opname, dst):
    rows = []
    for n, line in enumerate(open(src)):
        line = line.rstrip("\n")
        if not line:
            continue
        v = line.split(":")
        if len(v) < 10:
            raise SystemExit("line %d: %d columns" % (n + 1, len(v)))
        toks = "<<" + ", ".join(q(t) for t in v[1].split("_")) + ">>"
        rows.append('  [hex |-> %s, name |-> %s, kx |-> %s, au |-> %s, enc |-> %s, mode |-> %s, bits |-> %s, mac |-> %s, macbits |-> %s, prf |-> %s, toks |-> %s]' % (
            q(v[0]), q(v[1]), q(v[2]), q(v[3]), q(v[4]), q(v[5]), num(v[6]), q(v[7]), num(v[8]), q(v[9]), toks))
    with open(dst, "w") as f:
        f.write("---- MODULE %s ----\n(* GENERATED from %s by gen/mk_cipher_table.py: split on ':' and '_', nothing else *)\n" % (module, src))
        f.write("%s == <<\n%s\n>>\n====\n" % (opname, ",\n".join(rows)))


if __name__ == "__main__":
    main(*sys.argv[1:5])
