//! Compile-time assertions: every public value type of tls-parser is Send + Sync, and the static
//! cipher registry can be shared across threads.  A compile failure here is a violation of C18.
#![allow(dead_code)]
#![no_std]
#[cfg(feature = "std")]
extern crate std;
use tls_parser::*;
mod generated;

fn ok<T: Send + Sync>() {}

fn all<'a>() {
    ok::<TlsRecordType>(); ok::<TlsRecordHeader>(); ok::<TlsPlaintext<'a>>(); ok::<TlsEncryptedContent<'a>>(); ok::<TlsEncrypted<'a>>();
    ok::<TlsRawRecord<'a>>(); ok::<TlsMessage<'a>>(); ok::<TlsMessageApplicationData<'a>>(); ok::<TlsMessageHeartbeat<'a>>();
    ok::<TlsMessageAlert>(); ok::<TlsAlertSeverity>(); ok::<TlsAlertDescription>();
    ok::<TlsHandshakeType>(); ok::<TlsVersion>(); ok::<TlsHeartbeatMessageType>(); ok::<TlsCompressionID>(); ok::<TlsCipherSuiteID>();
    ok::<TlsClientHelloContents<'a>>(); ok::<TlsServerHelloContents<'a>>(); ok::<TlsServerHelloV13Draft18Contents<'a>>();
    ok::<TlsHelloRetryRequestContents<'a>>(); ok::<TlsNewSessionTicketContent<'a>>(); ok::<RawCertificate<'a>>();
    ok::<TlsCertificateContents<'a>>(); ok::<TlsCertificateRequestContents<'a>>(); ok::<TlsServerKeyExchangeContents<'a>>();
    ok::<TlsClientKeyExchangeContents<'a>>(); ok::<TlsCertificateStatusContents<'a>>(); ok::<TlsNextProtocolContent<'a>>();
    ok::<KeyUpdateRequest>(); ok::<TlsMessageHandshake<'a>>();
    ok::<TlsExtensionType>(); ok::<TlsExtension<'a>>(); ok::<KeyShareEntry<'a>>(); ok::<PskKeyExchangeMode>(); ok::<SNIType>();
    ok::<CertificateStatusType>(); ok::<OidFilter<'a>>();
    ok::<NamedGroup>(); ok::<ECCurve<'a>>(); ok::<ECCurveType>(); ok::<ECPoint<'a>>(); ok::<ExplicitPrimeContent<'a>>();
    ok::<ECParametersContent<'a>>(); ok::<ECParameters<'a>>(); ok::<ServerECDHParams<'a>>(); ok::<ServerDHParams<'a>>();
    ok::<HashAlgorithm>(); ok::<SignAlgorithm>(); ok::<SignatureAndHashAlgorithm>(); ok::<SignatureScheme>(); ok::<DigitallySigned<'a>>();
    ok::<CtVersion>(); ok::<CtLogID<'a>>(); ok::<CtExtensions<'a>>(); ok::<SignedCertificateTimestamp<'a>>();
    ok::<DTLSRecordHeader>(); ok::<DTLSPlaintext<'a>>(); ok::<DTLSRawRecord<'a>>(); ok::<DTLSClientHello<'a>>();
    ok::<DTLSHelloVerifyRequest<'a>>(); ok::<DTLSMessageHandshake<'a>>(); ok::<DTLSMessageHandshakeBody<'a>>(); ok::<DTLSMessage<'a>>();
    ok::<TlsCipherSuite>(); ok::<&'static TlsCipherSuite>(); ok::<TlsCipherKx>(); ok::<TlsCipherAu>(); ok::<TlsCipherEnc>();
    ok::<TlsCipherEncMode>(); ok::<TlsCipherMac>(); ok::<TlsPRF>(); ok::<CipherSuiteNotFound>();
    ok::<TlsState>(); ok::<StateChangeError>(); ok::<TlsRecordsParser>();
    ok::<phf_check::Registry>();
}

mod phf_check {
    /// the static registry itself (a `phf::Map<u16, TlsCipherSuite>`)
    pub type Registry = &'static tls_parser::TlsCipherSuite;
    #[cfg(feature = "std")]
    pub fn shared() -> usize {
        let r = &tls_parser::CIPHERS;
        std::thread::scope(|s| s.spawn(|| r.len()).join().unwrap())
    }
}
