//! name -> call table for the public parsing entry points.
use crate::observe::{alloc_begin, alloc_end, guarded, tick_begin, tick_end};
use crate::project as pj;
use serde_json::{json, Value};
use std::fmt::Debug;
use tls_parser::nom::IResult;
use nom_derive::Parse;
use tls_parser::*;

#[derive(Clone, Debug, Default)]
pub struct Args {
    pub len: usize,
    pub ext: bool,
    pub ct: u8,
    pub ver: u16,
    pub sub: String,
}

impl Args {
    pub fn from_json(v: Option<&Value>) -> Args {
        let mut a = Args::default();
        if let Some(v) = v {
            a.len = v.get("len").and_then(|x| x.as_u64()).unwrap_or(0) as usize;
            a.ext = v.get("ext").and_then(|x| x.as_u64()).unwrap_or(0) != 0;
            a.ct = v.get("ct").and_then(|x| x.as_u64()).unwrap_or(0) as u8;
            a.ver = v.get("ver").and_then(|x| x.as_u64()).unwrap_or(0) as u16;
            a.sub = v.get("sub").and_then(|x| x.as_str()).unwrap_or("").to_string();
        }
        a
    }
}

pub struct Out {
    pub res: Value,
    pub rem_ok: bool,
    pub alloc: usize,
    pub fmt_panic: Option<String>,
    pub stats: pj::SliceStats,
}

pub fn panic_res(msg: &str) -> Value {
    json!({"k":"panic","p":-1,"v":[],"n":0,"e":msg})
}

pub fn run1<'a, T: Debug>(
    input: &'a [u8],
    call: impl FnOnce(&'a [u8]) -> IResult<&'a [u8], T>,
    proj: impl Fn(&T) -> Value,
) -> Out {
    alloc_begin();
    tick_begin();
    let r = guarded(|| call(input));
    tick_end();
    let alloc = alloc_end();
    match r {
        Err(msg) => Out { res: panic_res(&msg), rem_ok: true, alloc, fmt_panic: None, stats: Default::default() },
        Ok(r) => {
            let fmt_panic = guarded(|| match &r {
                Ok((_, v)) => format!("{:?}", v).len(),
                Err(e) => format!("{:?}", e).len(),
            })
            .err();
            let (mut res, rem_ok) = pj::res(input, r, proj);
            let mut stats = pj::SliceStats::default();
            pj::relativize(&mut res, input.as_ptr() as usize, input.len(), None, &mut stats);
            Out { res, rem_ok, alloc, fmt_panic, stats }
        }
    }
}

macro_rules! c {
    ($i:expr, $call:expr, $proj:expr) => {
        Some(run1($i, $call, $proj))
    };
}

fn num(x: &u8) -> Value {
    json!(x)
}

/// All function names known to the table (used by the exhaustive short-input driver).
pub const ALL_FNS: &[&str] = &[
    "parse_tls_record_header", "parse_tls_plaintext", "parse_tls_encrypted", "parse_tls_raw_record",
    "tls_parser", "tls_parser_many", "parse_tls_record_with_header", "fresh_parse_record",
    "parse_tls_message_changecipherspec", "parse_tls_message_alert", "parse_tls_message_applicationdata",
    "parse_tls_message_heartbeat", "parse_tls_message_handshake",
    "parse_tls_handshake_msg_hello_request", "parse_tls_handshake_client_hello", "parse_tls_handshake_msg_client_hello",
    "parse_tls_handshake_server_hello", "parse_tls_handshake_msg_server_hello", "parse_tls_handshake_msg_newsessionticket",
    "parse_tls_handshake_msg_hello_retry_request", "parse_tls_handshake_msg_certificate",
    "parse_tls_handshake_msg_serverkeyexchange", "parse_tls_handshake_msg_serverdone",
    "parse_tls_handshake_msg_certificateverify", "parse_tls_handshake_msg_clientkeyexchange",
    "parse_tls_handshake_certificaterequest", "parse_tls_handshake_msg_certificaterequest",
    "parse_tls_handshake_msg_finished", "parse_tls_handshake_certificatestatus", "parse_tls_handshake_msg_certificatestatus",
    "parse_tls_handshake_next_protocol", "parse_tls_handshake_msg_next_protocol", "parse_tls_handshake_msg_key_update",
    "parse_tls_extension_sni_hostname", "parse_tls_extension_sni_content", "parse_tls_extension_sni",
    "parse_tls_extension_max_fragment_length_content", "parse_tls_extension_max_fragment_length",
    "parse_tls_extension_status_request", "parse_tls_extension_elliptic_curves_content", "parse_tls_extension_elliptic_curves",
    "parse_tls_extension_ec_point_formats_content", "parse_tls_extension_ec_point_formats",
    "parse_tls_extension_signature_algorithms_content", "parse_tls_extension_signature_algorithms",
    "parse_tls_extension_heartbeat_content", "parse_tls_extension_heartbeat", "parse_tls_extension_alpn_content",
    "parse_tls_extension_signed_certificate_timestamp_content", "parse_tls_extension_encrypt_then_mac",
    "parse_tls_extension_extended_master_secret", "parse_tls_extension_session_ticket", "parse_tls_extension_key_share",
    "parse_tls_extension_pre_shared_key", "parse_tls_extension_early_data", "parse_tls_extension_supported_versions",
    "parse_tls_extension_cookie", "parse_tls_extension_psk_key_exchange_modes_content",
    "parse_tls_extension_psk_key_exchange_modes", "parse_tls_extension_renegotiation_info_content",
    "parse_tls_extension_encrypted_server_name", "parse_tls_extension_unknown", "parse_tls_client_hello_extension",
    "parse_tls_server_hello_extension", "parse_tls_extension", "parse_tls_client_hello_extensions",
    "parse_tls_server_hello_extensions", "parse_tls_extensions",
    "parse_dh_params", "parse_named_groups", "parse_ec_parameters", "ECParametersContent::parse", "parse_ecdh_params", "ECPoint::parse",
    "parse_digitally_signed_old", "parse_digitally_signed", "parse_content_and_signature",
    "parse_ct_signed_certificate_timestamp", "parse_ct_signed_certificate_timestamp_list",
    "parse_dtls_record_header", "parse_dtls_message_handshake", "parse_dtls_message_changecipherspec",
    "parse_dtls_message_alert", "parse_dtls_record_with_header", "parse_dtls_plaintext_record",
    "parse_dtls_plaintext_records",
];

#[allow(deprecated)]
pub fn call(name: &str, a: &Args, i: &[u8]) -> Option<Out> {
    let len = a.len;
    let sub = a.sub.clone();
    let ct = a.ct;
    match name {
        // ---- records
        "parse_tls_record_header" => c!(i, parse_tls_record_header, pj::hdr),
        "parse_tls_plaintext" => c!(i, parse_tls_plaintext, pj::plaintext),
        "parse_tls_encrypted" => c!(i, parse_tls_encrypted, pj::encrypted),
        "parse_tls_raw_record" => c!(i, parse_tls_raw_record, pj::raw),
        "tls_parser" => c!(i, tls_parser, pj::plaintext),
        "tls_parser_many" => c!(i, tls_parser_many, |v: &Vec<TlsPlaintext>| Value::Array(v.iter().map(pj::plaintext).collect())),
        "parse_tls_record_with_header" => {
            let h = TlsRecordHeader { record_type: TlsRecordType(a.ct), version: TlsVersion(a.ver), len: len as u16 };
            c!(i, move |i| parse_tls_record_with_header(i, &h), |v: &Vec<TlsMessage>| pj::msgs(v))
        }
        "two_step" => c!(i, |i| {
            // position reached = where decoding of the payload stopped inside the input (TlsRecord!TwoStep): the payload's
            // remainder is a tail of the payload, not of the input, so it is re-expressed as the input's tail from there
            let (_, r) = parse_tls_raw_record(i)?;
            let (rem2, msgs) = parse_tls_record_with_header(r.data, &r.hdr)?;
            // (by lengths, not addresses: parse_tls_message_applicationdata returns a static empty slice as remainder)
            let pos = 5 + r.data.len() - rem2.len();
            Ok((&i[pos..], msgs))
        }, |v: &Vec<TlsMessage>| pj::msgs(v)),
        "fresh_parse_record" => c!(i, |i| {
            // one raw record through a FRESH stateful parser (for a record that needs no defragmentation this is two-step parsing)
            let (_, r) = parse_tls_raw_record(i)?;
            let n = r.data.len();
            let mut p = TlsRecordsParser::default();
            // (the result borrows the parser: it is projected while the parser is alive)
            use tls_parser::nom::{error::make_error, Err as NErr};
            let out = match p.parse_record(r) {
                Ok((rem2, msgs)) => Ok((5 + n - rem2.len(), pj::msgs(&msgs))),
                Err(NErr::Incomplete(nd)) => Err(NErr::Incomplete(nd)),
                Err(NErr::Error(er)) => Err(NErr::Error(make_error(i, er.code))),
                Err(NErr::Failure(er)) => Err(NErr::Failure(make_error(i, er.code))),
            };
            let (pos, v) = out?;
            Ok((&i[pos..], v))
        }, |v: &Value| v.clone()),
        "hist_parse_record" => c!(i, |i| {
            // the record through a stateful parser with a history (sub): complete records of other types, a completed defragmentation,
            // an abandoned one followed by reset()
            let (_, r) = parse_tls_raw_record(i)?;
            let n = r.data.len();
            let mut p = TlsRecordsParser::default();
            let raw = |ct: u8, data: &'static [u8]| TlsRawRecord { hdr: TlsRecordHeader { record_type: TlsRecordType(ct), version: TlsVersion(0x0303), len: data.len() as u16 }, data };
            match sub.as_str() {
                "ccs" => { let _ = p.parse_record(raw(20, &[1])).map(|_| ()); }
                "alert" => { let _ = p.parse_record(raw(21, &[1, 0])).map(|_| ()); }
                "hs" => { let _ = p.parse_record(raw(22, &[14, 0, 0, 0])).map(|_| ()); }
                "app" => { let _ = p.parse_record(raw(23, &[1, 2, 3])).map(|_| ()); }
                "ccs+app" => { let _ = p.parse_record(raw(20, &[1])).map(|_| ()); let _ = p.parse_record(raw(23, &[9; 40])).map(|_| ()); }
                "defrag" => { let _ = p.parse_record(raw(22, &[20, 0, 0, 2, 1])).map(|_| ()); let _ = p.parse_record(raw(22, &[2])).map(|_| ()); }
                "reset" => { let _ = p.parse_record(raw(22, &[11, 0, 1, 0, 5])).map(|_| ()); p.reset(); }
                // first records that are REFUSED (an unknown handshake type, an unregistered content type, a ServerHello of an unknown version):
                // a refused record leaves no trace
                // a fragmented record offered to parse_record_nocopy (answered Incomplete: nothing is kept), then the record under test
                "nocopyfrag" => { let _ = p.parse_record_nocopy(raw(22, &[20, 0, 0, 9, 1])).map(|_| ()); }
                "nocopyfrag2" => { let _ = p.parse_record_nocopy(raw(21, &[1])).map(|_| ()); let _ = p.parse_record_nocopy(raw(24, &[1, 0, 9, 1])).map(|_| ()); }
                // first records refused with each kind of hard error (LengthValue: an odd cipher list; Verify: a 33-byte session id; Tag: an unknown ServerHello version)
                "badlen" => { static CH: [u8; 45] = [1, 0, 0, 41, 3, 3, 7, 7, 7, 7, 7, 7, 7, 7, 7, 7, 7, 7, 7, 7, 7, 7, 7, 7, 7, 7, 7, 7, 7, 7, 7, 7, 7, 7, 7, 7, 7, 7, 0, 0, 3, 0, 47, 0, 1];
                              let _ = p.parse_record(raw(22, &CH)).map(|_| ()); }
                "badver" => { let _ = p.parse_record(raw(22, &[2, 0, 0, 2, 9, 9])).map(|_| ()); }
                "badhs" => { let _ = p.parse_record(raw(22, &[99, 0, 0, 1, 5])).map(|_| ()); }
                "badct" => { let _ = p.parse_record(raw(0x42, &[1, 2, 3])).map(|_| ()); }
                "defrag+badhs" => { let _ = p.parse_record(raw(22, &[20, 0, 0, 2, 1])).map(|_| ()); let _ = p.parse_record(raw(22, &[2])).map(|_| ());
                                    let _ = p.parse_record(raw(22, &[2, 0, 0, 2, 9, 9])).map(|_| ()); }
                _ => {}
            }
            use tls_parser::nom::{error::make_error, Err as NErr};
            let out = match p.parse_record(r) {
                Ok((rem2, msgs)) => Ok((5 + n - rem2.len(), pj::msgs(&msgs))),
                Err(NErr::Incomplete(nd)) => Err(NErr::Incomplete(nd)),
                Err(NErr::Error(er)) => Err(NErr::Error(make_error(i, er.code))),
                Err(NErr::Failure(er)) => Err(NErr::Failure(make_error(i, er.code))),
            };
            let (pos, v) = out?;
            Ok((&i[pos.min(i.len())..], v))
        }, |v: &Value| v.clone()),
        "split_parse_record" => c!(i, |i| {
            // the record's payload cut after len and len + ct bytes into successive records of the same type; the answer is the last call's
            // (its slices live in the parser's buffer: only values are read from this projection)
            let (_, r) = parse_tls_raw_record(i)?;
            let n = r.data.len();
            let c1 = len.min(n);
            let c2 = (ct as usize).min(n - c1);
            let mut pieces: Vec<&[u8]> = vec![&r.data[..c1], &r.data[c1..c1 + c2], &r.data[c1 + c2..]];
            pieces.retain(|x| !x.is_empty());
            if pieces.is_empty() { pieces.push(&r.data[..0]); }
            let mut p = TlsRecordsParser::default();
            use tls_parser::nom::{error::make_error, Err as NErr};
            let last = pieces.len() - 1;
            let mut out: Result<(usize, Value), NErr<tls_parser::nom::error::Error<&[u8]>>> = Err(NErr::Incomplete(tls_parser::nom::Needed::Unknown));
            for (k, pc) in pieces.iter().enumerate() {
                let rr = TlsRawRecord { hdr: TlsRecordHeader { record_type: r.hdr.record_type, version: r.hdr.version, len: pc.len() as u16 }, data: pc };
                let res = p.parse_record(rr);
                if k < last {
                    // every call before the last answers Incomplete (the split statement's premise): anything else IS the answer
                    match res {
                        Err(NErr::Incomplete(_)) => {}
                        Err(NErr::Error(er)) => { out = Err(NErr::Error(make_error(i, er.code))); break; }
                        Err(NErr::Failure(er)) => { out = Err(NErr::Failure(make_error(i, er.code))); break; }
                        Ok(_) => { out = Err(NErr::Failure(make_error(i, tls_parser::nom::error::ErrorKind::Count))); break; }
                    }
                    continue;
                }
                if k == last {
                    out = match res {
                        Ok((rem2, msgs)) => Ok((5 + n - rem2.len().min(n), pj::msgs(&msgs))),
                        Err(NErr::Incomplete(nd)) => Err(NErr::Incomplete(nd)),
                        Err(NErr::Error(er)) => Err(NErr::Error(make_error(i, er.code))),
                        Err(NErr::Failure(er)) => Err(NErr::Failure(make_error(i, er.code))),
                    };
                }
            }
            let (pos, v) = out?;
            Ok((&i[pos.min(i.len())..], v))
        }, |v: &Value| v.clone()),
        // ---- messages
        "parse_tls_message_changecipherspec" => c!(i, parse_tls_message_changecipherspec, pj::msg),
        "parse_tls_message_alert" => c!(i, parse_tls_message_alert, pj::msg),
        "parse_tls_message_applicationdata" => c!(i, parse_tls_message_applicationdata, pj::msg),
        "parse_tls_message_heartbeat" => c!(i, move |i| parse_tls_message_heartbeat(i, len as u16), |v: &Vec<TlsMessage>| pj::msgs(v)),
        "parse_tls_message_handshake" => c!(i, parse_tls_message_handshake, pj::msg),
        // ---- handshake bodies
        "parse_tls_handshake_msg_hello_request" => c!(i, parse_tls_handshake_msg_hello_request, pj::hs),
        "parse_tls_handshake_client_hello" => c!(i, parse_tls_handshake_client_hello, pj::client_hello),
        "parse_tls_handshake_msg_client_hello" => c!(i, parse_tls_handshake_msg_client_hello, pj::hs),
        "parse_tls_handshake_server_hello" => c!(i, parse_tls_handshake_server_hello, pj::server_hello),
        "parse_tls_handshake_msg_server_hello" => c!(i, parse_tls_handshake_msg_server_hello, pj::hs),
        "parse_tls_handshake_msg_newsessionticket" => c!(i, move |i| parse_tls_handshake_msg_newsessionticket(i, len), pj::hs),
        "parse_tls_handshake_msg_hello_retry_request" => c!(i, parse_tls_handshake_msg_hello_retry_request, pj::hs),
        "parse_tls_handshake_msg_certificate" => c!(i, parse_tls_handshake_msg_certificate, pj::hs),
        "parse_tls_handshake_msg_serverkeyexchange" => c!(i, move |i| parse_tls_handshake_msg_serverkeyexchange(i, len), pj::hs),
        "parse_tls_handshake_msg_serverdone" => c!(i, move |i| parse_tls_handshake_msg_serverdone(i, len), pj::hs),
        "parse_tls_handshake_msg_certificateverify" => c!(i, move |i| parse_tls_handshake_msg_certificateverify(i, len), pj::hs),
        "parse_tls_handshake_msg_clientkeyexchange" => c!(i, move |i| parse_tls_handshake_msg_clientkeyexchange(i, len), pj::hs),
        "parse_tls_handshake_certificaterequest" => c!(i, parse_tls_handshake_certificaterequest, pj::cert_request),
        "parse_tls_handshake_msg_certificaterequest" => c!(i, parse_tls_handshake_msg_certificaterequest, pj::hs),
        "parse_tls_handshake_msg_finished" => c!(i, move |i| parse_tls_handshake_msg_finished(i, len), pj::hs),
        "parse_tls_handshake_certificatestatus" => c!(i, parse_tls_handshake_certificatestatus, pj::cert_status),
        "parse_tls_handshake_msg_certificatestatus" => c!(i, parse_tls_handshake_msg_certificatestatus, pj::hs),
        "parse_tls_handshake_next_protocol" => c!(i, parse_tls_handshake_next_protocol, pj::next_protocol),
        "parse_tls_handshake_msg_next_protocol" => c!(i, parse_tls_handshake_msg_next_protocol, pj::hs),
        "parse_tls_handshake_msg_key_update" => c!(i, parse_tls_handshake_msg_key_update, pj::hs),
        // ---- extensions
        "parse_tls_extension_sni_hostname" => c!(i, parse_tls_extension_sni_hostname, |v: &(SNIType, &[u8])| json!({"nt":v.0.0,"name":pj::sl(v.1)})),
        "parse_tls_extension_sni_content" => c!(i, parse_tls_extension_sni_content, pj::ext),
        "parse_tls_extension_sni" => c!(i, parse_tls_extension_sni, pj::ext),
        "parse_tls_extension_max_fragment_length_content" => c!(i, parse_tls_extension_max_fragment_length_content, pj::ext),
        "parse_tls_extension_max_fragment_length" => c!(i, parse_tls_extension_max_fragment_length, pj::ext),
        "parse_tls_extension_status_request" => c!(i, parse_tls_extension_status_request, pj::ext),
        "parse_tls_extension_elliptic_curves_content" => c!(i, parse_tls_extension_elliptic_curves_content, pj::ext),
        "parse_tls_extension_elliptic_curves" => c!(i, parse_tls_extension_elliptic_curves, pj::ext),
        "parse_tls_extension_ec_point_formats_content" => c!(i, parse_tls_extension_ec_point_formats_content, pj::ext),
        "parse_tls_extension_ec_point_formats" => c!(i, parse_tls_extension_ec_point_formats, pj::ext),
        "parse_tls_extension_signature_algorithms_content" => c!(i, parse_tls_extension_signature_algorithms_content, pj::ext),
        "parse_tls_extension_signature_algorithms" => c!(i, parse_tls_extension_signature_algorithms, pj::ext),
        "parse_tls_extension_heartbeat_content" => c!(i, parse_tls_extension_heartbeat_content, pj::ext),
        "parse_tls_extension_heartbeat" => c!(i, parse_tls_extension_heartbeat, pj::ext),
        "parse_tls_extension_alpn_content" => c!(i, parse_tls_extension_alpn_content, pj::ext),
        "parse_tls_extension_signed_certificate_timestamp_content" => c!(i, parse_tls_extension_signed_certificate_timestamp_content, pj::ext),
        "parse_tls_extension_encrypt_then_mac" => c!(i, parse_tls_extension_encrypt_then_mac, pj::ext),
        "parse_tls_extension_extended_master_secret" => c!(i, parse_tls_extension_extended_master_secret, pj::ext),
        "parse_tls_extension_session_ticket" => c!(i, parse_tls_extension_session_ticket, pj::ext),
        "parse_tls_extension_key_share" => c!(i, parse_tls_extension_key_share, pj::ext),
        "parse_tls_extension_pre_shared_key" => c!(i, parse_tls_extension_pre_shared_key, pj::ext),
        "parse_tls_extension_early_data" => c!(i, parse_tls_extension_early_data, pj::ext),
        "parse_tls_extension_supported_versions" => c!(i, parse_tls_extension_supported_versions, pj::ext),
        "parse_tls_extension_cookie" => c!(i, parse_tls_extension_cookie, pj::ext),
        "parse_tls_extension_psk_key_exchange_modes_content" => c!(i, parse_tls_extension_psk_key_exchange_modes_content, pj::ext),
        "parse_tls_extension_psk_key_exchange_modes" => c!(i, parse_tls_extension_psk_key_exchange_modes, pj::ext),
        "parse_tls_extension_renegotiation_info_content" => c!(i, parse_tls_extension_renegotiation_info_content, pj::ext),
        "parse_tls_extension_encrypted_server_name" => c!(i, parse_tls_extension_encrypted_server_name, pj::ext),
        "parse_tls_extension_unknown" => c!(i, parse_tls_extension_unknown, pj::ext),
        "parse_tls_client_hello_extension" => c!(i, parse_tls_client_hello_extension, pj::ext),
        "parse_tls_server_hello_extension" => c!(i, parse_tls_server_hello_extension, pj::ext),
        "parse_tls_extension" => c!(i, parse_tls_extension, pj::ext),
        "parse_tls_client_hello_extensions" => c!(i, parse_tls_client_hello_extensions, |v: &Vec<TlsExtension>| pj::exts(v)),
        "parse_tls_server_hello_extensions" => c!(i, parse_tls_server_hello_extensions, |v: &Vec<TlsExtension>| pj::exts(v)),
        "parse_tls_extensions" => c!(i, parse_tls_extensions, |v: &Vec<TlsExtension>| pj::exts(v)),
        // ---- key exchange / signatures
        "parse_dh_params" => c!(i, parse_dh_params, pj::dh),
        "parse_named_groups" => c!(i, parse_named_groups, |v: &Vec<NamedGroup>| Value::Array(v.iter().map(|g| json!(g.0)).collect())),
        "parse_ec_parameters" => c!(i, parse_ec_parameters, pj::ecparams),
        "ECParametersContent::parse" => { let ct = a.ct; c!(i, move |i| ECParametersContent::parse(i, ECCurveType(ct)), pj::eccontent) }
        "parse_ecdh_params" => c!(i, parse_ecdh_params, pj::ecdh),
        "ECPoint::parse" => c!(i, ECPoint::parse, pj::ecpoint),
        "parse_digitally_signed_old" => c!(i, parse_digitally_signed_old, pj::signed),
        "parse_digitally_signed" => c!(i, parse_digitally_signed, pj::signed),
        "parse_content_and_signature" => {
            let ext = a.ext;
            match a.sub.as_str() {
                "dh" => c!(i, move |i| parse_content_and_signature(i, parse_dh_params, ext),
                           |v: &(ServerDHParams, DigitallySigned)| json!({"content":pj::dh(&v.0),"sig":pj::signed(&v.1)})),
                "ecdh" => c!(i, move |i| parse_content_and_signature(i, parse_ecdh_params, ext),
                             |v: &(ServerECDHParams, DigitallySigned)| json!({"content":pj::ecdh(&v.0),"sig":pj::signed(&v.1)})),
                // a caller-supplied content parser that peeks at the byte after its value
                "peek" => c!(i, move |i| parse_content_and_signature(i, |i: &[u8]| {
                                 let (r, x) = tls_parser::nom::number::streaming::be_u8(i)?;
                                 let (_, nx) = tls_parser::nom::number::streaming::be_u8(r)?;
                                 Ok((r, (x, nx))) }, ext),
                             |v: &((u8, u8), DigitallySigned)| json!({"content":{"first":(v.0).0,"next":(v.0).1},"sig":pj::signed(&v.1)})),
                // a caller-supplied content parser that bounds itself to the message body (the first len bytes): its remainder lies inside the body,
                // and so does the signature; the final remainder is reported as a position of the input
                "bounded" => c!(i, move |i| {
                                 let (rem, v) = parse_content_and_signature(i, move |j: &[u8]| {
                                     let (_, body) = tls_parser::nom::bytes::streaming::take(len)(j)?;
                                     parse_ecdh_params(body) }, ext)?;
                                 let pos = (rem.as_ptr() as usize).wrapping_sub(i.as_ptr() as usize).min(i.len());
                                 Ok((&i[pos..], v)) },
                             |v: &(ServerECDHParams, DigitallySigned)| json!({"content":pj::ecdh(&v.0),"sig":pj::signed(&v.1)})),
                _ => c!(i, move |i| parse_content_and_signature(i, parse_ec_parameters, ext),
                        |v: &(ECParameters, DigitallySigned)| json!({"content":pj::ecparams(&v.0),"sig":pj::signed(&v.1)})),
            }
        }
        // ---- certificate transparency
        "parse_ct_signed_certificate_timestamp" => c!(i, parse_ct_signed_certificate_timestamp, pj::sct),
        "parse_ct_signed_certificate_timestamp_list" => c!(i, parse_ct_signed_certificate_timestamp_list,
            |v: &Vec<SignedCertificateTimestamp>| Value::Array(v.iter().map(pj::sct).collect())),
        // ---- DTLS
        "parse_dtls_record_header" => c!(i, parse_dtls_record_header, pj::dhdr),
        "parse_dtls_message_handshake" => c!(i, parse_dtls_message_handshake, pj::dmsg),
        "parse_dtls_message_changecipherspec" => c!(i, parse_dtls_message_changecipherspec, pj::dmsg),
        "parse_dtls_message_alert" => c!(i, parse_dtls_message_alert, pj::dmsg),
        "parse_dtls_record_with_header" => {
            let h = DTLSRecordHeader { content_type: TlsRecordType(a.ct), version: TlsVersion(a.ver), epoch: 0, sequence_number: 0, length: len as u16 };
            c!(i, move |i| parse_dtls_record_with_header(i, &h), |v: &Vec<DTLSMessage>| pj::dmsgs(v))
        }
        "parse_dtls_plaintext_record" => c!(i, parse_dtls_plaintext_record, pj::dplain),
        "parse_dtls_plaintext_records" => c!(i, parse_dtls_plaintext_records, |v: &Vec<DTLSPlaintext>| Value::Array(v.iter().map(pj::dplain).collect())),
        // ---- deep decoding, as an IDS composes the parsers
        "deep_client_hello" => c!(i, |i| {
            let (rem, m) = parse_tls_message_handshake(i)?;
            match m {
                TlsMessage::Handshake(TlsMessageHandshake::ClientHello(ch)) => {
                    let exts = match ch.ext { Some(e) => parse_tls_client_hello_extensions(e)?.1, None => Vec::new() };
                    Ok((rem, (ch, exts)))
                }
                _ => Err(tls_parser::nom::Err::Error(tls_parser::nom::error::make_error(i, tls_parser::nom::error::ErrorKind::Switch))),
            }
        }, |v: &(TlsClientHelloContents, Vec<TlsExtension>)| json!({"hello": pj::client_hello(&v.0), "exts": pj::exts(&v.1)})),
        "deep_server_key_exchange" => {
            let ext = a.ext;
            let ecdh = a.sub == "ecdh";
            c!(i, move |i| {
                let (rem, m) = parse_tls_message_handshake(i)?;
                match m {
                    TlsMessage::Handshake(TlsMessageHandshake::ServerKeyExchange(ske)) => {
                        if ecdh {
                            let (left, (p, s)) = parse_content_and_signature(ske.parameters, parse_ecdh_params, ext)?;
                            Ok((rem, json!({"params": {"content": pj::ecdh(&p), "sig": pj::signed(&s)}, "left": left.len()})))
                        } else {
                            let (left, (p, s)) = parse_content_and_signature(ske.parameters, parse_dh_params, ext)?;
                            Ok((rem, json!({"params": {"content": pj::dh(&p), "sig": pj::signed(&s)}, "left": left.len()})))
                        }
                    }
                    _ => Err(tls_parser::nom::Err::Error(tls_parser::nom::error::make_error(i, tls_parser::nom::error::ErrorKind::Switch))),
                }
            }, |v: &Value| v.clone())
        }
        // ---- small derived parsers
        "TlsMessageAlert::parse" => c!(i, TlsMessageAlert::parse, pj::alert),
        "u8" => c!(i, |i| tls_parser::nom::number::streaming::be_u8(i), num),
        _ => None,
    }
}
