//! TlsRecordsParser drivers: replay of TLC-generated paths (spec -> impl) and seeded random
//! operation sequences recorded for trace validation (impl -> spec).
use crate::fuzz::Rng;
use crate::observe::{alloc_begin, alloc_end, guarded, tick_begin, tick_end};
use crate::project as pj;
use serde_json::{json, Value};
use std::io::{BufRead, BufReader, BufWriter, Write};
use tls_parser::*;

pub struct Op {
    pub op: String,
    pub ct: u8,
    pub ver: u16,
    pub data: Vec<u8>,
    /// the `len` field of the record header handed to the parser (None: the length of `data`, what parse_tls_raw_record produces)
    pub hlen: Option<u16>,
}

pub fn op_of(v: &Value) -> Op {
    Op {
        op: v["op"].as_str().unwrap_or("").to_string(),
        ct: v["ct"].as_u64().unwrap_or(0) as u8,
        ver: v["ver"].as_u64().unwrap_or(0) as u16,
        data: crate::bytes_of(&v["data"]),
        hlen: v.get("hlen").and_then(|x| x.as_u64()).map(|x| x as u16),
    }
}

/// Apply one operation; returns {res (with src), inprog, buflen, alloc}
pub fn apply(p: &mut TlsRecordsParser, op: &Op) -> Value {
    if op.op == "reset" {
        p.reset();
        return json!({"res": {"k":"ok","p":0,"v":[],"n":0,"e":"","src":"none"}, "inprog": p.defrag_in_progress(),
                      "buflen": p.verif_defrag_buffer().len(), "alloc": 0, "fmt_panic": "", "rem_ok": true});
    }
    let rec = TlsRawRecord {
        hdr: TlsRecordHeader { record_type: TlsRecordType(op.ct), version: TlsVersion(op.ver), len: op.hlen.unwrap_or(op.data.len() as u16) },
        data: &op.data,
    };
    let was_inprog = p.defrag_in_progress();
    alloc_begin();
    tick_begin();
    // the result borrows the parser: project it (raw addresses), drop it, then classify the slices
    let r = guarded(|| {
        let nocopy = op.op == "nocopy";
        let r = if nocopy { p.parse_record_nocopy(rec) } else { p.parse_record(rec) };
        let alloc_in_call = alloc_end();   // the window is the crate call, not our projection
        let fmt_len = match &r { Ok((_, v)) => format!("{:?}", v).len(), Err(e) => format!("{:?}", e).len() };
        let _ = fmt_len;
        let (rem_addr, rem_len) = match &r { Ok((rem, _)) => (rem.as_ptr() as usize, rem.len()), _ => (0, 0) };
        // remainder length is relative to the region the result lives in; resolved below
        let dummy: &[u8] = &[];
        let (mut v, _) = match r {
            Ok((_, msgs)) => pj::res(dummy, Ok((dummy, msgs)), |m: &Vec<TlsMessage>| pj::msgs(m)),
            Err(e) => pj::res(dummy, Err::<(&[u8], Vec<TlsMessage>), _>(e), |m: &Vec<TlsMessage>| pj::msgs(m)),
        };
        v["rem_addr"] = json!(rem_addr as u64);
        v["rem_len"] = json!(rem_len as u64);
        v["alloc_in_call"] = json!(alloc_in_call as u64);
        v
    });
    tick_end();
    let mut alloc = alloc_end();
    let buf = p.verif_defrag_buffer();
    let (bb, bl) = (buf.as_ptr() as usize, buf.len());
    let (rb, rl) = (op.data.as_ptr() as usize, op.data.len());
    match r {
        Err(msg) => json!({"res": {"k":"panic","p":-1,"v":[],"n":0,"e":msg,"src":"none"}, "inprog": p.defrag_in_progress(),
                           "buflen": bl, "alloc": alloc, "fmt_panic": "", "rem_ok": true}),
        Ok(mut v) => {
            let mut st = pj::SliceStats::default();
            let rem_addr = v["rem_addr"].as_u64().unwrap() as usize;
            let rem_len = v["rem_len"].as_u64().unwrap() as usize;
            v.as_object_mut().unwrap().remove("rem_addr");
            v.as_object_mut().unwrap().remove("rem_len");
            alloc = v["alloc_in_call"].as_u64().unwrap() as usize;
            v.as_object_mut().unwrap().remove("alloc_in_call");
            pj::relativize(&mut v, rb, rl, Some((bb, bl)), &mut st);
            let mut rem_ok = true;
            let src = if st.foreign > 0 || (st.in_input > 0 && st.in_buf > 0) { "out" }
                      else if st.in_buf > 0 { "buf" } else if st.in_input > 0 { "rec" } else { "none" };
            if v["k"] == "ok" {
                // consumed = region length - remainder length.  A continuation parses the buffer,
                // everything else the caller's record; the remainder must be that region's tail.
                let in_buf_region = was_inprog && op.op == "parse_record";
                let (base, len) = if in_buf_region { (bb, bl) } else { (rb, rl) };
                if rem_len > 0 {
                    rem_ok = rem_addr >= base && rem_addr + rem_len == base + len;
                }
                v["p"] = json!(len as i64 - rem_len as i64);
            }
            v["src"] = json!(src);
            json!({"res": v, "inprog": p.defrag_in_progress(), "buflen": bl, "alloc": alloc, "fmt_panic": "", "rem_ok": rem_ok})
        }
    }
}

/// defrag <in.ndjson> <out.ndjson>: {id, prefix:[op], tests:[op], seq:bool}
pub fn cmd_defrag(args: &[String]) -> i32 {
    let inp = BufReader::new(std::fs::File::open(&args[0]).expect("open"));
    let mut out = BufWriter::new(std::fs::File::create(&args[1]).expect("create"));
    crate::observe::spawn_watchdog(format!("{}.timeout", args[1]), 5);
    let mut n = 0u64;
    for line in inp.lines() {
        let line = line.unwrap();
        if line.trim().is_empty() { continue; }
        let c: Value = serde_json::from_str(&line).expect("json");
        let prefix: Vec<Op> = c["prefix"].as_array().map(|a| a.iter().map(op_of).collect()).unwrap_or_default();
        let tests: Vec<Op> = c["tests"].as_array().map(|a| a.iter().map(op_of).collect()).unwrap_or_default();
        let seq = c["seq"].as_bool().unwrap_or(false);
        crate::observe::set_current(&format!("defrag {}", c["id"]));
        let mut results = Vec::new();
        if seq {
            let mut p = TlsRecordsParser::default();
            for o in prefix.iter().chain(tests.iter()) { results.push(apply(&mut p, o)); n += 1; }
        } else {
            for t in &tests {
                let mut p = TlsRecordsParser::default();
                let mut last = Value::Null;
                for o in &prefix { last = apply(&mut p, o); if last["res"]["k"] == "panic" { break; } }
                if last.is_object() && last["res"]["k"] == "panic" { results.push(last); continue; }
                results.push(apply(&mut p, t));
                n += 1;
            }
        }
        // a TlsRawRecord is (header, data) and the defragmenter works on the DATA: the same history with other values in the header's
        // length field (0, 65535; heartbeat records excepted - their one-shot parser reads that field) gives the same answers
        let mut hlen_diff = Value::Null;
        if seq && !results.iter().any(|x| x["res"]["k"] == "panic") {
            'variants: for h in [0u16, 65535] {
                let mut p = TlsRecordsParser::default();
                for (k, o) in prefix.iter().chain(tests.iter()).enumerate() {
                    let o2 = Op { op: o.op.clone(), ct: o.ct, ver: o.ver, data: o.data.clone(), hlen: if o.ct == 24 { o.hlen } else { Some(h) } };
                    let x = apply(&mut p, &o2);
                    let same = x["res"]["k"] == results[k]["res"]["k"] && x["res"]["e"] == results[k]["res"]["e"] && x["res"]["p"] == results[k]["res"]["p"]
                        && x["res"]["v"] == results[k]["res"]["v"] && x["inprog"] == results[k]["inprog"] && x["buflen"] == results[k]["buflen"];
                    if !same {
                        hlen_diff = json!({"header_len": h, "step": k, "with_data_len": results[k]["res"], "with_other_len": x["res"], "inprog": x["inprog"]});
                        break 'variants;
                    }
                }
            }
        }
        if hlen_diff.is_null() { writeln!(out, "{}", json!({"id": c["id"], "results": results})).unwrap(); }
        else { writeln!(out, "{}", json!({"id": c["id"], "results": results, "hlen_diff": hlen_diff})).unwrap(); }
    }
    out.flush().unwrap();
    eprintln!("defrag: {} steps", n);
    0
}

fn op_json(o: &Op) -> Value {
    json!({"op": o.op, "ct": o.ct, "ver": o.ver, "data": [{"lit": o.data, "fill": [0,0,0]}]})
}

/// defrag-fuzz <seed> <runs> <maxops> <out.ndjson> [payloads.ndjson]: seeded random operation
/// sequences over fragments of valid payloads, interleaved with reset / nocopy / foreign types.
pub fn cmd_defrag_fuzz(args: &[String]) -> i32 {
    let seed: u64 = args[0].parse().unwrap_or(1);
    let runs: usize = args[1].parse().unwrap_or(100);
    let maxops: usize = args[2].parse().unwrap_or(20);
    let mut out = BufWriter::new(std::fs::File::create(&args[3]).expect("create"));
    crate::observe::spawn_watchdog(format!("{}.timeout", args[3]), 5);
    // payload pool: (ct, bytes)
    let mut pool: Vec<(u8, Vec<u8>)> = vec![
        (22, vec![20, 0, 0, 2, 170, 187]), (22, vec![0, 0, 0, 0, 14, 0, 0, 0]), (24, vec![1, 0, 2, 7, 8, 0, 0]),
        (23, vec![9, 9]), (21, vec![1, 0]), (20, vec![1]), (22, vec![99, 0, 0, 0]), (24, vec![2, 0, 0]),
        // first fragments declaring far more than they carry (u24 / u16 maxima)
        (22, vec![11, 255, 255, 255, 0]), (22, vec![1, 255, 255, 255, 3, 3]), (24, vec![1, 255, 255, 0]), (22, vec![20, 0, 255, 255]),
    ];
    if args.len() > 4 {
        if let Ok(f) = std::fs::File::open(&args[4]) {
            for line in BufReader::new(f).lines() {
                if let Ok(c) = serde_json::from_str::<Value>(&line.unwrap()) {
                    let b = crate::bytes_of(&c["data"]);
                    if b.len() <= 600 { pool.push((c["ct"].as_u64().unwrap_or(22) as u8, b)); }
                }
            }
        }
    }
    let mut r = Rng::new(seed);
    let mut steps = 0u64;
    for run in 0..runs {
        let mut p = TlsRecordsParser::default();
        let mut ops = Vec::new();
        let mut results = Vec::new();
        let nops = 1 + r.below(maxops);
        let mut pending: Vec<(u8, Vec<u8>)> = Vec::new(); // remaining fragments of the current payload
        while ops.len() < nops {
            let o = if !pending.is_empty() && r.chance(7, 10) {
                let (ct, d) = pending.remove(0);
                Op { op: "parse_record".into(), ct, ver: 0x0303, data: d, hlen: None }
            } else {
                match r.below(12) {
                    0 => Op { op: "reset".into(), ct: 0, ver: 0, data: vec![], hlen: None },
                    1 => { let (ct, d) = pool[r.below(pool.len())].clone(); Op { op: "nocopy".into(), ct, ver: 0x0301, data: d, hlen: None } }
                    2 => Op { op: "parse_record".into(), ct: [20u8, 21, 23, 24, 99][r.below(5)], ver: 0x0303, data: crate::fuzz::random_bytes(&mut r, 6), hlen: None },
                    3 => Op { op: "parse_record".into(), ct: [22u8, 24][r.below(2)], ver: 0x0303, data: vec![], hlen: None },
                    _ => {
                        // split a payload into 1..4 fragments at random cut points
                        let (ct, d) = pool[r.below(pool.len())].clone();
                        let k = 1 + r.below(4);
                        let mut cuts: Vec<usize> = (0..k - 1).map(|_| r.below(d.len() + 1)).collect();
                        cuts.sort();
                        let mut prev = 0;
                        pending.clear();
                        for c in cuts { pending.push((ct, d[prev..c].to_vec())); prev = c; }
                        pending.push((ct, d[prev..].to_vec()));
                        let (ct, d0) = pending.remove(0);
                        Op { op: "parse_record".into(), ct, ver: 0x0303, data: d0, hlen: None }
                    }
                }
            };
            crate::observe::set_current(&format!("defrag-fuzz run {} op {}", run, ops.len()));
            let res = apply(&mut p, &o);
            let stop = res["res"]["k"] == "panic";
            results.push(res);
            ops.push(op_json(&o));
            steps += 1;
            if stop { break; }
        }
        writeln!(out, "{}", json!({"id": format!("run{}", run), "ops": ops, "results": results})).unwrap();
    }
    out.flush().unwrap();
    eprintln!("defrag-fuzz: {} runs, {} steps", runs, steps);
    0
}

/// defrag-pause <ms> <out.ndjson>: a message in two records with a pause of <ms> of wall-clock time between the two calls (and a second
/// parser fed the same records back to back): what a parser answers does not depend on when it is asked
pub fn cmd_defrag_pause(args: &[String]) -> i32 {
    let ms: u64 = args[0].parse().unwrap_or(0);
    let mut out = BufWriter::new(std::fs::File::create(&args[1]).expect("create"));
    let first: [u8; 7] = [20, 0, 0, 8, 1, 2, 3];
    let second: [u8; 5] = [4, 5, 6, 7, 8];
    let raw = |d: &'static [u8]| TlsRawRecord { hdr: TlsRecordHeader { record_type: TlsRecordType(22), version: TlsVersion(0x0303), len: d.len() as u16 }, data: d };
    static FIRST: [u8; 7] = [20, 0, 0, 8, 1, 2, 3];
    static SECOND: [u8; 5] = [4, 5, 6, 7, 8];
    let _ = (first, second);
    for (label, pause) in [("back_to_back", 0u64), ("paused", ms)] {
        let mut p = TlsRecordsParser::default();
        let r1 = match p.parse_record(raw(&FIRST)) { Ok((_, m)) => format!("ok:{}", m.len()), Err(tls_parser::nom::Err::Incomplete(_)) => "inc".to_string(), Err(e) => format!("err:{:?}", e) };
        let in1 = p.defrag_in_progress();
        std::thread::sleep(std::time::Duration::from_millis(pause));
        let in1b = p.defrag_in_progress();
        let r2 = match p.parse_record(raw(&SECOND)) { Ok((rem, m)) => format!("ok:{}:{}:{:?}", m.len(), rem.len(), m), Err(tls_parser::nom::Err::Incomplete(_)) => "inc".to_string(), Err(e) => format!("err:{:?}", e) };
        writeln!(out, "{}", json!({"run": label, "first": r1, "in_progress_after_first": in1, "in_progress_after_pause": in1b, "second": r2, "in_progress_after_second": p.defrag_in_progress()})).unwrap();
    }
    out.flush().unwrap();
    0
}

/// defrag-hold <n> <out.ndjson>: what a parser HOLDS after very many records of one defragmentation (n empty continuation records; n one-byte
/// continuation records of a message declared 2^24 - 1 bytes long): the bytes held since the parser was created, next to the buffer length
pub fn cmd_defrag_hold(args: &[String]) -> i32 {
    let n: usize = args[0].parse().unwrap_or(100000);
    let mut out = BufWriter::new(std::fs::File::create(&args[1]).expect("create"));
    static FIRST_SMALL: [u8; 4] = [20, 0, 0, 200];
    static FIRST_HUGE: [u8; 4] = [11, 255, 255, 255];
    static EMPTY: [u8; 0] = [];
    static ONE: [u8; 1] = [7];
    for (label, first, cont) in [("empty_continuations", &FIRST_SMALL[..], &EMPTY[..]), ("one_byte_continuations", &FIRST_HUGE[..], &ONE[..])] {
        crate::observe::alloc_begin();
        let mut p = TlsRecordsParser::default();
        let mk = |d: &'static [u8]| TlsRawRecord { hdr: TlsRecordHeader { record_type: TlsRecordType(22), version: TlsVersion(0x0303), len: d.len() as u16 }, data: d };
        let r0 = crate::observe::guarded(|| p.parse_record(mk(first)).map(|_| ()).is_err());
        let mut panicked = r0.is_err();
        let mut not_incomplete = 0u64;
        for _ in 0..n {
            if panicked { break; }
            match crate::observe::guarded(|| matches!(p.parse_record(mk(cont)), Err(tls_parser::nom::Err::Incomplete(_)))) {
                Ok(true) => {}
                Ok(false) => not_incomplete += 1,
                Err(_) => panicked = true,
            }
        }
        let held = crate::observe::alloc_live();
        let buflen = p.verif_defrag_buffer().len();
        let inprog = p.defrag_in_progress();
        drop(p);
        let _ = crate::observe::alloc_end();
        writeln!(out, "{}", json!({"run": label, "records": n, "held": held, "buflen": buflen, "inprog": inprog, "panicked": panicked, "not_incomplete": not_incomplete})).unwrap();
    }
    out.flush().unwrap();
    0
}

/// defrag-stream <out.ndjson>: one real-size stream.  A handshake header declaring 2^24-1 bytes,
/// then 16640-byte records until the 10 MiB limit refuses, then the exact boundary, a foreign type,
/// a nocopy call; one compact event per call for the length-only trace specification.
pub fn cmd_defrag_stream(args: &[String]) -> i32 {
    let mut out = BufWriter::new(std::fs::File::create(&args[0]).expect("create"));
    crate::observe::spawn_watchdog(format!("{}.timeout", args[0]), 20);
    let mut p = TlsRecordsParser::default();
    let mut n = 0;
    let mut emit = |p: &mut TlsRecordsParser, op: &str, ct: u8, data: Vec<u8>, out: &mut BufWriter<std::fs::File>| -> String {
        let o = Op { op: op.to_string(), ct, ver: 0x0303, data, hlen: None };
        let r = apply(p, &o);
        let k = r["res"]["k"].as_str().unwrap_or("").to_string();
        // decl: the total size (header included) the record's first handshake message declares, when the record starts with a header
        let decl = if ct == 22 && o.data.len() >= 4 { 4 + ((o.data[1] as u64) << 16 | (o.data[2] as u64) << 8 | o.data[3] as u64) } else { 0 };
        writeln!(out, "{}", json!({"op": op, "ct": ct, "len": o.data.len(), "decl": decl, "k": k, "e": r["res"]["e"], "n": r["res"]["n"],
                                   "inprog": r["inprog"], "buflen": r["buflen"], "alloc": r["alloc"]})).unwrap();
        k
    };
    let mut first = vec![1u8, 0xff, 0xff, 0xff];
    first.extend((0..16636u32).map(|i| (i * 7 % 256) as u8));
    emit(&mut p, "parse_record", 22, first, &mut out);
    let chunk: Vec<u8> = (0..16640u32).map(|i| (i * 7 % 256) as u8).collect();
    loop {
        n += 1;
        let k = emit(&mut p, "parse_record", 22, chunk.clone(), &mut out);
        if k != "inc" || n > 700 { break; }
    }
    // a record of ANOTHER type, as large as the one just refused for size: still refused for its type
    emit(&mut p, "parse_record", 23, chunk.clone(), &mut out);
    emit(&mut p, "parse_record", 21, vec![1u8; 16640], &mut out);
    // fill up to one byte below the limit, then the byte that would reach it
    let room = MAX_RECORD_DATA - 1 - p.verif_defrag_buffer().len();
    emit(&mut p, "parse_record", 22, vec![7u8; room.min(16640)], &mut out);
    emit(&mut p, "parse_record", 22, vec![7u8; 1], &mut out);
    emit(&mut p, "parse_record", 22, vec![], &mut out);
    emit(&mut p, "parse_record", 24, vec![1, 0, 0], &mut out);
    emit(&mut p, "nocopy", 22, vec![0, 0, 0, 0], &mut out);
    emit(&mut p, "parse_record", 22, chunk.clone(), &mut out);
    emit(&mut p, "reset", 0, vec![], &mut out);
    emit(&mut p, "parse_record", 22, vec![0, 0, 0, 0], &mut out);
    // a message that COMPLETES just below the limit (10 470 004 bytes in 16 KiB records), then, on the same parser, a message in two
    // fragments: after a completion the parser is fresh, whatever the size of what it has just delivered
    let total: usize = 10_470_004;
    let body = total - 4;
    let mut first = vec![20u8, (body >> 16) as u8, (body >> 8) as u8, body as u8];
    first.extend((0..16380u32).map(|i| (i * 5 % 256) as u8));
    let mut sent = first.len();
    emit(&mut p, "parse_record", 22, first, &mut out);
    while sent < total {
        let n = 16384.min(total - sent);
        emit(&mut p, "parse_record", 22, vec![3u8; n], &mut out);
        sent += n;
    }
    // (full-size first fragment: previous buffer length + this record would pass the limit if the stale length were counted)
    let mut f1 = vec![16u8, 0, 0x80, 0x00];
    f1.extend((0..16380u32).map(|i| (i * 3 % 256) as u8));
    emit(&mut p, "parse_record", 22, f1, &mut out);
    emit(&mut p, "parse_record", 22, vec![9u8; 16384], &mut out);
    emit(&mut p, "parse_record", 22, vec![8u8; 4], &mut out);
    emit(&mut p, "parse_record", 22, vec![16, 0, 0, 6, 1, 2], &mut out);
    emit(&mut p, "parse_record", 22, vec![3, 4, 5, 6], &mut out);
    emit(&mut p, "parse_record", 22, vec![14, 0, 0, 0], &mut out);
    // a very long run of tiny continuation records (70 000 one-byte records) of a message that stays incomplete, then an empty one
    emit(&mut p, "reset", 0, vec![], &mut out);
    emit(&mut p, "parse_record", 22, vec![11, 0xff, 0xff, 0xff, 0], &mut out);
    for i in 0..70_000u32 { emit(&mut p, "parse_record", 22, vec![(i % 251) as u8], &mut out); }
    emit(&mut p, "parse_record", 22, vec![], &mut out);
    emit(&mut p, "parse_record", 20, vec![1], &mut out);
    out.flush().unwrap();
    0
}
