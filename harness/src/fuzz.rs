//! Seeded drivers producing executions the model did not choose (impl -> spec direction):
//! random and structurally mutated inputs for every entry point, recorded with the observed
//! result so that TLC can judge them against the specification.
use crate::calls::{self, Args};
use serde_json::{json, Value};
use std::collections::HashMap;
use std::io::{BufRead, BufReader, BufWriter, Write};

pub struct Rng(pub u64);
impl Rng {
    pub fn new(seed: u64) -> Rng {
        Rng(seed.wrapping_mul(0x9E3779B97F4A7C15) ^ 0xD1B54A32D192ED03)
    }
    pub fn next(&mut self) -> u64 {
        // splitmix64
        self.0 = self.0.wrapping_add(0x9E3779B97F4A7C15);
        let mut z = self.0;
        z = (z ^ (z >> 30)).wrapping_mul(0xBF58476D1CE4E5B9);
        z = (z ^ (z >> 27)).wrapping_mul(0x94D049BB133111EB);
        z ^ (z >> 31)
    }
    pub fn below(&mut self, n: usize) -> usize {
        if n == 0 { 0 } else { (self.next() % n as u64) as usize }
    }
    pub fn chance(&mut self, num: u64, den: u64) -> bool {
        self.next() % den < num
    }
}

const ALPHABET: &[u8] = &[0, 1, 2, 3, 4, 5, 10, 11, 13, 14, 16, 20, 21, 22, 23, 24, 32, 33, 43, 51, 127, 254, 255];

fn rbyte(r: &mut Rng) -> u8 {
    if r.chance(3, 4) { ALPHABET[r.below(ALPHABET.len())] } else { r.next() as u8 }
}

pub fn random_bytes(r: &mut Rng, max: usize) -> Vec<u8> {
    let n = r.below(max + 1);
    (0..n).map(|_| rbyte(r)).collect()
}

pub fn mutate(r: &mut Rng, base: &[u8], other: &[u8]) -> Vec<u8> {
    let mut v = base.to_vec();
    let k = 1 + r.below(3);
    for _ in 0..k {
        match r.below(8) {
            0 if !v.is_empty() => { let i = r.below(v.len()); v[i] = rbyte(r); }
            1 if !v.is_empty() => { let i = r.below(v.len()); v[i] = v[i].wrapping_add(1); }
            2 if !v.is_empty() => { let i = r.below(v.len()); v[i] = v[i].wrapping_sub(1); }
            3 => { let n = r.below(v.len() + 1); v.truncate(n); }
            4 => { let n = r.below(6); for _ in 0..n { v.push(rbyte(r)); } }
            5 => { let i = r.below(v.len() + 1); let tail: Vec<u8> = other.iter().take(r.below(other.len() + 1)).cloned().collect(); v.splice(i..i, tail); }
            6 if v.len() >= 2 => { let i = r.below(v.len() - 1); let x = [0u16, 1, 2, 255, 256, 16640, 16641, 65535][r.below(8)]; v[i] = (x >> 8) as u8; v[i + 1] = x as u8; }
            7 if !v.is_empty() => { let i = r.below(v.len()); v.remove(i); }
            _ => {}
        }
    }
    if v.len() > 4096 { v.truncate(4096); }
    v
}

fn random_args(r: &mut Rng, name: &str, inlen: usize, base: Option<&Args>) -> Args {
    let mut a = base.cloned().unwrap_or_default();
    if base.is_none() || r.chance(1, 4) {
        a.len = match r.below(5) { 0 => inlen, 1 => inlen.saturating_sub(1), 2 => inlen + 1, 3 => r.below(9), _ => [0usize, 3, 4, 255, 65535][r.below(5)] };
        a.ext = r.chance(1, 2);
        a.ct = [20u8, 21, 22, 23, 24, 0, 25][r.below(7)];
        a.ver = [0x0301u16, 0x0303, 0xfefd][r.below(3)];
        a.sub = ["dh", "ecdh", "ec"][r.below(3)].to_string();
    }
    let _ = name;
    a
}

pub fn args_json(a: &Args) -> Value {
    json!({"len": a.len, "ext": if a.ext {1} else {0}, "ct": a.ct, "ver": a.ver, "sub": a.sub})
}

/// fuzz <seed> <per_fn> <out.ndjson> [corpus.ndjson]
pub fn cmd_fuzz(args: &[String]) -> i32 {
    let seed: u64 = args[0].parse().unwrap_or(1);
    let per_fn: usize = args[1].parse().unwrap_or(100);
    let mut out = BufWriter::new(std::fs::File::create(&args[2]).expect("create out"));
    crate::observe::spawn_watchdog(format!("{}.timeout", args[2]), 5);
    // corpus: fn -> [(args, bytes)]
    let mut corpus: HashMap<String, Vec<(Args, Vec<u8>)>> = HashMap::new();
    let mut all: Vec<Vec<u8>> = Vec::new();
    if args.len() > 3 {
        if let Ok(f) = std::fs::File::open(&args[3]) {
            for line in BufReader::new(f).lines() {
                let line = line.unwrap();
                if let Ok(c) = serde_json::from_str::<Value>(&line) {
                    let b = crate::bytes_of(&c["input"]);
                    if b.len() > 2048 { continue; }
                    let name = c["fn"].as_str().unwrap_or("").to_string();
                    all.push(b.clone());
                    corpus.entry(name).or_default().push((Args::from_json(c.get("a")), b));
                }
            }
        }
    }
    let only: Option<Vec<String>> = std::env::var("VERIF_FNS").ok().map(|s| s.split(',').map(|x| x.to_string()).collect());
    let mut r = Rng::new(seed);
    let mut n = 0u64;
    for name in calls::ALL_FNS {
        if let Some(o) = &only { if !o.iter().any(|x| x == name) { continue; } }
        for k in 0..per_fn {
            let (a, input) = match corpus.get(*name) {
                Some(list) if !list.is_empty() && k % 4 != 0 => {
                    let (ba, bb) = &list[r.below(list.len())];
                    let other = if all.is_empty() { Vec::new() } else { all[r.below(all.len())].clone() };
                    let m = mutate(&mut r, bb, &other);
                    let a = random_args(&mut r, name, m.len(), Some(ba));
                    (a, m)
                }
                _ => {
                    let b = if !all.is_empty() && k % 2 == 1 { let o = all[r.below(all.len())].clone(); mutate(&mut r, &o, &[]) } else { random_bytes(&mut r, 24) };
                    let a = random_args(&mut r, name, b.len(), None);
                    (a, b)
                }
            };
            let id = format!("{}#{}", name, k);
            crate::observe::set_current(&id);
            if let Some(o) = calls::call(name, &a, &input) {
                let line = json!({"id": id, "fn": name, "a": args_json(&a), "input": [{"lit": input, "fill": [0,0,0]}],
                                  "res": o.res, "rem_ok": o.rem_ok, "alloc": o.alloc, "len": input.len(),
                                  "fmt_panic": o.fmt_panic.clone().unwrap_or_default(), "foreign": o.stats.foreign, "max_end": o.stats.max_end});
                writeln!(out, "{}", line).unwrap();
                n += 1;
            }
        }
    }
    out.flush().unwrap();
    eprintln!("fuzz: {} events", n);
    0
}

fn robust_reason(o: &calls::Out, len: usize) -> Option<&'static str> {
    let k = o.res["k"].as_str().unwrap_or("");
    if !matches!(k, "ok" | "inc" | "err" | "fail") { return Some("OutcomeClass"); }
    if o.fmt_panic.is_some() { return Some("FormatReturns"); }
    if o.alloc > 1024 * len + 65536 { return Some("AllocBound"); }
    if !o.rem_ok { return Some("RemainderIsSuffix"); }
    if k == "ok" {
        let p = o.res["p"].as_i64().unwrap_or(-1);
        if p < 0 || p as usize > len { return Some("RemainderIsSuffix"); }
        if o.stats.max_end > p { return Some("SlicesInsideConsumed"); }
    }
    if o.stats.foreign > 0 { return Some("NoForeignSlice"); }
    None
}

fn event(id: &str, name: &str, a: &Args, input: &[u8], o: &calls::Out) -> Value {
    json!({"id": id, "fn": name, "a": args_json(a), "input": [{"lit": input, "fill": [0,0,0]}],
           "res": o.res, "rem_ok": o.rem_ok, "alloc": o.alloc, "len": input.len(),
           "fmt_panic": o.fmt_panic.clone().unwrap_or_default(), "foreign": o.stats.foreign, "max_end": o.stats.max_end})
}

/// value-level mutation of a VALID encoding: most mutations leave the structure alone and move one field to an
/// arbitrary value (what boundary sets never reach); the rest hit a length field and make the input malformed
pub fn mutate_values(r: &mut Rng, base: &[u8], other: &[u8]) -> Vec<u8> {
    let mut v = base.to_vec();
    if v.is_empty() { return mutate(r, base, other); }
    match r.below(20) {
        0..=8 => { let i = r.below(v.len()); v[i] = r.next() as u8; }
        9..=11 => { let i = r.below(v.len()); v[i] = r.next() as u8; if i + 1 < v.len() { v[i + 1] = r.next() as u8; } }
        12 => { let i = r.below(v.len()); v[i] = v[i].wrapping_add(1); }
        13 => { let i = r.below(v.len()); v[i] = v[i].wrapping_sub(1); }
        14 => { let i = r.below(v.len()); v[i] ^= 1 << r.below(8); }
        15 => { let n = 1 + r.below(4); for _ in 0..n { let i = r.below(v.len()); v[i] = r.next() as u8; } }
        16 => { let i = r.below(v.len()); let n = (1 + r.below(8)).min(v.len() - i); for j in 0..n { v[i + j] = r.next() as u8; } }
        17 => { let n = 1 + r.below(5); for _ in 0..n { v.push(r.next() as u8); } }
        _ => { return mutate(r, base, other); }
    }
    v
}

/// dfuzz <seed> <n> <corpus.ndjson> <out.ndjson>: n value-level mutations of the corpus' (accepted) inputs, each through the
/// entry point and arguments of its base; every event is recorded in full for TLC to compare with the specification's answer
pub fn cmd_dfuzz(args: &[String]) -> i32 {
    let seed: u64 = args[0].parse().unwrap_or(1);
    let n: usize = args[1].parse().unwrap_or(100);
    let mut out = BufWriter::new(std::fs::File::create(&args[3]).expect("create out"));
    crate::observe::spawn_watchdog(format!("{}.timeout", args[3]), 5);
    let mut corpus: Vec<(String, Args, Vec<u8>)> = Vec::new();
    for line in BufReader::new(std::fs::File::open(&args[2]).expect("open corpus")).lines() {
        if let Ok(c) = serde_json::from_str::<Value>(&line.unwrap()) {
            let b = crate::bytes_of(&c["input"]);
            if b.len() > 1200 { continue; }
            corpus.push((c["fn"].as_str().unwrap_or("").to_string(), Args::from_json(c.get("a")), b));
        }
    }
    if corpus.is_empty() { eprintln!("dfuzz: empty corpus"); return 2; }
    let mut r = Rng::new(seed ^ 0x5bd1e995);
    let mut done = 0u64;
    for k in 0..n {
        let (name, a, b) = &corpus[r.below(corpus.len())];
        let other = corpus[r.below(corpus.len())].2.clone();
        let m = mutate_values(&mut r, b, &other);
        let id = format!("d:{}#{}", name, k);
        crate::observe::set_current(&id);
        if let Some(o) = calls::call(name, a, &m) {
            writeln!(out, "{}", event(&id, name, a, &m, &o)).unwrap();
            done += 1;
        }
    }
    out.flush().unwrap();
    eprintln!("dfuzz: {} events", done);
    0
}

/// lensweep-robust <sites.ndjson> <out.ndjson> <dense_max>: every site of MC_LenSweep (an entry point and a skeleton whose tied
/// length fields are all set from one L) at EVERY L up to dense_max and at every multiple of 96 and 128 beyond, in-process, under the
/// observation invariants (no panic, formatting returns, heap bound, remainder is a suffix, slices inside the consumed region)
pub fn cmd_lensweep_robust(args: &[String]) -> i32 {
    let sites: Vec<Value> = BufReader::new(std::fs::File::open(&args[0]).expect("open")).lines()
        .filter_map(|l| serde_json::from_str::<Value>(&l.unwrap()).ok()).collect();
    let mut out = BufWriter::new(std::fs::File::create(&args[1]).expect("create"));
    let dense: usize = args.get(2).and_then(|x| x.parse().ok()).unwrap_or(2304);
    let nthreads = std::thread::available_parallelism().map(|n| n.get()).unwrap_or(4).min(12);
    let results: Vec<(Vec<Value>, u64)> = std::thread::scope(|sc| {
        let hs: Vec<_> = (0..nthreads).map(|t| { let sites = &sites; sc.spawn(move || {
            let mut lines = Vec::new();
            let mut n = 0u64;
            for (k, s) in sites.iter().enumerate() {
                if k % nthreads != t { continue; }
                let name = s["fn"].as_str().unwrap_or("");
                let a0 = Args::from_json(s.get("a"));
                let alen = s["alen"].as_i64().unwrap_or(-1);
                let lit: Vec<u8> = crate::nums(&s["lit"]);
                let tail: Vec<u8> = crate::nums(&s["tail"]);
                let fields: Vec<(usize, usize, usize)> = s["fields"].as_array().map(|v| v.iter().map(|f| (f[0].as_u64().unwrap() as usize, f[1].as_u64().unwrap() as usize, f[2].as_u64().unwrap() as usize)).collect()).unwrap_or_default();
                let fixed = s["fixed"].as_u64().unwrap_or(0) as usize;
                let (lmin, lmax) = (s["lmin"].as_u64().unwrap_or(0) as usize, s["lmax"].as_u64().unwrap_or(0) as usize);
                let mut offenders = 0;
                let mut classes: HashMap<String, u64> = HashMap::new();
                for l in lmin..=lmax {
                    if l > dense && l % 96 != 0 && l % 128 != 0 && l != lmax { continue; }
                    let mut input = lit.clone();
                    for (pos, w, d) in &fields {
                        let x = l - d;
                        for j in 0..*w { input[pos - 1 + j] = (x >> (8 * (w - 1 - j))) as u8; }
                    }
                    let nfill = l - fixed;
                    input.extend((0..nfill).map(|j| (93 + j * 7) as u8));
                    input.extend_from_slice(&tail);
                    let mut a = a0.clone();
                    if alen >= 0 { a.len = l - alen as usize; }
                    if let Some(o) = calls::call(name, &a, &input) {
                        n += 1;
                        *classes.entry(o.res["k"].as_str().unwrap_or("").to_string()).or_insert(0) += 1;
                        if let Some(bad) = robust_reason(&o, input.len()) {
                            offenders += 1;
                            if offenders <= 3 {
                                let mut e = event(&format!("ls:{}:{}:{}", k + 1, name, l), name, &a, &input, &o);
                                e["kind"] = json!("offender"); e["broken"] = json!(bad); e["site"] = json!(k + 1); e["L"] = json!(l);
                                lines.push(e);
                            }
                        }
                    }
                }
                lines.push(json!({"kind": "summary", "site": k + 1, "fn": name, "classes": classes, "offenders": offenders}));
            }
            (lines, n)
        })}).collect();
        hs.into_iter().map(|h| h.join().unwrap()).collect()
    });
    let mut total = 0;
    for (lines, n) in results { total += n; for l in lines { writeln!(out, "{}", l).unwrap(); } }
    out.flush().unwrap();
    eprintln!("lensweep-robust: {} calls", total);
    0
}

fn arg_variants(name: &str) -> Vec<Args> {
    let base = Args { len: 0, ext: false, ct: 22, ver: 0x0303, sub: "dh".into() };
    let mut v = vec![];
    let uses_len = name.ends_with("newsessionticket") || name.ends_with("serverkeyexchange") || name.ends_with("serverdone")
        || name.ends_with("certificateverify") || name.ends_with("clientkeyexchange") || name.ends_with("msg_finished") || name.ends_with("message_heartbeat");
    if uses_len { for l in [0usize, 1, 2, 3, 4, 5, 255] { v.push(Args { len: l, ..base.clone() }); } }
    else if name.ends_with("record_with_header") { for ct in [20u8, 21, 22, 23, 24, 0] { for l in [0usize, 2, 3] { v.push(Args { ct, len: l, ..base.clone() }); } } }
    else if name == "parse_content_and_signature" { for s in ["dh", "ecdh", "ec"] { for e in [false, true] { v.push(Args { sub: s.into(), ext: e, ..base.clone() }); } } }
    else { v.push(base); }
    v
}

/// exhaust2 <out.ndjson> [maxlen]: ALL inputs of length 0..=2 over all 256 byte values, for every entry point
/// and its argument variants; the observation invariants are evaluated in-process on every call, offenders
/// and one sample per (function, outcome) are written out as full events.
pub fn cmd_exhaust2(args: &[String]) -> i32 {
    let mut out = BufWriter::new(std::fs::File::create(&args[0]).expect("create"));
    let fns: Vec<&str> = calls::ALL_FNS.iter().copied().chain(["two_step", "TlsMessageAlert::parse"]).collect();
    let nthreads = std::thread::available_parallelism().map(|n| n.get()).unwrap_or(4).min(12);
    let chunks: Vec<Vec<&str>> = (0..nthreads).map(|t| fns.iter().copied().skip(t).step_by(nthreads).collect()).collect();
    let results: Vec<(Vec<Value>, u64)> = std::thread::scope(|s| {
        let hs: Vec<_> = chunks.iter().map(|mine| s.spawn(move || {
            let mut lines: Vec<Value> = Vec::new();
            let mut calls_n = 0u64;
            for name in mine {
                for a in arg_variants(name) {
                    let mut classes: HashMap<String, u64> = HashMap::new();
                    let mut offenders = 0;
                    let mut buf = [0u8; 2];
                    for n in 0..=65792u32 {
                        let input: &[u8] = if n == 0 { &buf[..0] } else if n <= 256 { buf[0] = (n - 1) as u8; &buf[..1] }
                                           else { let x = n - 257; buf[0] = (x >> 8) as u8; buf[1] = x as u8; &buf[..2] };
                        let input = input.to_vec();
                        if let Some(o) = calls::call(name, &a, &input) {
                            calls_n += 1;
                            let k = o.res["k"].as_str().unwrap_or("").to_string();
                            let cls = if k == "err" || k == "fail" { format!("{}:{}", k, o.res["e"].as_str().unwrap_or("")) } else { k };
                            let first = !classes.contains_key(&cls);
                            *classes.entry(cls.clone()).or_insert(0) += 1;
                            let bad = robust_reason(&o, input.len());
                            if bad.is_some() { offenders += 1; }
                            if (bad.is_some() && offenders <= 5) || first {
                                let mut e = event(&format!("x2:{}:{}:{}", name, a.len, n), name, &a, &input, &o);
                                e["kind"] = json!(if bad.is_some() { "offender" } else { "sample" });
                                e["broken"] = json!(bad.unwrap_or(""));
                                lines.push(e);
                            }
                        }
                    }
                    lines.push(json!({"kind": "summary", "fn": name, "a": args_json(&a), "classes": classes, "offenders": offenders}));
                }
            }
            (lines, calls_n)
        })).collect();
        hs.into_iter().map(|h| h.join().unwrap()).collect()
    });
    let mut total = 0;
    for (lines, n) in results { total += n; for l in lines { writeln!(out, "{}", l).unwrap(); } }
    out.flush().unwrap();
    eprintln!("exhaust2: {} calls", total);
    0
}

/// locality <cases.ndjson> <out.ndjson>: for every case whose input is accepted, run the same parser on exactly the
/// consumed bytes and on those bytes followed by suffixes (one byte; the structure itself; a header declaring 65535)
/// in separately allocated buffers.
pub fn cmd_locality(args: &[String]) -> i32 {
    let inp = BufReader::new(std::fs::File::open(&args[0]).expect("open"));
    let mut out = BufWriter::new(std::fs::File::create(&args[1]).expect("create"));
    crate::observe::spawn_watchdog(format!("{}.timeout", args[1]), 5);
    let mut n = 0u64;
    for line in inp.lines() {
        let c: Value = serde_json::from_str(&line.unwrap()).expect("json");
        let name = c["fn"].as_str().unwrap_or("");
        let a = Args::from_json(c.get("a"));
        let input = crate::bytes_of(&c["input"]);
        let o0 = match calls::call(name, &a, &input) { Some(o) => o, None => continue };
        if o0.res["k"] != "ok" { continue; }
        let p = o0.res["p"].as_u64().unwrap_or(0) as usize;
        if p > input.len() { continue; }
        let b = input[..p].to_vec();
        let base = calls::call(name, &a, &b).unwrap();
        let suffixes: Vec<Vec<u8>> = vec![vec![0], b.clone(), vec![22, 3, 3, 255, 255], vec![255, 255, 255, 255, 255, 255, 255, 255, 255]];
        let mut exts = Vec::new();
        for x in &suffixes {
            let mut bx = Vec::with_capacity(b.len() + x.len());
            bx.extend_from_slice(&b);
            bx.extend_from_slice(x);
            let o = calls::call(name, &a, &bx).unwrap();
            exts.push(event("", name, &a, &[], &o).as_object().map(|m| { let mut m = m.clone(); m.remove("input"); m.insert("len".into(), json!(bx.len())); Value::Object(m) }).unwrap());
            n += 1;
        }
        let mut be = event("", name, &a, &[], &base);
        be["len"] = json!(b.len());
        be.as_object_mut().unwrap().remove("input");
        writeln!(out, "{}", json!({"id": c["id"], "fn": name, "a": args_json(&a), "input": [{"lit": b, "fill": [0,0,0]}], "p": p, "base": be, "ext": exts})).unwrap();
    }
    out.flush().unwrap();
    eprintln!("locality: {} extended runs", n);
    0
}
