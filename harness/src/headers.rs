//! C02 (c): content types x ALL 65536 declared lengths x {header only, header + 3 bytes} through the three
//! single-record parsers; outcome codes, run-length encoded, judged by TLC (Trace_C02).
use crate::calls::{self, Args};
use serde_json::{json, Value};
use std::io::{BufWriter, Write};

fn code(o: &calls::Out, name: &str, ct: u8, ver: u16, len: u32, extra: usize) -> String {
    let r = &o.res;
    match r["k"].as_str().unwrap_or("") {
        "ok" => {
            let v = &r["v"];
            let hdr_ok = v["hdr"]["ct"].as_u64() == Some(ct as u64) && v["hdr"]["ver"].as_u64() == Some(ver as u64) && v["hdr"]["len"].as_u64() == Some(len as u64);
            let rng = |x: &Value| x["l"].as_u64() == Some(len as u64) && (len == 0 || x["o"].as_i64() == Some(5));
            let body_ok = match name { "parse_tls_raw_record" => rng(&v["data"]), "parse_tls_encrypted" => rng(&v["blob"]), _ => true };
            if r["p"].as_u64() == Some(5 + len as u64) && hdr_ok && body_ok && o.rem_ok { "ok".into() } else { "ok!".into() }
        }
        "inc" => if r["n"].as_i64() == Some(len as i64 - extra as i64) { "I0".into() } else { "I!".into() },
        "err" | "fail" if r["e"] == "TooLarge" => "T".into(),
        "panic" => "P".into(),
        _ => "E".into(),
    }
}

/// sweep-headers <out.ndjson> <all|quick>
pub fn cmd_headers(args: &[String]) -> i32 {
    let mut out = BufWriter::new(std::fs::File::create(&args[0]).expect("create"));
    let all = args.get(1).map(|s| s == "all").unwrap_or(false);
    let types: Vec<u8> = if all { (0..=255u8).collect() } else { vec![20, 21, 22, 23, 24, 0, 25, 255] };
    let a = Args::default();
    let mut calls_n = 0u64;
    // (content type, version, bytes after the header): every content type under TLS 1.2, then a grid of content types x
    // versions (old, new, DTLS, SSLv2-looking, nonsense) - the verdict must not depend on the version field at all
    let mut grid: Vec<(u8, u16, usize)> = Vec::new();
    for &ct in &types { for extra in [0usize, 3] { grid.push((ct, 0x0303, extra)); } }
    let vers: Vec<u16> = if all { vec![0x0000, 0x0001, 0x0002, 0x0100, 0x0101, 0x0200, 0x0201, 0x0300, 0x0301, 0x0302, 0x0304, 0x0400, 0x7f12, 0xfeff, 0xfefd, 0xffff] }
                         else { vec![0x0002, 0x0201, 0x0300, 0x0301, 0x0304, 0xfeff, 0xffff] };
    let vcts: Vec<u8> = if all { vec![0, 1, 20, 21, 22, 23, 24, 25, 0x40, 0x7f, 0x80, 0x81, 0x96, 0xc0, 0xfe, 0xff] } else { vec![22, 0x80] };
    for &ct in &vcts { for &v in &vers { grid.push((ct, v, 3)); } }
    for (ct, ver, extra) in grid {
        for name in ["parse_tls_plaintext", "parse_tls_encrypted", "parse_tls_raw_record"] {
            let mut rle: Vec<(String, u32)> = Vec::new();
            for len in 0..=65535u32 {
                let mut input = vec![ct, (ver >> 8) as u8, ver as u8, (len >> 8) as u8, len as u8];
                if extra == 3 { input.extend_from_slice(&[1, 0, 0]); }
                let c = code(&calls::call(name, &a, &input).unwrap(), name, ct, ver, len, extra);
                calls_n += 1;
                match rle.last_mut() { Some((l, n)) if *l == c => *n += 1, _ => rle.push((c, 1)) }
            }
            writeln!(out, "{}", json!({"fn": name, "ct": ct, "ver": ver, "extra": extra, "rle": rle.iter().map(|(c, n)| json!([c, n])).collect::<Vec<Value>>()})).unwrap();
        }
    }
    out.flush().unwrap();
    eprintln!("sweep-headers: {} calls", calls_n);
    0
}
