//! C02 (c): content types x ALL 65536 declared lengths x {header only, header + 3 bytes} through the three
//! single-record parsers; outcome codes, run-length encoded, judged by TLC (Trace_C02).
use crate::calls::{self, Args};
use serde_json::{json, Value};
use std::io::{BufWriter, Write};

fn code(o: &calls::Out, name: &str, ct: u8, len: u32, extra: usize) -> String {
    let r = &o.res;
    match r["k"].as_str().unwrap_or("") {
        "ok" => {
            let v = &r["v"];
            let hdr_ok = v["hdr"]["ct"].as_u64() == Some(ct as u64) && v["hdr"]["ver"].as_u64() == Some(771) && v["hdr"]["len"].as_u64() == Some(len as u64);
            let rng = |x: &Value| x["l"].as_u64() == Some(len as u64) && (len == 0 || x["o"].as_i64() == Some(5));
            let body_ok = match name { "parse_tls_raw_record" => rng(&v["data"]), "parse_tls_encrypted" => rng(&v["blob"]), _ => true };
            if r["p"].as_u64() == Some(5 + len as u64) && hdr_ok && body_ok && o.rem_ok { "ok".into() } else { "ok!".into() }
        }
        "inc" => if r["n"].as_i64() == Some(len as i64 - extra as i64) { "I0".into() } else { "I!".into() },
        "err" | "fail" if r["e"] == "TooLarge" => "T".into(),
        "panic" => "P".into(),
        _ => "E".into(),
    }
}

/// sweep-headers <out.ndjson> <all|quick>
pub fn cmd_headers(args: &[String]) -> i32 {
    let mut out = BufWriter::new(std::fs::File::create(&args[0]).expect("create"));
    let all = args.get(1).map(|s| s == "all").unwrap_or(false);
    let types: Vec<u8> = if all { (0..=255u8).collect() } else { vec![20, 21, 22, 23, 24, 0, 25, 255] };
    let a = Args::default();
    let mut calls_n = 0u64;
    for ct in types {
        for name in ["parse_tls_plaintext", "parse_tls_encrypted", "parse_tls_raw_record"] {
            for extra in [0usize, 3] {
                let mut rle: Vec<(String, u32)> = Vec::new();
                for len in 0..=65535u32 {
                    let mut input = vec![ct, 3, 3, (len >> 8) as u8, len as u8];
                    if extra == 3 { input.extend_from_slice(&[1, 0, 0]); }
                    let c = code(&calls::call(name, &a, &input).unwrap(), name, ct, len, extra);
                    calls_n += 1;
                    match rle.last_mut() { Some((l, n)) if *l == c => *n += 1, _ => rle.push((c, 1)) }
                }
                writeln!(out, "{}", json!({"fn": name, "ct": ct, "extra": extra, "rle": rle.iter().map(|(c, n)| json!([c, n])).collect::<Vec<Value>>()})).unwrap();
            }
        }
    }
    out.flush().unwrap();
    eprintln!("sweep-headers: {} calls", calls_n);
    0
}
