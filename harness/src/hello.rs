//! C15: ClientHello trait accessors, constructors and cipher lookups on constructed and parsed hellos.
use serde_json::{json, Value};
use std::io::{BufRead, BufReader, BufWriter, Write};
use tls_parser::*;

fn bytes(v: &Value) -> Vec<u8> {
    v.as_array().map(|a| a.iter().map(|x| x.as_u64().unwrap_or(0) as u8).collect()).unwrap_or_default()
}
fn optbytes(v: &Value) -> Option<Vec<u8>> {
    v.as_array().and_then(|a| a.first()).map(bytes)
}
fn u16s(v: &Value) -> Vec<u16> {
    v.as_array().map(|a| a.iter().map(|x| x.as_u64().unwrap_or(0) as u16).collect()).unwrap_or_default()
}
fn suite(c: Option<&'static TlsCipherSuite>) -> Value {
    match c { Some(c) => json!(format!("{:04x}", c.id.0)), None => json!("none") }
}
fn opt(o: Option<&[u8]>) -> Value {
    match o { None => json!([]), Some(x) => json!([x]) }
}
fn limbs(x: u32) -> Value { json!([(x >> 16) & 0xffff, x & 0xffff]) }

macro_rules! view { ($h:expr) => { json!({"version": $h.version().0, "random": $h.random(), "session_id": opt($h.session_id()),
           "ciphers": $h.ciphers().iter().map(|c| c.0).collect::<Vec<u16>>(), "comp": $h.comp().iter().map(|c| c.0).collect::<Vec<u8>>(),
           "ext": opt($h.ext()), "rand_time": limbs($h.rand_time()), "rand_bytes": $h.rand_bytes(),
           "cipher_suites": $h.cipher_suites().into_iter().map(suite).collect::<Vec<Value>>()}) }; }
fn trait_view<'a, T: ClientHello<'a>>(h: &T) -> Value {
    let mut v = view!(h);
    // the same accessors through a reference to the reference (method resolution must end at the same implementation) and through
    // the trait's fully qualified form
    let hh = &h;
    let v2 = view!(hh);
    let v3 = json!({"version": <T as ClientHello>::version(h).0, "random": <T as ClientHello>::random(h), "rand_bytes": <T as ClientHello>::rand_bytes(h),
                    "rand_time": limbs(<T as ClientHello>::rand_time(h)), "session_id": opt(<T as ClientHello>::session_id(h)), "ext": opt(<T as ClientHello>::ext(h))});
    if v2 != v { v["other_receiver"] = v2; }
    for k in ["version", "random", "rand_bytes", "rand_time", "session_id", "ext"] { if v3[k] != v[k] { v["other_receiver"] = v3.clone(); } }
    v
}

fn enc_client_hello(dtls: bool, ver: u16, random: &[u8], sid: &Option<Vec<u8>>, ciphers: &[u16], comp: &[u8], ext: &Option<Vec<u8>>) -> Vec<u8> {
    // test-input construction only (the oracle is the specification's Accessors, not this encoder)
    let mut b = vec![(ver >> 8) as u8, ver as u8];
    b.extend_from_slice(random);
    match sid { None => b.push(0), Some(s) => { b.push(s.len() as u8); b.extend_from_slice(s) } }
    if dtls { b.push(0); }
    b.extend_from_slice(&((ciphers.len() * 2) as u16).to_be_bytes());
    for c in ciphers { b.extend_from_slice(&c.to_be_bytes()); }
    b.push(comp.len() as u8);
    b.extend_from_slice(comp);
    if let Some(e) = ext { b.extend_from_slice(&(e.len() as u16).to_be_bytes()); b.extend_from_slice(e); }
    b
}

/// hello <in.ndjson> <out.ndjson>
pub fn cmd_hello(args: &[String]) -> i32 {
    let inp = BufReader::new(std::fs::File::open(&args[0]).expect("open"));
    let mut out = BufWriter::new(std::fs::File::create(&args[1]).expect("create"));
    for line in inp.lines() {
        let c: Value = serde_json::from_str(&line.unwrap()).expect("json");
        let kind = c["kind"].as_str().unwrap_or("");
        let ver = c["ver"].as_u64().unwrap_or(0) as u16;
        let random = bytes(&c["random"]);
        let sid = optbytes(&c["sid"]);
        let ciphers = u16s(&c["ciphers"]);
        let comp = bytes(&c["comp"]);
        let ext = optbytes(&c["ext"]);
        let r = crate::observe::guarded(|| -> Value {
            match kind {
                "new_client_hello" => {
                    let h = TlsClientHelloContents::new(ver, &random, sid.as_deref(), ciphers.iter().map(|x| TlsCipherSuiteID(*x)).collect(),
                                                        comp.iter().map(|x| TlsCompressionID(*x)).collect(), ext.as_deref());
                    let mut v = trait_view(&h);
                    v["get_version"] = json!(h.get_version().0);
                    v["get_ciphers"] = Value::Array(h.get_ciphers().into_iter().map(suite).collect());
                    v["fields"] = json!({"version": h.version.0, "random": h.random, "session_id": opt(h.session_id), "ext": opt(h.ext)});
                    v
                }
                "new_server_hello" => {
                    let h = TlsServerHelloContents::new(ver, &random, sid.as_deref(), ciphers[0], comp[0], ext.as_deref());
                    json!({"version": h.version.0, "get_version": h.get_version().0, "random": h.random, "session_id": opt(h.session_id),
                           "ciphers": [h.cipher.0], "comp": [h.compression.0], "ext": opt(h.ext), "get_cipher": suite(h.get_cipher())})
                }
                "parsed_client_hello" => {
                    let body = enc_client_hello(false, ver, &random, &sid, &ciphers, &comp, &ext);
                    let (_, h) = parse_tls_handshake_client_hello(&body).expect("parse");
                    let mut v = trait_view(&h);
                    v["get_version"] = json!(h.get_version().0);
                    v["get_ciphers"] = Value::Array(h.get_ciphers().into_iter().map(suite).collect());
                    v
                }
                "new_dtls_client_hello" => {
                    // a DTLS ClientHello built as a struct literal (the DTLS structure has no constructor): any random length
                    let cookie = [9u8, 8, 7];
                    let h = DTLSClientHello { version: TlsVersion(ver), random: &random, session_id: sid.as_deref(), cookie: &cookie,
                                              ciphers: ciphers.iter().map(|x| TlsCipherSuiteID(*x)).collect(), comp: comp.iter().map(|x| TlsCompressionID(*x)).collect(),
                                              ext: ext.as_deref() };
                    trait_view(&h)
                }
                "parsed_dtls_client_hello" => {
                    let body = enc_client_hello(true, ver, &random, &sid, &ciphers, &comp, &ext);
                    let mut msg = vec![1u8, 0, (body.len() >> 8) as u8, body.len() as u8, 0, 0, 0, 0, 0, 0, (body.len() >> 8) as u8, body.len() as u8];
                    msg.extend_from_slice(&body);
                    let (_, m) = parse_dtls_message_handshake(&msg).expect("parse");
                    match m {
                        DTLSMessage::Handshake(DTLSMessageHandshake { body: DTLSMessageHandshakeBody::ClientHello(h), .. }) => trait_view(&h),
                        _ => json!({"error": "not a ClientHello"}),
                    }
                }
                "parsed_server_hello" => {
                    let mut b = vec![(ver >> 8) as u8, ver as u8];
                    b.extend_from_slice(&random);
                    match &sid { None => b.push(0), Some(s) => { b.push(s.len() as u8); b.extend_from_slice(s) } }
                    b.extend_from_slice(&ciphers[0].to_be_bytes());
                    b.push(comp[0]);
                    if let Some(e) = &ext { b.extend_from_slice(&(e.len() as u16).to_be_bytes()); b.extend_from_slice(e); }
                    let (_, h) = parse_tls_handshake_server_hello(&b).expect("parse");
                    json!({"version": h.version.0, "get_version": h.get_version().0, "random": h.random, "session_id": opt(h.session_id),
                           "ciphers": [h.cipher.0], "comp": [h.compression.0], "ext": opt(h.ext), "get_cipher": suite(h.get_cipher())})
                }
                _ => json!({"error": "unknown kind"}),
            }
        });
        let v = match r { Ok(v) => v, Err(m) => json!({"panic": m}) };
        writeln!(out, "{}", json!({"id": c["id"], "obs": v})).unwrap();
    }
    out.flush().unwrap();
    0
}
