//! tlsverif: conformance harness binding the TLA+ specification to the compiled crate.
mod calls;
mod consts;
mod generated_consts;
mod generated_convs;
mod registry;
mod defrag;
mod fuzz;
mod headers;
mod hello;
mod observe;
mod pipeline;
mod project;
#[cfg(feature = "serialize")]
mod ser;
mod states;
mod stream;
mod sweeps;

use serde_json::{json, Value};
use std::io::{BufRead, BufReader, BufWriter, Write};

#[global_allocator]
static GLOBAL: observe::Counting = observe::Counting;

/// bytes of `[{"lit":[..],"fill":[base,step,n]}, ...]`: literal, then (base + i*step) % 256
/// a JSON array of small integers as bytes
pub fn nums(v: &Value) -> Vec<u8> {
    v.as_array().map(|a| a.iter().map(|x| x.as_u64().unwrap_or(0) as u8).collect()).unwrap_or_default()
}

pub fn bytes_of(parts: &Value) -> Vec<u8> {
    let mut out = Vec::new();
    if let Some(a) = parts.as_array() {
        for p in a {
            if let Some(l) = p.get("lit").and_then(|x| x.as_array()) {
                for b in l {
                    out.push(b.as_u64().unwrap_or(0) as u8);
                }
            }
            if let Some(f) = p.get("fill").and_then(|x| x.as_array()) {
                if f.len() == 3 {
                    let (base, step, n) = (f[0].as_u64().unwrap_or(0), f[1].as_u64().unwrap_or(0), f[2].as_u64().unwrap_or(0));
                    for i in 0..n {
                        out.push(((base + i * step) % 256) as u8);
                    }
                }
            }
        }
    }
    out
}

fn out_json(id: &Value, o: &calls::Out, len: usize) -> Value {
    json!({"id": id, "res": o.res, "rem_ok": o.rem_ok, "alloc": o.alloc, "len": len,
           "fmt_panic": o.fmt_panic.clone().unwrap_or_default(), "foreign": o.stats.foreign, "max_end": o.stats.max_end})
}

/// run <cases.ndjson> <out.ndjson>: one call per line {id, fn, a, input}
fn cmd_run(args: &[String]) -> i32 {
    let inp = BufReader::new(std::fs::File::open(&args[0]).expect("open cases"));
    let mut out = BufWriter::new(std::fs::File::create(&args[1]).expect("create out"));
    observe::spawn_watchdog(format!("{}.timeout", args[1]), 5);
    let mut n = 0u64;
    for line in inp.lines() {
        let line = line.unwrap();
        if line.trim().is_empty() {
            continue;
        }
        let c: Value = serde_json::from_str(&line).expect("case json");
        let id = c.get("id").cloned().unwrap_or(json!(n));
        let name = c["fn"].as_str().unwrap_or("");
        let a = calls::Args::from_json(c.get("a"));
        let input = bytes_of(&c["input"]);
        observe::set_current(&format!("{} {}", id, name));
        match calls::call(name, &a, &input) {
            Some(o) => {
                // a parser is a function of the bytes: the same bytes at ANOTHER address (a fresh, differently aligned copy),
                // after an unrelated call in between, must give the same relative result
                let mut j = out_json(&id, &o, input.len());
                if input.len() <= 4096 {
                    let _ = calls::call("parse_tls_plaintext", &a, &[22, 3, 3, 0, 4, 14, 0, 0, 0]);
                    let mut shifted = Vec::with_capacity(input.len() + 3);
                    shifted.extend_from_slice(&[0xAA, 0xBB, 0xCC]);
                    shifted.extend_from_slice(&input);
                    if let Some(o2) = calls::call(name, &a, &shifted[3..]) {
                        if o2.res != o.res || o2.rem_ok != o.rem_ok { j["again_differs"] = json!(true); j["again"] = o2.res; }
                    }
                }
                writeln!(out, "{}", j).unwrap()
            }
            None => writeln!(out, "{}", json!({"id": id, "unknown_fn": name})).unwrap(),
        }
        n += 1;
    }
    out.flush().unwrap();
    eprintln!("run: {} calls", n);
    0
}

fn main() {
    observe::quiet_panics();
    let args: Vec<String> = std::env::args().collect();
    if args.len() < 2 {
        eprintln!("usage: tlsverif <cmd> ...");
        std::process::exit(2);
    }
    let rc = match args[1].as_str() {
        // VERIF_STACK_KB: run the cases on a thread with that much stack (2048 = the default of std::thread::spawn, what a parser called from a
        // worker thread gets) instead of the main thread's 8 MiB
        "run" => match std::env::var("VERIF_STACK_KB").ok().and_then(|x| x.parse::<usize>().ok()) {
            Some(kb) => { let a: Vec<String> = args[2..].to_vec();
                          std::thread::Builder::new().stack_size(kb * 1024).spawn(move || cmd_run(&a)).expect("spawn").join().unwrap_or(101) }
            None => cmd_run(&args[2..]),
        },
        "fuzz" => fuzz::cmd_fuzz(&args[2..]),
        "dfuzz" => fuzz::cmd_dfuzz(&args[2..]),
        "lensweep-robust" => fuzz::cmd_lensweep_robust(&args[2..]),
        "exhaust2" => fuzz::cmd_exhaust2(&args[2..]),
        "locality" => fuzz::cmd_locality(&args[2..]),
        "defrag" => defrag::cmd_defrag(&args[2..]),
        "defrag-fuzz" => defrag::cmd_defrag_fuzz(&args[2..]),
        "sweep-ciphers" => sweeps::cmd_ciphers(&args[2..]),
        "sweep-registry" => registry::cmd_registry(&args[2..]),
        "hello" => hello::cmd_hello(&args[2..]),
        #[cfg(feature = "serialize")]
        "ser" => ser::cmd_ser(&args[2..]),
        "sweep-ext" => sweeps::cmd_ext(&args[2..]),
        "sweep-headers" => headers::cmd_headers(&args[2..]),
        "pipeline" => pipeline::cmd_pipeline(&args[2..]),
        "stream" => stream::cmd_stream(&args[2..]),
        "sweep-sites" => sweeps::cmd_sites(&args[2..]),
        "states-sweep" => states::cmd_sweep(&args[2..]),
        "states-run" => states::cmd_run(&args[2..]),
        "states-fuzz" => states::cmd_fuzz(&args[2..]),
        "defrag-stream" => defrag::cmd_defrag_stream(&args[2..]),
        "defrag-pause" => defrag::cmd_defrag_pause(&args[2..]),
        "defrag-hold" => defrag::cmd_defrag_hold(&args[2..]),
        _ => {
            eprintln!("unknown command");
            2
        }
    };
    std::process::exit(rc);
}
