//! Observation of one call into the crate: unwinding, heap high-water mark, watchdog.
use std::alloc::{GlobalAlloc, Layout, System};
use std::cell::Cell;
use std::panic::{catch_unwind, AssertUnwindSafe};
use std::sync::atomic::{AtomicBool, AtomicU64, Ordering};
use std::sync::Mutex;

pub struct Counting;

thread_local! {
    static LIVE: Cell<isize> = const { Cell::new(0) };
    static PEAK: Cell<isize> = const { Cell::new(0) };
    static ON: Cell<bool> = const { Cell::new(false) };
}

#[inline]
fn add(n: isize) {
    let _ = ON.try_with(|on| {
        if on.get() {
            let _ = LIVE.try_with(|l| {
                let v = l.get() + n;
                l.set(v);
                let _ = PEAK.try_with(|p| {
                    if v > p.get() {
                        p.set(v)
                    }
                });
            });
        }
    });
}

unsafe impl GlobalAlloc for Counting {
    unsafe fn alloc(&self, layout: Layout) -> *mut u8 {
        let p = System.alloc(layout);
        if !p.is_null() {
            add(layout.size() as isize);
        }
        p
    }
    unsafe fn dealloc(&self, ptr: *mut u8, layout: Layout) {
        System.dealloc(ptr, layout);
        add(-(layout.size() as isize));
    }
    unsafe fn realloc(&self, ptr: *mut u8, layout: Layout, new_size: usize) -> *mut u8 {
        let p = System.realloc(ptr, layout, new_size);
        if !p.is_null() {
            // while a realloc copies, both blocks may be live: account for the new one first
            add(new_size as isize);
            add(-(layout.size() as isize));
        }
        p
    }
}

/// Start an allocation window on this thread.
pub fn alloc_begin() {
    LIVE.with(|l| l.set(0));
    PEAK.with(|p| p.set(0));
    ON.with(|o| o.set(true));
}
/// Close the window and return the peak of live bytes allocated inside it.
/// bytes currently held (allocated minus freed) since alloc_begin, while the window is open
pub fn alloc_live() -> isize {
    LIVE.with(|l| l.get())
}

pub fn alloc_end() -> usize {
    ON.with(|o| o.set(false));
    PEAK.with(|p| p.get().max(0) as usize)
}

// ---------------------------------------------------------------- watchdog
static TICK: AtomicU64 = AtomicU64::new(0);
static BUSY: AtomicBool = AtomicBool::new(false);
static CURRENT: Mutex<String> = Mutex::new(String::new());

pub fn set_current(id: &str) {
    if let Ok(mut g) = CURRENT.lock() {
        g.clear();
        g.push_str(id);
    }
}

pub fn tick_begin() {
    TICK.fetch_add(1, Ordering::SeqCst);
    BUSY.store(true, Ordering::SeqCst);
}
pub fn tick_end() {
    BUSY.store(false, Ordering::SeqCst);
    TICK.fetch_add(1, Ordering::SeqCst);
}

/// Spawn the watchdog: if one call stays in flight for more than `secs`, write the case id to
/// `<path>` and exit the process with status 3.
pub fn spawn_watchdog(path: String, secs: u64) {
    std::thread::spawn(move || {
        let mut last = TICK.load(Ordering::SeqCst);
        let mut stuck = 0u64;
        loop {
            std::thread::sleep(std::time::Duration::from_millis(500));
            let now = TICK.load(Ordering::SeqCst);
            if now == last && BUSY.load(Ordering::SeqCst) {
                stuck += 1;
                if stuck >= secs * 2 {
                    let id = CURRENT.lock().map(|g| g.clone()).unwrap_or_default();
                    let _ = std::fs::write(&path, format!("{{\"timeout\":{:?}}}\n", id));
                    std::process::exit(3);
                }
            } else {
                stuck = 0;
                last = now;
            }
        }
    });
}

/// Run `f` catching a panic; returns Err(message) on unwind.
pub fn guarded<T>(f: impl FnOnce() -> T) -> Result<T, String> {
    match catch_unwind(AssertUnwindSafe(f)) {
        Ok(v) => Ok(v),
        Err(e) => {
            let msg = if let Some(s) = e.downcast_ref::<&str>() {
                s.to_string()
            } else if let Some(s) = e.downcast_ref::<String>() {
                s.clone()
            } else {
                "panic".to_string()
            };
            Err(msg)
        }
    }
}

pub fn quiet_panics() {
    std::panic::set_hook(Box::new(|_| {}));
}
