//! The crate used end to end, as an IDS does: TCP segments -> parse_tls_raw_record loop -> TlsRecordsParser ->
//! tls_state_transition, under seeded random segmentations of TLC-provided scenarios.
use crate::fuzz::Rng;
use serde_json::{json, Value};
use std::io::{BufRead, BufReader, BufWriter, Write};
use tls_parser::*;

struct Side {
    tcp: Vec<u8>,
    parser: TlsRecordsParser,
}

struct Pipe {
    sides: [Side; 2],
    tls: Option<TlsState>, // None = the automaton reported an error
    nkinds: usize,
}

impl Pipe {
    fn new() -> Pipe {
        Pipe { sides: [Side { tcp: vec![], parser: TlsRecordsParser::default() }, Side { tcp: vec![], parser: TlsRecordsParser::default() }],
               tls: Some(TlsState::None), nkinds: 0 }
    }
    fn drain(&mut self, d: usize) {
        loop {
            let side = &mut self.sides[d];
            let consumed;
            {
                let (rem, rec) = match parse_tls_raw_record(&side.tcp) { Ok(x) => x, Err(_) => break };
                consumed = side.tcp.len() - rem.len();
                if let Ok((_, msgs)) = side.parser.parse_record(rec) {
                    for m in &msgs {
                        if let Some(st) = self.tls {
                            self.nkinds += 1;
                            self.tls = tls_state_transition(st, m, d == 0).ok();
                        }
                    }
                }
            }
            side.tcp.drain(..consumed);
        }
    }
    fn snapshot(&self) -> Value {
        json!({"tls": self.tls.map(|s| format!("{:?}", s)).unwrap_or_else(|| "ERROR".into()), "nkinds": self.nkinds,
               "tcp_c": self.sides[0].tcp.len(), "tcp_s": self.sides[1].tcp.len(),
               "inprog_c": self.sides[0].parser.defrag_in_progress(), "inprog_s": self.sides[1].parser.defrag_in_progress(),
               "buf_c": self.sides[0].parser.verif_defrag_buffer().len(), "buf_s": self.sides[1].parser.verif_defrag_buffer().len()})
    }
}

/// pipeline <scenarios.ndjson> <seed> <runs> <out.ndjson>
pub fn cmd_pipeline(args: &[String]) -> i32 {
    let inp = BufReader::new(std::fs::File::open(&args[0]).expect("open"));
    let seed: u64 = args[1].parse().unwrap_or(1);
    let runs: usize = args[2].parse().unwrap_or(50);
    let mut out = BufWriter::new(std::fs::File::create(&args[3]).expect("create"));
    let mut r = Rng::new(seed);
    let sizes = [1usize, 1, 2, 3, 5, 8, 17, 40, 100000];
    for line in inp.lines() {
        let sc: Value = serde_json::from_str(&line.unwrap()).expect("json");
        let flights = match sc.get("flights").and_then(|f| f.as_array()) { Some(f) => f.clone(), None => continue };
        for run in 0..runs {
            let mut p = Pipe::new();
            for (fi, fl) in flights.iter().enumerate() {
                let d = if fl["dir"] == "c" { 0 } else { 1 };
                let bytes: Vec<u8> = fl["bytes"].as_array().unwrap().iter().map(|x| x.as_u64().unwrap() as u8).collect();
                let mut sent = 0;
                while sent < bytes.len() {
                    // run 0 delivers every flight in one piece (the reference), run 1 byte by byte
                    let k = if run == 0 { bytes.len() } else if run == 1 { 1 } else { sizes[r.below(sizes.len())] };
                    let n = k.min(bytes.len() - sent);
                    p.sides[d].tcp.extend_from_slice(&bytes[sent..sent + n]);
                    sent += n;
                    let res = crate::observe::guarded(|| p.drain(d));
                    let (pf, ps) = if sent == bytes.len() { (fi + 2, 0) } else { (fi + 1, sent) };
                    let mut snap = p.snapshot();
                    snap["scenario"] = sc["scenario"].clone();
                    snap["run"] = json!(run);
                    snap["fl"] = json!(pf);
                    snap["sent"] = json!(ps);
                    snap["seg"] = json!(n);
                    if let Err(m) = res { snap["tls"] = json!(format!("PANIC: {}", m)); }
                    writeln!(out, "{}", snap).unwrap();
                }
            }
        }
    }
    out.flush().unwrap();
    0
}
