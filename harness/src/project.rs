//! The projection: every public result type of the crate -> canonical JSON, the same shapes
//! the TLA+ decoders produce.  Byte slices are first emitted with their raw address
//! (`{"@o": addr, "l": len}`) and then relativised against the caller's input (and the
//! defragmenter's buffer) by `relativize`, so equality of projections means "the same bytes
//! of the caller's buffer", not merely equal contents.
use serde_json::{json, Map, Value};
use tls_parser::nom::error::{Error, ErrorKind};
use tls_parser::nom::{Err, IResult, Needed};
use tls_parser::*;

pub fn sl(s: &[u8]) -> Value {
    json!({"@o": s.as_ptr() as usize as u64, "l": s.len() as u64})
}
fn opt<T>(o: Option<T>, f: impl Fn(T) -> Value) -> Value {
    match o {
        None => json!([]),
        Some(x) => json!([f(x)]),
    }
}
pub fn limbs32(x: u32) -> Value {
    json!([(x >> 16) & 0xffff, x & 0xffff])
}
pub fn limbs48(x: u64) -> Value {
    json!([(x >> 32) & 0xffff, (x >> 16) & 0xffff, x & 0xffff])
}
pub fn limbs64(x: u64) -> Value {
    json!([(x >> 48) & 0xffff, (x >> 32) & 0xffff, (x >> 16) & 0xffff, x & 0xffff])
}

#[derive(Default, Debug, Clone)]
pub struct SliceStats {
    pub in_input: u32,
    pub in_buf: u32,
    pub foreign: u32,
    pub max_end: i64,
}

/// Rewrite raw slice addresses to offsets.  `buf` is the defragmenter's buffer region.
pub fn relativize(v: &mut Value, base: usize, len: usize, buf: Option<(usize, usize)>, st: &mut SliceStats) {
    match v {
        Value::Array(a) => {
            for x in a.iter_mut() {
                relativize(x, base, len, buf, st)
            }
        }
        Value::Object(m) => {
            if m.contains_key("@o") {
                let addr = m["@o"].as_u64().unwrap() as usize;
                let l = m["l"].as_u64().unwrap() as usize;
                let mut n = Map::new();
                if l == 0 {
                    n.insert("o".into(), json!(-1));
                } else if addr >= base && addr + l <= base + len {
                    st.in_input += 1;
                    let o = (addr - base) as i64;
                    st.max_end = st.max_end.max(o + l as i64);
                    n.insert("o".into(), json!(o));
                } else if let Some((bb, bl)) = buf.filter(|(bb, bl)| addr >= *bb && addr + l <= *bb + *bl) {
                    let _ = bl;
                    st.in_buf += 1;
                    let o = (addr - bb) as i64;
                    st.max_end = st.max_end.max(o + l as i64);
                    n.insert("o".into(), json!(o));
                } else {
                    st.foreign += 1;
                    n.insert("o".into(), json!(-2));
                }
                n.insert("l".into(), json!(l));
                *m = n;
            } else {
                for (_, x) in m.iter_mut() {
                    relativize(x, base, len, buf, st)
                }
            }
        }
        _ => {}
    }
}

pub fn errkind(k: ErrorKind) -> String {
    format!("{:?}", k)
}

/// Project an IResult whose remainder is a byte slice of `input`.
/// Returns (result JSON with raw slices, remainder pointer check ok?).
pub fn res<'a, T>(input: &'a [u8], r: IResult<&'a [u8], T>, f: impl Fn(&T) -> Value) -> (Value, bool) {
    match r {
        Ok((rem, v)) => {
            let p = input.len() as i64 - rem.len() as i64;
            // an empty remainder is a suffix of anything (the crate returns the literal &[] in places)
            let rem_ok = p >= 0
                && (rem.is_empty() || rem.as_ptr() as usize == input.as_ptr() as usize + p as usize);
            (json!({"k":"ok","p":p,"v":f(&v),"n":0,"e":""}), rem_ok)
        }
        Err(Err::Incomplete(n)) => {
            let n = match n {
                Needed::Unknown => -1i64,
                Needed::Size(s) => s.get() as i64,
            };
            (json!({"k":"inc","p":-1,"v":[],"n":n,"e":""}), true)
        }
        Err(Err::Error(Error { code, .. })) => (json!({"k":"err","p":-1,"v":[],"n":0,"e":errkind(code)}), true),
        Err(Err::Failure(Error { code, .. })) => (json!({"k":"fail","p":-1,"v":[],"n":0,"e":errkind(code)}), true),
    }
}

// ------------------------------------------------------------------ records / messages
pub fn hdr(h: &TlsRecordHeader) -> Value {
    json!({"ct": h.record_type.0, "ver": h.version.0, "len": h.len})
}
pub fn plaintext(p: &TlsPlaintext) -> Value {
    json!({"hdr": hdr(&p.hdr), "msg": msgs(&p.msg)})
}
pub fn encrypted(p: &TlsEncrypted) -> Value {
    json!({"hdr": hdr(&p.hdr), "blob": sl(p.msg.blob)})
}
pub fn raw(p: &TlsRawRecord) -> Value {
    json!({"hdr": hdr(&p.hdr), "data": sl(p.data)})
}
pub fn msgs(v: &[TlsMessage]) -> Value {
    Value::Array(v.iter().map(msg).collect())
}
pub fn alert(a: &TlsMessageAlert) -> Value {
    json!({"t":"alert","sev":a.severity.0,"code":a.code.0})
}
pub fn appdata(a: &TlsMessageApplicationData) -> Value {
    json!({"t":"app","blob":sl(a.blob)})
}
pub fn heartbeat(h: &TlsMessageHeartbeat) -> Value {
    json!({"t":"hb","hbt":h.heartbeat_type.0,"plen":h.payload_len,"payload":sl(h.payload)})
}
pub fn msg(m: &TlsMessage) -> Value {
    match m {
        TlsMessage::Handshake(h) => json!({"t":"hs","m":hs(h)}),
        TlsMessage::ChangeCipherSpec => json!({"t":"ccs"}),
        TlsMessage::Alert(a) => alert(a),
        TlsMessage::ApplicationData(a) => appdata(a),
        TlsMessage::Heartbeat(h) => heartbeat(h),
        #[allow(unreachable_patterns)]
        _ => json!({"t":"variant-unknown-to-the-specification"}),
    }
}

// ------------------------------------------------------------------ handshake
fn u16s<T: Copy + Into<u16>>(v: &[T]) -> Value {
    Value::Array(v.iter().map(|x| json!((*x).into())).collect())
}
fn u8s<T: Copy + Into<u8>>(v: &[T]) -> Value {
    Value::Array(v.iter().map(|x| json!((*x).into())).collect())
}
pub fn client_hello(c: &TlsClientHelloContents) -> Value {
    json!({"t":"ClientHello","ver":c.version.0,"random":sl(c.random),"sid":opt(c.session_id, sl),
           "ciphers":u16s(&c.ciphers),"comp":u8s(&c.comp),"ext":opt(c.ext, sl)})
}
pub fn server_hello(c: &TlsServerHelloContents) -> Value {
    json!({"t":"ServerHello","ver":c.version.0,"random":sl(c.random),"sid":opt(c.session_id, sl),
           "cipher":c.cipher.0,"comp":c.compression.0,"ext":opt(c.ext, sl)})
}
pub fn server_hello_d18(c: &TlsServerHelloV13Draft18Contents) -> Value {
    json!({"t":"ServerHelloV13Draft18","ver":c.version.0,"random":sl(c.random),"cipher":c.cipher.0,"ext":opt(c.ext, sl)})
}
pub fn certificate(c: &TlsCertificateContents) -> Value {
    json!({"t":"Certificate","chain":Value::Array(c.cert_chain.iter().map(|x| sl(x.data)).collect())})
}
pub fn cert_request(c: &TlsCertificateRequestContents) -> Value {
    json!({"t":"CertificateRequest","types":c.cert_types,
           "sigalgs": match &c.sig_hash_algs { None => json!([]), Some(v) => json!([v]) },
           "cas":Value::Array(c.unparsed_ca.iter().map(|x| sl(x)).collect())})
}
pub fn cert_status(c: &TlsCertificateStatusContents) -> Value {
    json!({"t":"CertificateStatus","st":c.status_type,"blob":sl(c.blob)})
}
pub fn next_protocol(c: &TlsNextProtocolContent) -> Value {
    json!({"t":"NextProtocol","proto":sl(c.selected_protocol),"padding":sl(c.padding)})
}
pub fn cke(c: &TlsClientKeyExchangeContents) -> Value {
    match c {
        TlsClientKeyExchangeContents::Dh(d) => json!({"t":"ClientKeyExchange","kind":"Dh","data":sl(d)}),
        TlsClientKeyExchangeContents::Ecdh(p) => json!({"t":"ClientKeyExchange","kind":"Ecdh","data":sl(p.point)}),
        TlsClientKeyExchangeContents::Unknown(d) => json!({"t":"ClientKeyExchange","kind":"Unknown","data":sl(d)}),
        #[allow(unreachable_patterns)]
        _ => json!({"t":"variant-unknown-to-the-specification"}),
    }
}
pub fn hs(h: &TlsMessageHandshake) -> Value {
    use TlsMessageHandshake::*;
    match h {
        HelloRequest => json!({"t":"HelloRequest"}),
        ClientHello(c) => client_hello(c),
        ServerHello(c) => server_hello(c),
        ServerHelloV13Draft18(c) => server_hello_d18(c),
        NewSessionTicket(c) => json!({"t":"NewSessionTicket","hint":limbs32(c.ticket_lifetime_hint),"ticket":sl(c.ticket)}),
        EndOfEarlyData => json!({"t":"EndOfEarlyData"}),
        HelloRetryRequest(c) => json!({"t":"HelloRetryRequest","ver":c.version.0,"cipher":c.cipher.0,"ext":opt(c.ext, sl)}),
        Certificate(c) => certificate(c),
        ServerKeyExchange(c) => json!({"t":"ServerKeyExchange","params":sl(c.parameters)}),
        CertificateRequest(c) => cert_request(c),
        ServerDone(d) => json!({"t":"ServerDone","data":sl(d)}),
        CertificateVerify(d) => json!({"t":"CertificateVerify","data":sl(d)}),
        ClientKeyExchange(c) => cke(c),
        Finished(d) => json!({"t":"Finished","data":sl(d)}),
        CertificateStatus(c) => cert_status(c),
        NextProtocol(c) => next_protocol(c),
        KeyUpdate(v) => json!({"t":"KeyUpdate","v":v}),
        #[allow(unreachable_patterns)]
        _ => json!({"t":"variant-unknown-to-the-specification"}),
    }
}

// ------------------------------------------------------------------ extensions
pub fn ext(e: &TlsExtension) -> Value {
    use TlsExtension::*;
    let tag = TlsExtensionType::from(e).0;
    let mut v = match e {
        SNI(l) => json!({"t":"SNI","names":Value::Array(l.iter().map(|(t,n)| json!({"nt":t.0,"name":sl(n)})).collect())}),
        MaxFragmentLength(x) => json!({"t":"MaxFragmentLength","v":x}),
        StatusRequest(o) => json!({"t":"StatusRequest","req":opt(o.as_ref(), |(t,d)| json!({"st":t.0,"data":sl(d)}))}),
        EllipticCurves(g) => json!({"t":"EllipticCurves","groups":Value::Array(g.iter().map(|x| json!(x.0)).collect())}),
        EcPointFormats(d) => json!({"t":"EcPointFormats","data":sl(d)}),
        SignatureAlgorithms(a) => json!({"t":"SignatureAlgorithms","algs":a}),
        RecordSizeLimit(x) => json!({"t":"RecordSizeLimit","v":x}),
        SessionTicket(d) => json!({"t":"SessionTicket","data":sl(d)}),
        KeyShareOld(d) => json!({"t":"KeyShareOld","data":sl(d)}),
        KeyShare(d) => json!({"t":"KeyShare","data":sl(d)}),
        PreSharedKey(d) => json!({"t":"PreSharedKey","data":sl(d)}),
        EarlyData(o) => json!({"t":"EarlyData","v":opt(*o, limbs32)}),
        SupportedVersions(l) => json!({"t":"SupportedVersions","vers":Value::Array(l.iter().map(|x| json!(x.0)).collect())}),
        Cookie(d) => json!({"t":"Cookie","data":sl(d)}),
        PskExchangeModes(m) => json!({"t":"PskExchangeModes","modes":m}),
        Heartbeat(x) => json!({"t":"Heartbeat","v":x}),
        ALPN(l) => json!({"t":"ALPN","protos":Value::Array(l.iter().map(|x| sl(x)).collect())}),
        SignedCertificateTimestamp(o) => json!({"t":"SignedCertificateTimestamp","data":opt(*o, sl)}),
        Padding(d) => json!({"t":"Padding","data":sl(d)}),
        EncryptThenMac => json!({"t":"EncryptThenMac"}),
        ExtendedMasterSecret => json!({"t":"ExtendedMasterSecret"}),
        OidFilters(l) => json!({"t":"OidFilters","filters":Value::Array(l.iter().map(|f| json!({"oid":sl(f.cert_ext_oid),"val":sl(f.cert_ext_val)})).collect())}),
        PostHandshakeAuth => json!({"t":"PostHandshakeAuth"}),
        NextProtocolNegotiation => json!({"t":"NextProtocolNegotiation"}),
        RenegotiationInfo(d) => json!({"t":"RenegotiationInfo","data":sl(d)}),
        EncryptedServerName { ciphersuite, group, key_share, record_digest, encrypted_sni } =>
            json!({"t":"EncryptedServerName","cipher":ciphersuite.0,"group":group.0,"key_share":sl(key_share),
                   "digest":sl(record_digest),"esni":sl(encrypted_sni)}),
        Grease(t, d) => json!({"t":"Grease","ty":t,"data":sl(d)}),
        Unknown(t, d) => json!({"t":"Unknown","ty":t.0,"data":sl(d)}),
        #[allow(unreachable_patterns)]
        _ => json!({"t":"variant-unknown-to-the-specification"}),
    };
    v.as_object_mut().unwrap().insert("tag".into(), json!(tag));
    v
}
pub fn exts(v: &[TlsExtension]) -> Value {
    Value::Array(v.iter().map(ext).collect())
}

// ------------------------------------------------------------------ key exchange, signatures, SCT
pub fn dh(p: &ServerDHParams) -> Value {
    json!({"p":sl(p.dh_p),"g":sl(p.dh_g),"ys":sl(p.dh_ys)})
}
pub fn ecpoint(p: &ECPoint) -> Value {
    json!({"point":sl(p.point)})
}
pub fn ecparams(p: &ECParameters) -> Value {
    json!({"ct":p.curve_type.0,"content":eccontent(&p.params_content)})
}
pub fn eccontent(c: &ECParametersContent) -> Value {
    match c {
        ECParametersContent::NamedGroup(g) => json!({"t":"NamedGroup","g":g.0}),
        ECParametersContent::ExplicitPrime(e) => json!({"t":"ExplicitPrime","p":sl(e.prime_p),"a":sl(e.curve.a),"b":sl(e.curve.b),
            "base":sl(e.base.point),"order":sl(e.order),"cofactor":sl(e.cofactor)}),
        #[allow(unreachable_patterns)]
        _ => json!({"t":"variant-unknown-to-the-specification"}),
    }
}
pub fn ecdh(p: &ServerECDHParams) -> Value {
    json!({"params":ecparams(&p.curve_params),"public":sl(p.public.point)})
}
pub fn signed(s: &DigitallySigned) -> Value {
    json!({"alg":opt(s.alg.as_ref(), |a| json!({"hash":a.hash.0,"sign":a.sign.0})),"data":sl(s.data)})
}
pub fn sct(s: &SignedCertificateTimestamp) -> Value {
    json!({"ver":s.version.0,"id":sl(&s.id.key_id[..]),"ts":limbs64(s.timestamp),"ext":sl(s.extensions.0),"sig":signed(&s.signature)})
}

// ------------------------------------------------------------------ DTLS
pub fn dhdr(h: &DTLSRecordHeader) -> Value {
    json!({"ct":h.content_type.0,"ver":h.version.0,"epoch":h.epoch,"seq":limbs48(h.sequence_number),"len":h.length})
}
pub fn dbody(b: &DTLSMessageHandshakeBody) -> Value {
    use DTLSMessageHandshakeBody::*;
    match b {
        HelloRequest => json!({"t":"HelloRequest"}),
        ClientHello(c) => json!({"t":"DClientHello","ver":c.version.0,"random":sl(c.random),"sid":opt(c.session_id, sl),
            "cookie":sl(c.cookie),"ciphers":u16s(&c.ciphers),"comp":u8s(&c.comp),"ext":opt(c.ext, sl)}),
        HelloVerifyRequest(c) => json!({"t":"HelloVerifyRequest","ver":c.server_version.0,"cookie":sl(c.cookie)}),
        ServerHello(c) => server_hello(c),
        NewSessionTicket(c) => json!({"t":"NewSessionTicket","hint":limbs32(c.ticket_lifetime_hint),"ticket":sl(c.ticket)}),
        HelloRetryRequest(c) => json!({"t":"HelloRetryRequest","ver":c.version.0,"cipher":c.cipher.0,"ext":opt(c.ext, sl)}),
        Certificate(c) => certificate(c),
        ServerKeyExchange(c) => json!({"t":"ServerKeyExchange","params":sl(c.parameters)}),
        CertificateRequest(c) => cert_request(c),
        ServerDone(d) => json!({"t":"ServerDone","data":sl(d)}),
        CertificateVerify(d) => json!({"t":"CertificateVerify","data":sl(d)}),
        ClientKeyExchange(c) => cke(c),
        Finished(d) => json!({"t":"Finished","data":sl(d)}),
        CertificateStatus(c) => cert_status(c),
        NextProtocol(c) => next_protocol(c),
        Fragment(d) => json!({"t":"Fragment","data":sl(d)}),
        #[allow(unreachable_patterns)]
        _ => json!({"t":"variant-unknown-to-the-specification"}),
    }
}
pub fn dmsg(m: &DTLSMessage) -> Value {
    match m {
        DTLSMessage::Handshake(h) => json!({"t":"hs","mt":h.msg_type.0,"len":h.length,"mseq":h.message_seq,
            "off":h.fragment_offset,"flen":h.fragment_length,"body":dbody(&h.body),"frag":m.is_fragment()}),
        DTLSMessage::ChangeCipherSpec => json!({"t":"ccs","frag":m.is_fragment()}),
        DTLSMessage::Alert(a) => json!({"t":"alert","sev":a.severity.0,"code":a.code.0,"frag":m.is_fragment()}),
        DTLSMessage::ApplicationData(a) => json!({"t":"app","blob":sl(a.blob),"frag":m.is_fragment()}),
        DTLSMessage::Heartbeat(h) => json!({"t":"hb","hbt":h.heartbeat_type.0,"plen":h.payload_len,"payload":sl(h.payload),"frag":m.is_fragment()}),
        #[allow(unreachable_patterns)]
        _ => json!({"t":"variant-unknown-to-the-specification"}),
    }
}
pub fn dmsgs(v: &[DTLSMessage]) -> Value {
    Value::Array(v.iter().map(dmsg).collect())
}
pub fn dplain(p: &DTLSPlaintext) -> Value {
    json!({"hdr":dhdr(&p.header),"msgs":dmsgs(&p.messages)})
}

/// Replace raw slices by their contents (content shape, for values compared with abstract values).
pub fn materialize(v: &mut Value, input: &[u8]) {
    match v {
        Value::Array(a) => a.iter_mut().for_each(|x| materialize(x, input)),
        Value::Object(m) => {
            if m.contains_key("@o") {
                let addr = m["@o"].as_u64().unwrap() as usize;
                let l = m["l"].as_u64().unwrap() as usize;
                let base = input.as_ptr() as usize;
                *v = if l == 0 { json!([]) }
                     else if addr >= base && addr + l <= base + input.len() { json!(&input[addr - base..addr - base + l]) }
                     else { json!("foreign") };
            } else {
                m.iter_mut().for_each(|(_, x)| materialize(x, input));
            }
        }
        _ => {}
    }
}
