//! C17: every integer of every registry newtype's domain: Display / Debug text classes, conversions,
//! SignatureScheme helpers, key_bits; and the value of every named constant.
use crate::consts::all_consts;
use serde_json::{json, Value};
use std::io::{BufWriter, Write};
use tls_parser::*;

fn classify(s: &str, v: u32, names: &[&str]) -> String {
    if names.contains(&s) {
        format!("N:{}", s)
    } else if s.contains(&v.to_string()) {
        "F".to_string()
    } else {
        format!("X:{}", s)
    }
}

fn rle(classes: impl Iterator<Item = String>) -> Value {
    let mut out: Vec<(String, u32)> = Vec::new();
    for c in classes {
        match out.last_mut() {
            Some((l, n)) if *l == c => *n += 1,
            _ => out.push((c, 1)),
        }
    }
    Value::Array(out.into_iter().map(|(c, n)| json!([c, n])).collect())
}

macro_rules! shown {
    ($out:expr, $tyname:expr, $T:ident, $w:ty, $names:expr, display) => {{
        let dom: u32 = <$w>::MAX as u32;
        writeln!($out, "{}", json!({"kind":"class","type":$tyname,"which":"display",
            "rle": rle((0..=dom).map(|v| classify(&format!("{}", $T(v as $w)), v, $names)))})).unwrap();
    }};
    ($out:expr, $tyname:expr, $T:ident, $w:ty, $names:expr, debug) => {{
        let dom: u32 = <$w>::MAX as u32;
        writeln!($out, "{}", json!({"kind":"class","type":$tyname,"which":"debug",
            "rle": rle((0..=dom).map(|v| classify(&format!("{:?}", $T(v as $w)), v, $names)))})).unwrap();
    }};
}

fn conv(out: &mut impl Write, ty: &str, what: &str, dom: u32, f: impl Fn(u32) -> bool) {
    // a panic inside a conversion or a formatter is a failure for that value, not the end of the sweep
    let bad: Vec<u32> = (0..=dom).filter(|v| !std::panic::catch_unwind(std::panic::AssertUnwindSafe(|| f(*v))).unwrap_or(false)).collect();
    writeln!(out, "{}", json!({"kind":"conv","type":ty,"conv":what,"domain":dom + 1,"failures":bad.len(),"first":bad.first().map(|x| *x as i64).unwrap_or(-1)})).unwrap();
}

/// the text rusticata_macros::debug::HexSlice gives a byte slice
struct HexText(String);
impl core::fmt::Debug for HexText { fn fmt(&self, f: &mut core::fmt::Formatter) -> core::fmt::Result { f.write_str(&self.0) } }
fn tls_parser_hex(b: &[u8]) -> HexText {
    HexText(format!("{:?}", tls_parser::rusticata_macros::debug::HexSlice(b)))
}

/// sweep-registry <out.ndjson>
pub fn cmd_registry(args: &[String]) -> i32 {
    let mut out = BufWriter::new(std::fs::File::create(&args[0]).expect("create"));
    let consts = all_consts();
    for (t, n, v) in &consts {
        writeln!(out, "{}", json!({"kind":"const","type":t,"name":n,"value":v})).unwrap();
    }
    for (a, b, dom, f) in crate::generated_convs::discovered() {
        conv(&mut out, a, &format!("discovered:From<{}> for {}", a, b), dom, |v| f(v));
    }
    for (t, n, v) in crate::generated_consts::discovered() {
        writeln!(out, "{}", json!({"kind":"alias","type":t,"name":n,"value":v})).unwrap();
    }
    let names_of = |t: &str| -> Vec<&'static str> { consts.iter().filter(|c| c.0 == t).map(|c| c.1).collect() };
    macro_rules! both { ($tn:expr, $T:ident, $w:ty) => {{ let n = names_of($tn); shown!(out, $tn, $T, $w, &n, display); shown!(out, $tn, $T, $w, &n, debug); }}; }
    both!("TlsRecordType", TlsRecordType, u8);
    both!("TlsHandshakeType", TlsHandshakeType, u8);
    both!("TlsVersion", TlsVersion, u16);
    both!("TlsHeartbeatMessageType", TlsHeartbeatMessageType, u8);
    both!("TlsCompressionID", TlsCompressionID, u8);
    both!("TlsAlertSeverity", TlsAlertSeverity, u8);
    both!("TlsAlertDescription", TlsAlertDescription, u8);
    both!("TlsExtensionType", TlsExtensionType, u16);
    both!("NamedGroup", NamedGroup, u16);
    both!("SignatureScheme", SignatureScheme, u16);
    both!("HashAlgorithm", HashAlgorithm, u8);
    both!("SignAlgorithm", SignAlgorithm, u8);
    { let n = names_of("ECCurveType"); shown!(out, "ECCurveType", ECCurveType, u8, &n, display); }
    both!("SNIType", SNIType, u8);
    both!("CertificateStatusType", CertificateStatusType, u8);
    both!("CtVersion", CtVersion, u8);
    { let n = names_of("PskKeyExchangeMode"); shown!(out, "PskKeyExchangeMode", PskKeyExchangeMode, u8, &n, debug); }
    // conversions: the identity on the raw value
    conv(&mut out, "TlsRecordType", "from", 255, |v| u8::from(TlsRecordType(v as u8)) as u32 == v);
    conv(&mut out, "TlsHandshakeType", "from", 255, |v| u8::from(TlsHandshakeType(v as u8)) as u32 == v);
    conv(&mut out, "TlsHeartbeatMessageType", "from", 255, |v| u8::from(TlsHeartbeatMessageType(v as u8)) as u32 == v);
    conv(&mut out, "TlsCompressionID", "from", 255, |v| u8::from(TlsCompressionID(v as u8)) as u32 == v);
    conv(&mut out, "TlsCompressionID", "deref", 255, |v| *TlsCompressionID(v as u8) as u32 == v);
    conv(&mut out, "TlsCompressionID", "asref", 255, |v| *AsRef::<u8>::as_ref(&TlsCompressionID(v as u8)) as u32 == v);
    conv(&mut out, "TlsVersion", "from", 65535, |v| u16::from(TlsVersion(v as u16)) as u32 == v);
    conv(&mut out, "TlsVersion", "be_bytes", 65535, |v| TlsVersion(v as u16).to_be_bytes() == [(v >> 8) as u8, v as u8]);
    conv(&mut out, "TlsVersion", "lowerhex", 65535, |v| format!("{:x}", TlsVersion(v as u16)) == format!("{:x}", v));
    conv(&mut out, "TlsExtensionType", "from", 65535, |v| u16::from(TlsExtensionType(v as u16)) as u32 == v);
    conv(&mut out, "TlsExtensionType", "from_u16", 65535, |v| TlsExtensionType::from_u16(v as u16).0 as u32 == v);
    // method syntax on the newtype itself (whatever it resolves to: an inherent method or the integer's through Deref)
    conv(&mut out, "TlsCipherSuiteID", "be_bytes_method", 65535, |v| { let id = TlsCipherSuiteID(v as u16); id.to_be_bytes() == [(v >> 8) as u8, v as u8] && id.to_le_bytes() == [v as u8, (v >> 8) as u8]
        && id.leading_zeros() == (v as u16).leading_zeros() && id.swap_bytes() == (v as u16).swap_bytes() });
    conv(&mut out, "TlsCompressionID", "methods_through_deref", 255, |v| { let c = TlsCompressionID(v as u8); c.to_be_bytes() == [v as u8] && c.count_ones() == (v as u8).count_ones() });
    conv(&mut out, "TlsCipherSuiteID", "from", 65535, |v| u16::from(TlsCipherSuiteID(v as u16)) as u32 == v);
    conv(&mut out, "TlsCipherSuiteID", "deref", 65535, |v| *TlsCipherSuiteID(v as u16) as u32 == v);
    conv(&mut out, "TlsCipherSuiteID", "asref", 65535, |v| *AsRef::<u16>::as_ref(&TlsCipherSuiteID(v as u16)) as u32 == v);
    conv(&mut out, "TlsCipherSuiteID", "lowerhex", 65535, |v| format!("{:x}", TlsCipherSuiteID(v as u16)) == format!("{:x}", v));
    conv(&mut out, "TlsCipherSuiteID", "display_dec", 65535, |v| format!("{}", TlsCipherSuiteID(v as u16)) == v.to_string());
    conv(&mut out, "TlsCipherSuiteID", "debug_has_hex", 65535, |v| format!("{:?}", TlsCipherSuiteID(v as u16)).starts_with(&format!("0x{:04x}(", v)));
    // composite Debug texts print registry names through the newtypes' own Display/Debug (judged above against Registry.tla):
    // for every value of the field, the composite's text is the documented composition of the component texts
    conv(&mut out, "TlsExtension::SignatureAlgorithms", "debug_composes", 65535, |v| {
        let s = format!("{}", SignatureScheme(v as u16));
        let want = if s.starts_with("SignatureScheme") { format!("HashSign({},{})", HashAlgorithm((v >> 8) as u8), SignAlgorithm(v as u8)) } else { s };
        format!("{:?}", TlsExtension::SignatureAlgorithms(vec![0x0403, v as u16])) == format!("TlsExtension::SignatureAlgorithms({:?})", vec![format!("{}", SignatureScheme(0x0403)), want])
    });
    conv(&mut out, "SignatureAndHashAlgorithm", "display_composes", 65535, |v| {
        let x = SignatureAndHashAlgorithm { hash: HashAlgorithm((v >> 8) as u8), sign: SignAlgorithm(v as u8) };
        format!("{}", x) == format!("HashSign({},{})", HashAlgorithm((v >> 8) as u8), SignAlgorithm(v as u8))
            && format!("{:?}", x) == format!("SignatureAndHashAlgorithm({},{})", HashAlgorithm((v >> 8) as u8), SignAlgorithm(v as u8))
    });
    conv(&mut out, "TlsExtension::EllipticCurves", "debug_composes", 65535, |v|
        format!("{:?}", TlsExtension::EllipticCurves(vec![NamedGroup(v as u16), NamedGroup(23)])) == format!("TlsExtension::EllipticCurves({:?})", vec![format!("{}", NamedGroup(v as u16)), format!("{}", NamedGroup(23))]));
    conv(&mut out, "TlsExtension::SupportedVersions", "debug_composes", 65535, |v|
        format!("{:?}", TlsExtension::SupportedVersions(vec![TlsVersion(v as u16)])) == format!("TlsExtension::SupportedVersions(v={:?})", vec![format!("{}", TlsVersion(v as u16))]));
    conv(&mut out, "TlsRecordHeader", "debug_composes", 65535, |v| {
        let h = TlsRecordHeader { record_type: TlsRecordType((v >> 8) as u8), version: TlsVersion(v as u16), len: (v & 0xff) as u16 };
        format!("{:?}", h) == format!("TlsRecordHeader {{ type: {:?}, version: {:?}, len: {} }}", TlsRecordType((v >> 8) as u8), TlsVersion(v as u16), v & 0xff)
    });
    conv(&mut out, "TlsMessageAlert", "debug_composes", 65535, |v| {
        let a = TlsMessageAlert { severity: TlsAlertSeverity((v >> 8) as u8), code: TlsAlertDescription(v as u8) };
        format!("{:?}", a) == format!("TlsMessageAlert {{ severity: {:?}, code: {:?} }}", TlsAlertSeverity((v >> 8) as u8), TlsAlertDescription(v as u8))
    });
    conv(&mut out, "ECParametersContent::NamedGroup", "debug_composes", 65535, |v|
        format!("{:?}", ECParametersContent::NamedGroup(NamedGroup(v as u16))) == format!("{}", NamedGroup(v as u16)));
    conv(&mut out, "TlsServerHelloContents", "debug_composes", 65535, |v| {
        static R: [u8; 2] = [1, 2];
        let sh = TlsServerHelloContents::new(v as u16, &R, None, v as u16, (v >> 8) as u8, None);
        format!("{:?}", sh) == format!("TlsServerHelloContents {{ version: {:?}, random: {:?}, session_id: None, cipher: {:?}, compression: {:?}, ext: None }}",
                                       TlsVersion(v as u16), tls_parser_hex(&R), TlsCipherSuiteID(v as u16), TlsCompressionID((v >> 8) as u8))
    });
    conv(&mut out, "TlsClientHelloContents", "debug_composes", 65535, |v| {
        static R: [u8; 2] = [1, 2];
        let ch = TlsClientHelloContents::new(v as u16, &R, None, vec![TlsCipherSuiteID(v as u16)], vec![TlsCompressionID(v as u8)], None);
        format!("{:?}", ch) == format!("TlsClientHelloContents {{ version: {:?}, random: {:?}, session_id: None, ciphers: {:?}, comp: {:?}, ext: None }}",
                                       TlsVersion(v as u16), tls_parser_hex(&R), vec![TlsCipherSuiteID(v as u16)], vec![TlsCompressionID(v as u8)])
    });
    // the derived wire parsers (nom-derive `Parse`): big-endian, every value
    {
        use nom_derive::Parse;
        macro_rules! p16 { ($tn:expr, $T:ident) => {{
            conv(&mut out, $tn, "nom_parse", 65535, |v| { let b = [(v >> 8) as u8, v as u8, 0xAA];
                matches!(<$T>::parse(&b), Ok((rem, x)) if rem == &b[2..] && x.0 as u32 == v) && matches!(<$T>::parse_be(&b), Ok((rem, x)) if rem == &b[2..] && x.0 as u32 == v) });
        }}; }
        macro_rules! p8 { ($tn:expr, $T:ident) => {{
            conv(&mut out, $tn, "nom_parse", 255, |v| { let b = [v as u8, 0xAA]; matches!(<$T>::parse(&b), Ok((rem, x)) if rem == &b[1..] && x.0 as u32 == v) });
        }}; }
        conv(&mut out, "SignatureAndHashAlgorithm", "nom_parse", 65535, |v| { let b = [(v >> 8) as u8, v as u8, 0xAA];
            matches!(SignatureAndHashAlgorithm::parse(&b), Ok((rem, x)) if rem == &b[2..] && x.hash.0 as u32 == v >> 8 && x.sign.0 as u32 == v & 0xff) });
        p16!("TlsVersion", TlsVersion); p16!("TlsCipherSuiteID", TlsCipherSuiteID); p16!("TlsExtensionType", TlsExtensionType); p16!("NamedGroup", NamedGroup);
        p16!("SignatureScheme", SignatureScheme);
        p8!("TlsRecordType", TlsRecordType); p8!("TlsHandshakeType", TlsHandshakeType); p8!("TlsCompressionID", TlsCompressionID);
        p8!("TlsHeartbeatMessageType", TlsHeartbeatMessageType); p8!("TlsAlertSeverity", TlsAlertSeverity); p8!("TlsAlertDescription", TlsAlertDescription);
        p8!("HashAlgorithm", HashAlgorithm); p8!("SignAlgorithm", SignAlgorithm); p8!("SNIType", SNIType); p8!("CertificateStatusType", CertificateStatusType);
        p8!("CtVersion", CtVersion); p8!("ECCurveType", ECCurveType); p8!("PskKeyExchangeMode", PskKeyExchangeMode);
    }
    // formatter options: a precision never shortens a name or a fallback, a width at most pads a Display text (derived Debug impls hand the
    // width on to the inner integer, so Debug is only tried with precisions), hexadecimal output under any
    // width / flag still shows the value (the integer's own rendering of that spec, or the plain digits), and nothing panics
    macro_rules! opts { ($tn:expr, $T:ident, $w:ty) => {{
        conv(&mut out, $tn, "format_options", <$w>::MAX as u32, |v| {
            let x = $T(v as $w);
            let (d, g) = (format!("{}", x), format!("{:?}", x));
            format!("{:.3}", x) == d && format!("{:.0}", x) == d && format!("{:40}", x).trim() == d && format!("{:>40}", x).trim() == d
                && format!("{:.1?}", x) == g && format!("{:.0?}", x) == g
                && format!("{:.1?}", (0.25f32, &x)) == format!("(0.2, {})", g)
                // the alternate flag (pretty-printing of an enclosing structure) lays a fallback out over several lines at most: same tokens
                && { let norm = |s: String| s.chars().filter(|c| !c.is_whitespace()).collect::<String>().replace(",)", ")");
                     norm(format!("{:#?}", x)) == norm(g.clone()) && format!("{:#}", x) == d
                     && norm(format!("{:#?}", Some(&x))) == format!("Some({})", norm(g.clone())) }
        });
    }}; }
    opts!("TlsRecordType", TlsRecordType, u8); opts!("TlsHandshakeType", TlsHandshakeType, u8); opts!("TlsVersion", TlsVersion, u16);
    opts!("TlsHeartbeatMessageType", TlsHeartbeatMessageType, u8); opts!("TlsCompressionID", TlsCompressionID, u8);
    opts!("TlsAlertSeverity", TlsAlertSeverity, u8); opts!("TlsAlertDescription", TlsAlertDescription, u8);
    opts!("TlsExtensionType", TlsExtensionType, u16); opts!("NamedGroup", NamedGroup, u16); opts!("SignatureScheme", SignatureScheme, u16);
    opts!("HashAlgorithm", HashAlgorithm, u8); opts!("SignAlgorithm", SignAlgorithm, u8); opts!("SNIType", SNIType, u8);
    opts!("CertificateStatusType", CertificateStatusType, u8); opts!("CtVersion", CtVersion, u8); opts!("TlsCipherSuiteID", TlsCipherSuiteID, u16);
    macro_rules! hexopts { ($tn:expr, $T:ident) => {{
        conv(&mut out, $tn, "lowerhex_options", 65535, |v| {
            let x = $T(v as u16);
            let plain = format!("{:x}", v);
            let ok = |s: String, int: String| s == plain || s == int;
            ok(format!("{:2x}", x), format!("{:2x}", v)) && ok(format!("{:02x}", x), format!("{:02x}", v)) && ok(format!("{:08x}", x), format!("{:08x}", v))
                && ok(format!("{:#06x}", x), format!("{:#06x}", v)) && ok(format!("{:#3x}", x), format!("{:#3x}", v)) && ok(format!("{:<9x}", x), format!("{:<9x}", v))
                && ok(format!("{:1x}", x), format!("{:1x}", v))
        });
    }}; }
    hexopts!("TlsVersion", TlsVersion); hexopts!("TlsCipherSuiteID", TlsCipherSuiteID);
    // the registry code of a PARSED extension (From<&TlsExtension>) is its wire type, for every type and every dispatcher
    // (every GREASE point maps to the single Grease code)
    for (which, f) in [("generic", parse_tls_extension as fn(&[u8]) -> IResult<&[u8], TlsExtension>), ("client", parse_tls_client_hello_extension), ("server", parse_tls_server_hello_extension)] {
        conv(&mut out, "TlsExtensionType", &format!("from_parsed_extension_{}", which), 65535, |v| {
            let head = [(v >> 8) as u8, v as u8];
            for body in [&[0u8, 0][..], &[0, 1, 0], &[0, 2, 0, 0], &[0, 2, 3, 4], &[0, 3, 2, 3, 4], &[0, 4, 0, 2, 0, 23], &[0, 5, 1, 0, 0, 0, 0]] {
                let mut input = head.to_vec();
                input.extend_from_slice(body);
                if let Ok((_, ext)) = f(&input) {
                    let t = TlsExtensionType::from(&ext).0 as u32;
                    let grease = v & 0x0f0f == 0x0a0a && (v >> 8) == (v & 0xff);
                    if !(if grease { t == 0xfafa } else { t == v }) { return false; }
                }
            }
            true
        });
    }
    conv(&mut out, "SignatureScheme", "hash_alg", 65535, |v| SignatureScheme(v as u16).hash_alg() as u32 == v >> 8);
    conv(&mut out, "SignatureScheme", "sign_alg", 65535, |v| SignatureScheme(v as u16).sign_alg() as u32 == v & 0xff);
    writeln!(out, "{}", json!({"kind":"reserved","rle": rle((0..=65535u32).map(|v| if SignatureScheme(v as u16).is_reserved() {"1".to_string()} else {"0".to_string()}))})).unwrap();
    // (a panic is reported as the impossible size 0 for that group)
    let kb: Vec<Value> = (0..=65535u32).filter_map(|v| match std::panic::catch_unwind(|| NamedGroup(v as u16).key_bits()) {
        Ok(r) => r.map(|n| json!([v, n])), Err(_) => Some(json!([v, 0])) }).collect();
    writeln!(out, "{}", json!({"kind":"keybits","some":kb})).unwrap();
    out.flush().unwrap();
    0
}
