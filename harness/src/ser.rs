//! C09: build the crate's values from abstract values, serialize, parse back, re-serialize.
use crate::project as pj;
use serde_json::{json, Value};
use std::io::{BufRead, BufReader, BufWriter, Write};
use tls_parser::*;

fn bytes(v: &Value) -> Vec<u8> {
    v.as_array().map(|a| a.iter().map(|x| x.as_u64().unwrap_or(0) as u8).collect()).unwrap_or_default()
}
fn optbytes(v: &Value) -> Option<Vec<u8>> {
    v.as_array().and_then(|a| a.first()).map(bytes)
}
fn num(v: &Value) -> u64 { v.as_u64().unwrap_or(0) }

/// owned backing store for one abstract message
#[derive(Default)]
struct Store { random: Vec<u8>, sid: Option<Vec<u8>>, ext: Option<Vec<u8>>, data: Vec<u8>, chain: Vec<Vec<u8>> }

fn store_of(m: &Value) -> Store {
    Store { random: bytes(&m["random"]), sid: optbytes(&m["sid"]), ext: optbytes(&m["ext"]),
            data: if m.get("data").is_some() { bytes(&m["data"]) } else if m.get("ticket").is_some() { bytes(&m["ticket"]) } else { bytes(&m["blob"]) },
            chain: vec![] }
}

fn hs_of<'a>(m: &Value, s: &'a Store) -> TlsMessageHandshake<'a> {
    use TlsMessageHandshake as H;
    match m["t"].as_str().unwrap_or("") {
        "ClientHello" => H::ClientHello(TlsClientHelloContents::new(num(&m["ver"]) as u16, &s.random, s.sid.as_deref(),
            m["ciphers"].as_array().unwrap().iter().map(|x| TlsCipherSuiteID(num(x) as u16)).collect(),
            m["comp"].as_array().unwrap().iter().map(|x| TlsCompressionID(num(x) as u8)).collect(), s.ext.as_deref())),
        "ServerHello" => H::ServerHello(TlsServerHelloContents::new(num(&m["ver"]) as u16, &s.random, s.sid.as_deref(),
            num(&m["cipher"]) as u16, num(&m["comp"]) as u8, s.ext.as_deref())),
        "ServerHelloV13Draft18" => H::ServerHelloV13Draft18(TlsServerHelloV13Draft18Contents { version: TlsVersion(num(&m["ver"]) as u16),
            random: &s.random, cipher: TlsCipherSuiteID(num(&m["cipher"]) as u16), ext: s.ext.as_deref() }),
        "ClientKeyExchange" => H::ClientKeyExchange(match m["kind"].as_str().unwrap_or("") {
            "Dh" => TlsClientKeyExchangeContents::Dh(&s.data),
            "Ecdh" => TlsClientKeyExchangeContents::Ecdh(ECPoint { point: &s.data }),
            _ => TlsClientKeyExchangeContents::Unknown(&s.data) }),
        "Finished" => H::Finished(&s.data),
        "HelloRequest" => H::HelloRequest,
        "ServerDone" => H::ServerDone(&s.data),
        "Certificate" => H::Certificate(TlsCertificateContents { cert_chain: s.chain.iter().map(|c| RawCertificate { data: c }).collect() }),
        "KeyUpdate" => H::KeyUpdate(num(&m["v"]) as u8),
        "NewSessionTicket" => H::NewSessionTicket(TlsNewSessionTicketContent { ticket_lifetime_hint: 0, ticket: &s.data }),
        _ => H::EndOfEarlyData,
    }
}

fn msg_of<'a>(m: &Value, s: &'a Store) -> TlsMessage<'a> {
    match m["t"].as_str().unwrap_or("") {
        "hs" => TlsMessage::Handshake(hs_of(&m["m"], s)),
        "ccs" => TlsMessage::ChangeCipherSpec,
        "alert" => TlsMessage::Alert(TlsMessageAlert { severity: TlsAlertSeverity(num(&m["sev"]) as u8), code: TlsAlertDescription(num(&m["code"]) as u8) }),
        "app" => TlsMessage::ApplicationData(TlsMessageApplicationData { blob: &s.data }),
        _ => TlsMessage::Heartbeat(TlsMessageHeartbeat { heartbeat_type: TlsHeartbeatMessageType(num(&m["hbt"]) as u8), payload_len: num(&m["plen"]) as u16, payload: &s.data }),
    }
}

fn store_for_msg(m: &Value) -> Store {
    if m["t"] == "hs" { store_of(&m["m"]) } else { store_of(m) }
}

fn generr(e: GenError) -> String { format!("{:?}", e) }

fn parsed_msgs(b: &[u8], ct: u8) -> (Value, usize) {
    // parse serialized message bytes back with the crate's own parser (as a payload of its record type)
    let hdr = TlsRecordHeader { record_type: TlsRecordType(ct), version: TlsVersion(0x0303), len: b.len() as u16 };
    match parse_tls_record_with_header(b, &hdr) {
        Ok((rem, msgs)) => { let mut v = pj::msgs(&msgs); pj::materialize(&mut v, b); (v, b.len() - rem.len()) }
        Err(e) => (json!({"error": format!("{:?}", e)}), 0),
    }
}

/// an unrelated serialization into a buffer that is too small: fails after part of the value has been generated
fn disturb() {
    static XB: [u8; 9] = [0, 23, 0, 0, 0, 35, 0, 1, 7];
    static RB: [u8; 32] = [0xee; 32];
    let ch = TlsMessage::Handshake(TlsMessageHandshake::ClientHello(TlsClientHelloContents::new(0x0303, &RB, Some(&RB[..8]),
        vec![TlsCipherSuiteID(0x1301), TlsCipherSuiteID(0x2f)], vec![TlsCompressionID(0)], Some(&XB))));
    let rec = TlsPlaintext { hdr: TlsRecordHeader { record_type: TlsRecordType(22), version: TlsVersion(0x0303), len: 0 }, msg: vec![ch] };
    for n in [0usize, 3, 16, 47, 60] {
        let mut small = vec![0u8; n];
        let _ = cookie_factory::gen(gen_tls_plaintext(&rec), &mut small[..]);
    }
    let exts = vec![TlsExtension::SNI(vec![(SNIType(0), &RB[..])]), TlsExtension::EllipticCurves(vec![NamedGroup(23), NamedGroup(29)])];
    let mut small = [0u8; 7];
    let _ = cookie_factory::gen(gen_tls_extensions(&exts), &mut small[..]);
}

/// ser <in.ndjson> <out.ndjson>
pub fn cmd_ser(args: &[String]) -> i32 {
    let inp = BufReader::new(std::fs::File::open(&args[0]).expect("open"));
    let mut out = BufWriter::new(std::fs::File::create(&args[1]).expect("create"));
    for line in inp.lines() {
        let c: Value = serde_json::from_str(&line.unwrap()).expect("json");
        let kind = c["kind"].as_str().unwrap_or("");
        let v = &c["v"];
        let run_once = || crate::observe::guarded(|| -> Value {
            match kind {
                "hs" | "unsupported_msg" | "ccs_msg" => {
                    let wrapped = if kind == "hs" { json!({"t":"hs","m":v}) } else { v.clone() };
                    let st = store_for_msg(&wrapped);
                    let m = msg_of(&wrapped, &st);
                    match m.serialize() {
                        Err(e) => json!({"ok": false, "err": generr(e)}),
                        Ok(b) => {
                            let ct = if wrapped["t"] == "ccs" { 20 } else { 22 };
                            let (parsed, consumed) = parsed_msgs(&b, ct);
                            // re-serialize what the crate parsed
                            let hdr = TlsRecordHeader { record_type: TlsRecordType(ct), version: TlsVersion(0x0303), len: b.len() as u16 };
                            let b2 = match parse_tls_record_with_header(&b, &hdr) {
                                Ok((_, msgs)) => { let mut acc = Vec::new(); let mut ok = true; for m in &msgs { match m.serialize() { Ok(x) => acc.extend(x), Err(_) => ok = false } } if ok { json!(acc) } else { json!("error") } }
                                Err(_) => json!("error"),
                            };
                            // the handshake-level Serialize impl must agree with the message-level one
                            let direct = if let TlsMessage::Handshake(h) = &m { h.serialize().map(|x| json!(x)).unwrap_or(json!("error")) } else { json!(b) };
                            // the public per-message serializers are entry points of their own: same bytes as through the dispatcher
                            let per_fn = match &m {
                                TlsMessage::Handshake(TlsMessageHandshake::HelloRequest) => cookie_factory::gen_simple(gen_tls_hellorequest(), Vec::new()).map(|x| json!(x)).unwrap_or(json!("error")),
                                TlsMessage::Handshake(TlsMessageHandshake::ClientHello(c)) => cookie_factory::gen_simple(gen_tls_clienthello(c), Vec::new()).map(|x| json!(x)).unwrap_or(json!("error")),
                                TlsMessage::Handshake(TlsMessageHandshake::ServerHello(c)) => cookie_factory::gen_simple(gen_tls_serverhello(c), Vec::new()).map(|x| json!(x)).unwrap_or(json!("error")),
                                TlsMessage::Handshake(TlsMessageHandshake::ServerHelloV13Draft18(c)) => cookie_factory::gen_simple(gen_tls_serverhellodraft18(c), Vec::new()).map(|x| json!(x)).unwrap_or(json!("error")),
                                TlsMessage::Handshake(TlsMessageHandshake::ClientKeyExchange(c)) => cookie_factory::gen_simple(gen_tls_clientkeyexchange(c), Vec::new()).map(|x| json!(x)).unwrap_or(json!("error")),
                                TlsMessage::Handshake(TlsMessageHandshake::Finished(c)) => cookie_factory::gen_simple(gen_tls_finished(c), Vec::new()).map(|x| json!(x)).unwrap_or(json!("error")),
                                TlsMessage::ChangeCipherSpec => cookie_factory::gen_simple(gen_tls_changecipherspec(), Vec::new()).map(|x| json!(x)).unwrap_or(json!("error")),
                                _ => json!(b),
                            };
                            // the gen_* functions write into any io::Write: an exactly sized slice takes the same bytes, a shorter one fails
                            let mut exact = vec![0u8; b.len()];
                            let exact_ok = match cookie_factory::gen(gen_tls_message(&m), &mut exact[..]) { Ok((_, n)) => n as usize == b.len() && exact == b, Err(_) => false };
                            let short_err = if b.is_empty() { json!("BufferTooSmall") } else {
                                let mut short = vec![0u8; b.len() - 1];
                                match cookie_factory::gen(gen_tls_message(&m), &mut short[..]) { Ok(_) => json!("ok"), Err(e) => json!(generr(e).split('(').next().unwrap_or("")) } };
                            // a writer that implements `write` only (no write_vectored / write_all overrides: a digest adapter, a counter, a user type)
                            struct OnlyWrite(Vec<u8>);
                            impl Write for OnlyWrite {
                                fn write(&mut self, buf: &[u8]) -> std::io::Result<usize> { self.0.extend_from_slice(buf); Ok(buf.len()) }
                                fn flush(&mut self) -> std::io::Result<()> { Ok(()) }
                            }
                            let plain_writer = match cookie_factory::gen(gen_tls_message(&m), OnlyWrite(Vec::new())) { Ok((w, _)) => json!(w.0), Err(e) => json!(generr(e)) };
                            // the SAME serializer value run again after a failed attempt (the cookie-factory retry idiom: grow the buffer, call again)
                            struct Limited(Vec<u8>, usize);
                            impl Write for Limited {
                                fn write(&mut self, buf: &[u8]) -> std::io::Result<usize> { let n = buf.len().min(self.1 - self.0.len()); self.0.extend_from_slice(&buf[..n]); Ok(n) }
                                fn flush(&mut self) -> std::io::Result<()> { Ok(()) }
                            }
                            fn retry_of<F: cookie_factory::SerializeFn<Limited>>(ser: F, n: usize) -> Value {
                                let _ = cookie_factory::gen(&ser, Limited(Vec::new(), n / 2));
                                let _ = cookie_factory::gen(&ser, Limited(Vec::new(), n.saturating_sub(1)));
                                let _ = cookie_factory::gen(&ser, Limited(Vec::new(), 5.min(n)));
                                match cookie_factory::gen(&ser, Limited(Vec::new(), n + 64)) { Ok((w, _)) => json!(w.0), Err(e) => json!(generr(e)) }
                            }
                            // (through the dispatcher and through the per-message serializer value itself: whichever object a caller keeps and re-runs)
                            let retry = {
                                let r1 = retry_of(gen_tls_message(&m), b.len());
                                let r2 = match &m {
                                    TlsMessage::Handshake(TlsMessageHandshake::ClientHello(c)) => retry_of(gen_tls_clienthello(c), b.len()),
                                    TlsMessage::Handshake(TlsMessageHandshake::ServerHello(c)) => retry_of(gen_tls_serverhello(c), b.len()),
                                    TlsMessage::Handshake(TlsMessageHandshake::ServerHelloV13Draft18(c)) => retry_of(gen_tls_serverhellodraft18(c), b.len()),
                                    TlsMessage::Handshake(TlsMessageHandshake::ClientKeyExchange(c)) => retry_of(gen_tls_clientkeyexchange(c), b.len()),
                                    TlsMessage::Handshake(TlsMessageHandshake::Finished(c)) => retry_of(gen_tls_finished(c), b.len()),
                                    _ => r1.clone(),
                                };
                                if r1 == json!(b) { r2 } else { r1 }
                            };
                            json!({"ok": true, "bytes": b, "parsed": parsed, "consumed": consumed, "bytes2": b2, "direct": direct, "per_fn": per_fn, "exact_ok": exact_ok, "short_err": short_err,
                                   "plain_writer": plain_writer, "retry": retry})
                        }
                    }
                }
                "record" | "unsupported_record" => {
                    let msgs_json = v["msgs"].as_array().cloned().unwrap_or_default();
                    let stores: Vec<Store> = msgs_json.iter().map(store_for_msg).collect();
                    let msgs: Vec<TlsMessage> = msgs_json.iter().zip(stores.iter()).map(|(m, s)| msg_of(m, s)).collect();
                    let rec = TlsPlaintext { hdr: TlsRecordHeader { record_type: TlsRecordType(num(&v["ct"]) as u8), version: TlsVersion(num(&v["ver"]) as u16), len: num(&v["len"]) as u16 }, msg: msgs };
                    match rec.serialize() {
                        Err(e) => json!({"ok": false, "err": generr(e)}),
                        Ok(b) => match parse_tls_plaintext(&b) {
                            Ok((rem, p)) => {
                                let mut pv = pj::msgs(&p.msg);
                                pj::materialize(&mut pv, &b);
                                let b2 = p.serialize().map(|x| json!(x)).unwrap_or(json!("error"));
                                json!({"ok": true, "bytes": b, "parsed": pv, "consumed": b.len() - rem.len(), "bytes2": b2, "direct": b,
                                       "hdr": {"ct": p.hdr.record_type.0, "ver": p.hdr.version.0, "len": p.hdr.len}})
                            }
                            Err(e) => json!({"ok": true, "bytes": b, "parsed": {"error": format!("{:?}", e)}, "consumed": 0, "bytes2": "error", "direct": b}),
                        },
                    }
                }
                "flight" => {
                    // several records through ONE serializer run into ONE output (cookie_factory `all`), and separately, concatenated
                    let recs_json = v["recs"].as_array().cloned().unwrap_or_default();
                    let mut stores: Vec<Vec<Store>> = Vec::new();
                    for r in &recs_json { stores.push(r["msgs"].as_array().cloned().unwrap_or_default().iter().map(store_for_msg).collect()); }
                    let recs: Vec<TlsPlaintext> = recs_json.iter().zip(stores.iter()).map(|(r, st)| {
                        let msgs: Vec<TlsMessage> = r["msgs"].as_array().unwrap().iter().zip(st.iter()).map(|(m, s)| msg_of(m, s)).collect();
                        TlsPlaintext { hdr: TlsRecordHeader { record_type: TlsRecordType(num(&r["ct"]) as u8), version: TlsVersion(num(&r["ver"]) as u16), len: num(&r["len"]) as u16 }, msg: msgs }
                    }).collect();
                    let together = cookie_factory::gen_simple(cookie_factory::multi::all(recs.iter().map(gen_tls_plaintext)), Vec::new());
                    let mut apart: Vec<u8> = Vec::new();
                    let mut apart_ok = true;
                    for r in &recs { match r.serialize() { Ok(b) => apart.extend(b), Err(_) => apart_ok = false } }
                    match together {
                        Err(e) => json!({"ok": false, "err": generr(e)}),
                        Ok(b) => json!({"ok": true, "bytes": b, "flight_equals_concatenation": apart_ok && apart == b}),
                    }
                }
                "from_bytes" => {
                    // a value obtained by parsing a valid record, then serialized
                    let input = bytes(&v["bytes"]);
                    match parse_tls_plaintext(&input) {
                        Err(e) => json!({"ok": false, "err": format!("input does not parse: {:?}", e)}),
                        Ok((_, rec)) => match rec.serialize() {
                            Err(e) => json!({"ok": false, "err": generr(e)}),
                            Ok(b) => match parse_tls_plaintext(&b) {
                                Ok((rem, p)) => {
                                    let mut pv = pj::msgs(&p.msg);
                                    pj::materialize(&mut pv, &b);
                                    let b2 = p.serialize().map(|x| json!(x)).unwrap_or(json!("error"));
                                    json!({"ok": true, "bytes": b, "parsed": pv, "consumed": b.len() - rem.len(), "bytes2": b2, "direct": b,
                                           "hdr": {"ct": p.hdr.record_type.0, "ver": p.hdr.version.0, "len": p.hdr.len}})
                                }
                                Err(e) => json!({"ok": true, "bytes": b, "parsed": {"error": format!("{:?}", e)}, "consumed": 0, "bytes2": "error", "direct": b,
                                                 "hdr": {"ct": 0, "ver": 0, "len": 0}}),
                            },
                        },
                    }
                }
                "exts" | "unsupported_ext" => {
                    let list: Vec<Value> = if kind == "exts" { v.as_array().cloned().unwrap_or_default() } else { vec![v.clone()] };
                    let names: Vec<Vec<(SNIType, Vec<u8>)>> = list.iter().map(|x| x["names"].as_array().map(|a| a.iter().map(|n| (SNIType(num(&n["nt"]) as u8), bytes(&n["name"]))).collect()).unwrap_or_default()).collect();
                    let datas: Vec<Vec<u8>> = list.iter().map(|x| bytes(&x["data"])).collect();
                    let exts: Vec<TlsExtension> = list.iter().enumerate().map(|(k, x)| match x["t"].as_str().unwrap_or("") {
                        "SNI" => TlsExtension::SNI(names[k].iter().map(|(t, n)| (*t, &n[..])).collect()),
                        "MaxFragmentLength" => TlsExtension::MaxFragmentLength(num(&x["v"]) as u8),
                        "EllipticCurves" => TlsExtension::EllipticCurves(x["groups"].as_array().unwrap().iter().map(|g| NamedGroup(num(g) as u16)).collect()),
                        "Padding" => TlsExtension::Padding(&datas[k]),
                        "Heartbeat" => TlsExtension::Heartbeat(num(&x["v"]) as u8),
                        _ => TlsExtension::Unknown(TlsExtensionType(num(&x["ty"]) as u16), &datas[k]),
                    }).collect();
                    let res = if kind == "exts" { cookie_factory::gen_simple(gen_tls_extensions(&exts), Vec::new()) }
                              else { cookie_factory::gen_simple(gen_tls_extension(&exts[0]), Vec::new()) };
                    match res {
                        Err(e) => json!({"ok": false, "err": generr(e)}),
                        Ok(b) => {
                            let body = if b.len() >= 2 { &b[2..] } else { &b[..] };
                            let (parsed, consumed, b2) = match parse_tls_extensions(body) {
                                Ok((rem, l)) => { let mut pv = pj::exts(&l); pj::materialize(&mut pv, &b);
                                    let again = cookie_factory::gen_simple(gen_tls_extensions(&l), Vec::new()).map(|x| json!(x)).unwrap_or(json!("error"));
                                    (pv, 2 + body.len() - rem.len(), again) }
                                Err(e) => (json!({"error": format!("{:?}", e)}), 0, json!("error")),
                            };
                            let via_client = match parse_tls_client_hello_extensions(body) { Ok((_, l)) => { let mut pv = pj::exts(&l); pj::materialize(&mut pv, &b); pv } Err(e) => json!({"error": format!("{:?}", e)}) };
                            json!({"ok": true, "bytes": b, "parsed": parsed, "parsed_via_client_hello": via_client, "consumed": consumed, "bytes2": b2, "direct": b})
                        }
                    }
                }
                _ => json!({"ok": false, "err": "unknown kind"}),
            }
        });
        let r = run_once();
        // serialization is a function of the value: an unrelated write that fails half-way (buffer too small) in between
        // must not change what the same value serializes to
        let _ = crate::observe::guarded(disturb);
        let r2 = run_once();
        let mut v = match r { Ok(v) => v, Err(m) => json!({"ok": false, "err": format!("panic: {}", m)}) };
        let v2 = match r2 { Ok(v) => v, Err(m) => json!({"ok": false, "err": format!("panic: {}", m)}) };
        v["again"] = if v2.get("bytes").is_some() { v2["bytes"].clone() } else { json!(v2["err"].as_str().unwrap_or("?")) };
        writeln!(out, "{}", json!({"id": c["id"], "kind": kind, "obs": v})).unwrap();
    }
    out.flush().unwrap();
    0
}
