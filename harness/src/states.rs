//! tls_state_transition drivers: exhaustive cell sweep, replay of TLC paths, seeded random sequences.
use crate::fuzz::Rng;
use crate::observe::guarded;
use serde_json::{json, Value};
use std::io::{BufRead, BufReader, BufWriter, Write};
use tls_parser::*;

pub const ALL_STATES: &[TlsState] = &[
    TlsState::None, TlsState::ClientHello, TlsState::AskResumeSession, TlsState::ResumeSession, TlsState::ServerHello,
    TlsState::Certificate, TlsState::CertificateSt, TlsState::ServerKeyExchange, TlsState::ServerHelloDone,
    TlsState::ClientKeyExchange, TlsState::ClientChangeCipherSpec, TlsState::CRCertRequest, TlsState::CRHelloDone,
    TlsState::CRCert, TlsState::CRClientKeyExchange, TlsState::CRCertVerify, TlsState::NoCertSKE, TlsState::NoCertHelloDone,
    TlsState::NoCertCKE, TlsState::PskHelloDone, TlsState::PskCKE, TlsState::SessionEncrypted, TlsState::Alert,
    TlsState::Finished, TlsState::Invalid,
];

pub const KINDS: &[&str] = &[
    "HelloRequest", "ClientHello0", "ClientHello1", "ServerHello", "ServerHelloV13Draft18", "NewSessionTicket",
    "EndOfEarlyData", "HelloRetryRequest", "Certificate", "ServerKeyExchange", "CertificateRequest", "ServerDone",
    "CertificateVerify", "ClientKeyExchange", "Finished", "CertificateStatus", "NextProtocol", "KeyUpdate",
    "CCS", "AlertWarning", "AlertOther", "ApplicationData", "Heartbeat",
];

static R1: [u8; 32] = [7; 32];
static R2: [u8; 32] = [0xff; 32];
static B0: [u8; 0] = [];
static B1: [u8; 1] = [1];
static B32: [u8; 32] = [9; 32];
static B5: [u8; 5] = [1, 2, 3, 4, 5];
static B40: [u8; 40] = [6; 40];
static B300: [u8; 300] = [7; 300];

// extension blocks and randoms that carry meaning for a peer, none for the automaton (the flows are defined on message kinds)
static X_TICKET: [u8; 7] = [0, 35, 0, 3, 1, 2, 3];
static X_TICKET0: [u8; 4] = [0, 35, 0, 0];
static X_TLS13: [u8; 7] = [0, 43, 0, 3, 2, 3, 4];
static X_SEL13: [u8; 6] = [0, 43, 0, 2, 3, 4];
static X_PSK_EARLY: [u8; 23] = [0, 42, 0, 0, 0, 45, 0, 2, 1, 1, 0, 41, 0, 7, 0, 1, 9, 0, 0, 0, 0, 0, 0];
static X_MIX: [u8; 33] = [0, 23, 0, 0, 0, 35, 0, 1, 7, 0, 43, 0, 3, 2, 3, 4, 0, 51, 0, 2, 0, 29, 255, 1, 0, 1, 0, 0, 5, 0, 1, 1, 0];
static X_BROKEN: [u8; 5] = [0, 35, 0, 9, 1];
static HRR: [u8; 32] = [0xcf, 0x21, 0xad, 0x74, 0xe5, 0x9a, 0x61, 0x11, 0xbe, 0x1d, 0x8c, 0x02, 0x1e, 0x65, 0xb8, 0x91,
                        0xc2, 0xa2, 0x11, 0x16, 0x7a, 0xbb, 0x8c, 0x5e, 0x07, 0x9e, 0x09, 0xe2, 0xc8, 0xa8, 0x33, 0x9c];
static DOWNGRD: [u8; 32] = [5, 5, 5, 5, 5, 5, 5, 5, 5, 5, 5, 5, 5, 5, 5, 5, 5, 5, 5, 5, 5, 5, 5, 5, 0x44, 0x4f, 0x57, 0x4e, 0x47, 0x52, 0x44, 0x01];
fn xblocks() -> Vec<&'static [u8]> {
    vec![&X_TICKET[..], &X_TICKET0[..], &X_TLS13[..], &X_SEL13[..], &X_PSK_EARLY[..], &X_MIX[..], &X_BROKEN[..]]
}

/// payload variants of a message kind (content must not matter)
fn variants_base(kind: &str) -> Vec<TlsMessage<'static>> {
    use TlsMessageHandshake as H;
    let hs = |h| TlsMessage::Handshake(h);
    match kind {
        "HelloRequest" => vec![hs(H::HelloRequest)],
        "ClientHello0" => vec![
            hs(H::ClientHello(TlsClientHelloContents::new(0x0303, &R1, None, vec![], vec![], None))),
            hs(H::ClientHello(TlsClientHelloContents::new(0x0301, &R2, None, vec![TlsCipherSuiteID(0x2f)], vec![TlsCompressionID(0)], Some(&B5)))),
            hs(H::ClientHello(TlsClientHelloContents::new(0, &B0, None, vec![TlsCipherSuiteID(0xffff); 3], vec![], Some(&B0)))),
        ],
        "ClientHello1" => vec![
            hs(H::ClientHello(TlsClientHelloContents::new(0x0303, &R1, Some(&B1), vec![], vec![], None))),
            hs(H::ClientHello(TlsClientHelloContents::new(0x0304, &R2, Some(&B32), vec![TlsCipherSuiteID(5)], vec![], Some(&B5)))),
            hs(H::ClientHello(TlsClientHelloContents::new(0x0303, &R1, Some(&B0), vec![], vec![], None))),
            // (directly built values: a session id of any length is present)
            hs(H::ClientHello(TlsClientHelloContents::new(0x0303, &R1, Some(&B40), vec![TlsCipherSuiteID(0x2f)], vec![], None))),
            hs(H::ClientHello(TlsClientHelloContents::new(0x0301, &R2, Some(&B300), vec![], vec![TlsCompressionID(0)], Some(&B5)))),
        ],
        "ServerHello" => vec![
            hs(H::ServerHello(TlsServerHelloContents::new(0x0303, &R1, None, 0x2f, 0, None))),
            hs(H::ServerHello(TlsServerHelloContents::new(0x0300, &R2, Some(&B32), 0xffff, 255, Some(&B5)))),
        ],
        "ServerHelloV13Draft18" => vec![
            hs(H::ServerHelloV13Draft18(TlsServerHelloV13Draft18Contents { version: TlsVersion(0x7f12), random: &R1, cipher: TlsCipherSuiteID(0x1301), ext: None })),
            hs(H::ServerHelloV13Draft18(TlsServerHelloV13Draft18Contents { version: TlsVersion(0), random: &B0, cipher: TlsCipherSuiteID(0), ext: Some(&B5) })),
        ],
        "NewSessionTicket" => vec![
            hs(H::NewSessionTicket(TlsNewSessionTicketContent { ticket_lifetime_hint: 0, ticket: &B0 })),
            hs(H::NewSessionTicket(TlsNewSessionTicketContent { ticket_lifetime_hint: u32::MAX, ticket: &B32 })),
        ],
        "EndOfEarlyData" => vec![hs(H::EndOfEarlyData)],
        "HelloRetryRequest" => vec![
            hs(H::HelloRetryRequest(TlsHelloRetryRequestContents { version: TlsVersion(0x0304), cipher: TlsCipherSuiteID(0x1301), ext: None })),
            hs(H::HelloRetryRequest(TlsHelloRetryRequestContents { version: TlsVersion(0), cipher: TlsCipherSuiteID(0), ext: Some(&B5) })),
        ],
        "Certificate" => vec![
            hs(H::Certificate(TlsCertificateContents { cert_chain: vec![] })),
            hs(H::Certificate(TlsCertificateContents { cert_chain: vec![RawCertificate { data: &B5 }, RawCertificate { data: &B0 }] })),
        ],
        "ServerKeyExchange" => vec![
            hs(H::ServerKeyExchange(TlsServerKeyExchangeContents { parameters: &B0 })),
            hs(H::ServerKeyExchange(TlsServerKeyExchangeContents { parameters: &B32 })),
        ],
        "CertificateRequest" => vec![
            hs(H::CertificateRequest(TlsCertificateRequestContents { cert_types: vec![], sig_hash_algs: None, unparsed_ca: vec![] })),
            hs(H::CertificateRequest(TlsCertificateRequestContents { cert_types: vec![1, 64], sig_hash_algs: Some(vec![0x0401]), unparsed_ca: vec![&B5] })),
        ],
        "ServerDone" => vec![hs(H::ServerDone(&B0)), hs(H::ServerDone(&B5))],
        "CertificateVerify" => vec![hs(H::CertificateVerify(&B0)), hs(H::CertificateVerify(&B32))],
        "ClientKeyExchange" => vec![
            hs(H::ClientKeyExchange(TlsClientKeyExchangeContents::Unknown(&B0))),
            hs(H::ClientKeyExchange(TlsClientKeyExchangeContents::Dh(&B32))),
            hs(H::ClientKeyExchange(TlsClientKeyExchangeContents::Ecdh(ECPoint { point: &B5 }))),
        ],
        "Finished" => vec![hs(H::Finished(&B0)), hs(H::Finished(&B32))],
        "CertificateStatus" => vec![
            hs(H::CertificateStatus(TlsCertificateStatusContents { status_type: 1, blob: &B0 })),
            hs(H::CertificateStatus(TlsCertificateStatusContents { status_type: 255, blob: &B5 })),
        ],
        "NextProtocol" => vec![
            hs(H::NextProtocol(TlsNextProtocolContent { selected_protocol: &B0, padding: &B0 })),
            hs(H::NextProtocol(TlsNextProtocolContent { selected_protocol: &B5, padding: &B32 })),
        ],
        "KeyUpdate" => vec![hs(H::KeyUpdate(0)), hs(H::KeyUpdate(1)), hs(H::KeyUpdate(255))],
        "CCS" => vec![TlsMessage::ChangeCipherSpec],
        "ApplicationData" => vec![
            TlsMessage::ApplicationData(TlsMessageApplicationData { blob: &B0 }),
            TlsMessage::ApplicationData(TlsMessageApplicationData { blob: &B32 }),
        ],
        "Heartbeat" => vec![
            TlsMessage::Heartbeat(TlsMessageHeartbeat { heartbeat_type: TlsHeartbeatMessageType(1), payload_len: 0, payload: &B0 }),
            TlsMessage::Heartbeat(TlsMessageHeartbeat { heartbeat_type: TlsHeartbeatMessageType(2), payload_len: 5, payload: &B5 }),
            // (directly built values whose fields disagree: the automaton reads the message KIND)
            TlsMessage::Heartbeat(TlsMessageHeartbeat { heartbeat_type: TlsHeartbeatMessageType(1), payload_len: 0xffff, payload: &B5 }),
            TlsMessage::Heartbeat(TlsMessageHeartbeat { heartbeat_type: TlsHeartbeatMessageType(255), payload_len: 1, payload: &B0 }),
            TlsMessage::Heartbeat(TlsMessageHeartbeat { heartbeat_type: TlsHeartbeatMessageType(1), payload_len: 2, payload: &B32 }),
        ],
        "AlertWarning" => (0..=255u8).map(|c| TlsMessage::Alert(TlsMessageAlert { severity: TlsAlertSeverity(1), code: TlsAlertDescription(c) })).collect(),
        "AlertOther" => (0..=255u16).filter(|s| *s != 1).flat_map(|s| (0..=255u8).map(move |c| TlsMessage::Alert(TlsMessageAlert { severity: TlsAlertSeverity(s as u8), code: TlsAlertDescription(c) }))).collect(),
        _ => vec![],
    }
}

pub fn variants(kind: &str) -> Vec<TlsMessage<'static>> {
    use TlsMessageHandshake as H;
    let hs = |h| TlsMessage::Handshake(h);
    let mut v = variants_base(kind);
    // every cipher suite of the registry (each key exchange / authentication / cipher class) and a few unlisted ids: the automaton reads the
    // message KIND, not what the peers negotiate
    let ids: Vec<u16> = (0..=65535u16).filter(|id| TlsCipherSuite::from_id(*id).is_some()).chain([0x1300, 0x00fe, 0xc0ff, 0x5601, 0xfefe]).collect();
    for id in &ids {
        match kind {
            "ServerHello" => {
                v.push(hs(H::ServerHello(TlsServerHelloContents::new(0x0303, &R1, None, *id, 0, None))));
                v.push(hs(H::ServerHello(TlsServerHelloContents::new(0x0303, &R2, Some(&B32), *id, 0, Some(&X_SEL13)))));
            }
            "ServerHelloV13Draft18" => v.push(hs(H::ServerHelloV13Draft18(TlsServerHelloV13Draft18Contents { version: TlsVersion(0x7f12), random: &R1, cipher: TlsCipherSuiteID(*id), ext: None }))),
            "HelloRetryRequest" => v.push(hs(H::HelloRetryRequest(TlsHelloRetryRequestContents { version: TlsVersion(0x0304), cipher: TlsCipherSuiteID(*id), ext: None }))),
            "ClientHello0" => v.push(hs(H::ClientHello(TlsClientHelloContents::new(0x0303, &R1, None, vec![TlsCipherSuiteID(*id)], vec![TlsCompressionID(0)], None)))),
            "ClientHello1" => v.push(hs(H::ClientHello(TlsClientHelloContents::new(0x0303, &R1, Some(&B32), vec![TlsCipherSuiteID(*id), TlsCipherSuiteID(0x00ff)], vec![TlsCompressionID(0)], None)))),
            _ => {}
        }
    }
    for x in xblocks() {
        for r in [&HRR, &DOWNGRD, &R1] {
            match kind {
                "ClientHello0" => v.push(hs(H::ClientHello(TlsClientHelloContents::new(0x0303, r, None, vec![TlsCipherSuiteID(0x1301), TlsCipherSuiteID(0x00ff)], vec![TlsCompressionID(0)], Some(x))))),
                "ClientHello1" => v.push(hs(H::ClientHello(TlsClientHelloContents::new(0x0303, r, Some(&B32), vec![TlsCipherSuiteID(0x1301)], vec![TlsCompressionID(0)], Some(x))))),
                "ServerHello" => {
                    v.push(hs(H::ServerHello(TlsServerHelloContents::new(0x0303, r, Some(&B32), 0x1301, 0, Some(x)))));
                    v.push(hs(H::ServerHello(TlsServerHelloContents::new(0x0301, r, None, 0x2f, 0, Some(x)))));
                }
                "ServerHelloV13Draft18" => v.push(hs(H::ServerHelloV13Draft18(TlsServerHelloV13Draft18Contents { version: TlsVersion(0x7f12), random: r, cipher: TlsCipherSuiteID(0x1301), ext: Some(x) }))),
                "HelloRetryRequest" => v.push(hs(H::HelloRetryRequest(TlsHelloRetryRequestContents { version: TlsVersion(0x0304), cipher: TlsCipherSuiteID(0x1301), ext: Some(x) }))),
                _ => {}
            }
        }
    }
    v
}

fn code(r: Result<Result<TlsState, StateChangeError>, String>) -> String {
    match r {
        Ok(Ok(s)) => format!("{:?}", s),
        Ok(Err(e)) => format!("{:?}", e),
        Err(m) => format!("panic:{}", m),
    }
}

pub fn state_of(name: &str) -> Option<TlsState> {
    ALL_STATES.iter().copied().find(|s| format!("{:?}", s) == name)
}

/// distinct result codes of one cell over all payload variants of the kind
pub fn cell(state: TlsState, kind: &str, to_server: bool) -> Vec<String> {
    let mut out: Vec<String> = Vec::new();
    for m in variants(kind) {
        let c = code(guarded(|| tls_state_transition(state, &m, to_server)));
        if !out.contains(&c) { out.push(c); }
    }
    out
}

/// states-sweep <out.ndjson>: every state x direction x kind (all payload variants, all 256x256 alerts)
pub fn cmd_sweep(args: &[String]) -> i32 {
    let mut out = BufWriter::new(std::fs::File::create(&args[0]).expect("create"));
    let mut calls = 0u64;
    for s in ALL_STATES {
        for d in ["c", "s"] {
            for k in KINDS {
                let r = cell(*s, k, d == "c");
                calls += variants(k).len() as u64;
                writeln!(out, "{}", json!({"state": format!("{:?}", s), "dir": d, "kind": k, "res": r})).unwrap();
            }
        }
    }
    out.flush().unwrap();
    eprintln!("states-sweep: {} calls", calls);
    0
}

/// states-run <in.ndjson> <out.ndjson>: {state, path:[{kind,dir}], cells:[{kind,dir,..}]}: walk the path from
/// None with the first variant of each kind, then evaluate the listed cells there.
pub fn cmd_run(args: &[String]) -> i32 {
    let inp = BufReader::new(std::fs::File::open(&args[0]).expect("open"));
    let mut out = BufWriter::new(std::fs::File::create(&args[1]).expect("create"));
    for line in inp.lines() {
        let c: Value = serde_json::from_str(&line.unwrap()).expect("json");
        let mut st = TlsState::None;
        let mut trail = Vec::new();
        for step in c["path"].as_array().unwrap_or(&vec![]) {
            let kind = step["kind"].as_str().unwrap_or("");
            let vs = variants(kind);
            let m = &vs[vs.len() - 1];
            match tls_state_transition(st, m, step["dir"] == "c") {
                Ok(n) => { st = n; trail.push(format!("{:?}", n)); }
                Err(e) => { trail.push(format!("{:?}", e)); break; }
            }
        }
        let mut cells = Vec::new();
        for cl in c["cells"].as_array().unwrap_or(&vec![]) {
            let kind = cl["kind"].as_str().unwrap_or("");
            cells.push(json!({"kind": kind, "dir": cl["dir"], "res": cell(st, kind, cl["dir"] == "c")}));
        }
        writeln!(out, "{}", json!({"state": c["state"], "reached": format!("{:?}", st), "trail": trail, "cells": cells})).unwrap();
    }
    out.flush().unwrap();
    0
}

/// states-fuzz <seed> <runs> <len> <out.ndjson>: random message sequences; the caller-held state follows Ok results
pub fn cmd_fuzz(args: &[String]) -> i32 {
    let seed: u64 = args[0].parse().unwrap_or(1);
    let runs: usize = args[1].parse().unwrap_or(100);
    let len: usize = args[2].parse().unwrap_or(20);
    let mut out = BufWriter::new(std::fs::File::create(&args[3]).expect("create"));
    let mut r = Rng::new(seed);
    // walks biased towards the documented flows so that deep states are reached
    let flow: &[(&str, &str)] = &[("ClientHello0", "c"), ("ServerHello", "s"), ("Certificate", "s"), ("ServerKeyExchange", "s"),
        ("CertificateRequest", "s"), ("ServerDone", "s"), ("Certificate", "c"), ("ClientKeyExchange", "c"), ("CertificateVerify", "c"),
        ("CCS", "c"), ("CCS", "s"), ("ClientHello1", "c"), ("CertificateStatus", "s"), ("NewSessionTicket", "s"), ("ServerHelloV13Draft18", "s")];
    for run in 0..runs {
        let mut st = TlsState::None;
        let mut steps = Vec::new();
        for _ in 0..(1 + r.below(len)) {
            let (kind, dir) = if r.chance(3, 5) { let f = flow[r.below(flow.len())]; (f.0, f.1) } else { (KINDS[r.below(KINDS.len())], ["c", "s"][r.below(2)]) };
            let vs = variants(kind);
            let m = &vs[r.below(vs.len())];
            let res = guarded(|| tls_state_transition(st, m, dir == "c"));
            let next = if let Ok(Ok(n)) = &res { Some(*n) } else { None };
            let c = code(res);
            steps.push(json!({"kind": kind, "dir": dir, "res": c}));
            if let Some(n) = next { st = n; }
        }
        writeln!(out, "{}", json!({"id": format!("run{}", run), "steps": steps})).unwrap();
    }
    out.flush().unwrap();
    0
}
