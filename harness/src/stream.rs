//! The streaming consumer of Stream.tla on the real parsers: one event per step of the loop (parser call / read of the
//! Needed amount / read of a chunk / end of stream), each with the consumer's state after the step, for Trace_Stream.
use crate::calls::{self, Args};
use serde_json::{json, Value};
use std::io::{BufRead, BufReader, BufWriter, Write};

/// stream <in.ndjson> <out.ndjson>; input lines {id, fn, policy: "needed"|"any", wire: [bytes], chunks: [k, ...]}
pub fn cmd_stream(args: &[String]) -> i32 {
    let inp = BufReader::new(std::fs::File::open(&args[0]).expect("open"));
    let mut out = BufWriter::new(std::fs::File::create(&args[1]).expect("create"));
    crate::observe::spawn_watchdog(format!("{}.timeout", args[1]), 20);
    let a = Args::default();
    let mut steps = 0u64;
    for line in inp.lines() {
        let c: Value = serde_json::from_str(&line.unwrap()).expect("json");
        let name = c["fn"].as_str().unwrap_or("");
        let needed = c["policy"] == "needed";
        let wire: Vec<u8> = c["wire"].as_array().map(|a| a.iter().map(|x| x.as_u64().unwrap_or(0) as u8).collect()).unwrap_or_default();
        let chunks: Vec<usize> = c["chunks"].as_array().map(|a| a.iter().map(|x| x.as_u64().unwrap_or(1) as usize).collect()).unwrap_or_default();
        let (mut have, mut start, mut need, mut incs, mut outn) = (0usize, 0usize, 0usize, 0usize, 0usize);
        let mut phase = "parse";
        let mut ci = 0usize;
        let mut events: Vec<Value> = Vec::new();
        crate::observe::set_current(&format!("stream {}", c["id"]));
        while phase == "parse" || phase == "read" {
            if events.len() > 200_000 { events.push(json!({"a": "Spin"})); break; }
            let (act, k);
            if phase == "parse" {
                act = "Parse"; k = 0;
                let o = calls::call(name, &a, &wire[start..have]).expect("known entry point");
                match o.res["k"].as_str().unwrap_or("") {
                    "ok" => {
                        start += o.res["p"].as_u64().unwrap_or(0) as usize; outn += 1; incs = 0; need = 0;
                        phase = if start == wire.len() && have == wire.len() { "end" } else { "parse" };
                    }
                    "inc" => {
                        let n = o.res["n"].as_i64().unwrap_or(0);
                        need = if n > 0 { n as usize } else { 0 };
                        incs = if needed { incs + 1 } else { 0 };
                        phase = "read";
                    }
                    _ => { phase = "stuck"; }
                }
            } else {
                let wanted = if need > 0 { need } else { 1 };
                if needed {
                    if have + wanted <= wire.len() { act = "ReadNeeded"; k = 0; have += wanted; phase = "parse"; }
                    else { act = "EndOfStream"; k = 0; have = wire.len(); phase = "end"; }
                } else if have < wire.len() {
                    let kk = if chunks.is_empty() { 1 } else { chunks[ci % chunks.len()] };
                    ci += 1;
                    act = "ReadChunk"; k = kk; have = (have + kk).min(wire.len()); phase = "parse";
                } else { act = "EndOfStream"; k = 0; phase = "end"; }
            }
            steps += 1;
            events.push(json!({"a": act, "k": k, "st": {"have": have, "start": start, "phase": phase, "need": need, "incs": incs, "out": outn}}));
        }
        writeln!(out, "{}", json!({"id": c["id"], "fn": name, "policy": c["policy"], "wire": wire, "events": events})).unwrap();
    }
    out.flush().unwrap();
    eprintln!("stream: {} steps", steps);
    0
}
