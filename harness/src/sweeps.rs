//! Exhaustive integer sweeps of the compiled crate (impl -> spec, judged against the specification's tables).
use crate::calls::{self, Args};
use serde_json::{json, Value};
use std::io::{BufRead, BufReader, BufWriter, Write};

fn navigate<'a>(v: &'a Value, path: &str) -> Option<&'a Value> {
    let mut cur = v;
    for seg in path.split('.') {
        cur = match seg.parse::<usize>() {
            Ok(i) => cur.get(i)?,
            Err(_) => cur.get(seg)?,
        };
    }
    Some(cur)
}

fn lit(v: &Value) -> Vec<u8> {
    v.as_array().map(|a| a.iter().map(|x| x.as_u64().unwrap_or(0) as u8).collect()).unwrap_or_default()
}

/// sweep-sites <sites.ndjson> <out.ndjson>: every value of every site's field domain
pub fn cmd_sites(args: &[String]) -> i32 {
    let inp = BufReader::new(std::fs::File::open(&args[0]).expect("open"));
    let mut out = BufWriter::new(std::fs::File::create(&args[1]).expect("create"));
    for line in inp.lines() {
        let s: Value = serde_json::from_str(&line.unwrap()).expect("json");
        let name = s["fn"].as_str().unwrap_or("");
        let a = Args::from_json(s.get("a"));
        let (pre, suf) = (lit(&s["pre"]), lit(&s["suf"]));
        let w = s["w"].as_u64().unwrap_or(1) as usize;
        let path = s["path"].as_str().unwrap_or("");
        let domain: u32 = if w == 1 { 256 } else { 65536 };
        let mut okc = 0u32;
        let mut bad = Vec::new();
        for x in 0..domain {
            let mut input = pre.clone();
            if w == 2 { input.push((x >> 8) as u8); }
            input.push(x as u8);
            input.extend_from_slice(&suf);
            let o = calls::call(name, &a, &input);
            // a path "a+b" reads a 16-bit value held as two byte-sized fields (high byte at a, low byte at b)
            let got = o.as_ref().and_then(|o| if o.res["k"] != "ok" { None } else if let Some((pa, pb)) = path.split_once('+') {
                match (navigate(&o.res["v"], pa).and_then(|x| x.as_u64()), navigate(&o.res["v"], pb).and_then(|x| x.as_u64())) {
                    (Some(h), Some(l)) if h < 256 && l < 256 => Some(json!(h * 256 + l)), _ => None }
            } else { navigate(&o.res["v"], path).cloned() });
            if got == Some(json!(x)) { okc += 1; } else if bad.len() < 8 {
                bad.push(json!({"x": x, "observed": o.map(|o| o.res).unwrap_or(Value::Null)}));
            }
        }
        writeln!(out, "{}", json!({"site": s["site"], "domain": domain, "ok": okc, "bad": bad})).unwrap();
    }
    out.flush().unwrap();
    0
}

/// sweep-ciphers <out.ndjson>: all 65536 ids through the four id routes; every registry name and
/// ~20 perturbations of each through the two name routes.
pub fn cmd_ciphers(args: &[String]) -> i32 {
    use core::convert::TryFrom;
    use tls_parser::{TlsCipherSuite, TlsCipherSuiteID, CIPHERS};
    let mut out = BufWriter::new(std::fs::File::create(&args[0]).expect("create"));
    let (mut present, mut absent, mut disagree) = (0u32, 0u32, 0u32);
    let mut names: Vec<String> = Vec::new();
    for id in 0..=65535u16 {
        let r1 = TlsCipherSuite::from_id(id);
        let r2 = <&TlsCipherSuite>::try_from(id).ok();
        let r3 = <&TlsCipherSuite>::try_from(TlsCipherSuiteID(id)).ok();
        let r4 = TlsCipherSuiteID(id).get_ciphersuite();
        // routes agree when they return the same ROW: every column and derived size, compared as data (not through the
        // type's own PartialEq, which a route-specific copy of a row could satisfy while differing in a column)
        let cols = |c: &TlsCipherSuite| format!("{}|{}|{:?}|{:?}|{:?}|{:?}|{}|{:?}|{}|{:?}|{}|{}|{}", c.id.0, c.name, c.kx, c.au, c.enc, c.enc_mode,
                                                c.enc_size, c.mac, c.mac_size, c.prf, c.enc_key_size(), c.mac_length(), c.enc_block_size());
        let same = |a: Option<&'static TlsCipherSuite>, b: Option<&'static TlsCipherSuite>| match (a, b) {
            (None, None) => true,
            (Some(x), Some(y)) => cols(x) == cols(y),
            _ => false,
        };
        let agree = same(r1, r2) && same(r1, r3) && same(r1, r4);
        if !agree { disagree += 1; }
        match r1.or(r2).or(r3).or(r4) {
            None => absent += 1,
            Some(c) => {
                present += 1;
                names.push(c.name.to_string());
                writeln!(out, "{}", json!({"kind": "row", "hex": format!("{:04x}", id), "name": c.name,
                    "kx": format!("{:?}", c.kx), "au": format!("{:?}", c.au), "enc": format!("{:?}", c.enc), "mode": format!("{:?}", c.enc_mode),
                    "bits": c.enc_size, "mac": format!("{:?}", c.mac), "macbits": c.mac_size, "prf": format!("{:?}", c.prf),
                    "keybytes": c.enc_key_size(),
                    "maclen": c.mac_length(), "blocksize": c.enc_block_size(),
                    "routes_agree": agree, "carries_id": c.id.0 == id})).unwrap();
            }
        }
    }
    let _ = CIPHERS.len();
    writeln!(out, "{}", json!({"kind": "summary", "present": present, "absent": absent, "route_disagreements": disagree, "map_len": CIPHERS.len()})).unwrap();
    // name queries
    let mut qs: Vec<String> = vec!["".into(), "TLS".into(), "TLS_".into(), "tls_null_with_null_null".into(), " ".into()];
    for (k, n) in names.iter().enumerate() {
        qs.push(n.clone());
        qs.push(n[..n.len() - 1].to_string());
        qs.push(n[1..].to_string());
        qs.push(format!("{}X", n));
        qs.push(format!("{} ", n));
        qs.push(format!(" {}", n));
        qs.push(n.to_lowercase());
        qs.push(format!("{}_SHA", n));
        qs.push(format!("{}_8", n));
        if let Some(p) = n.rfind('_') { qs.push(n[..p].to_string()); }
        let mut flipped: Vec<char> = n.chars().collect();
        let pos = (k * 7) % flipped.len();
        flipped[pos] = if flipped[pos].is_ascii_uppercase() { flipped[pos].to_ascii_lowercase() } else { flipped[pos].to_ascii_uppercase() };
        qs.push(flipped.into_iter().collect());
        qs.push(n.replace("_WITH_", "_"));
        qs.push(n.replace("128", "256"));
        qs.push(n.replace("SHA256", "SHA384"));
        qs.push(n.replace("TLS_", "SSL_"));
        qs.push(n.replace("_", "-"));
        qs.push(format!("{}\t", n));
        qs.push(n.replace("CBC", "GCM"));
        qs.push(n.replace("ECDHE", "ECDH"));
        qs.push(n.replace("DHE", "DH"));
        // characters outside ASCII whose low byte, folded form or visual form is a character of the name
        if k % 4 == 0 {
            let chars: Vec<char> = n.chars().collect();
            for pos in [0usize, 4, chars.len() - 1] {
                for f in [|c: char| char::from_u32(c as u32 + 0x100).unwrap(), |c: char| char::from_u32(c as u32 + 0xff00 - 0x20).unwrap_or(c),
                          |c: char| char::from_u32(c as u32 + 0x10000).unwrap_or(c), |c: char| if c == 'S' { '\u{017f}' } else if c == 'K' { '\u{212a}' } else { char::from_u32(c as u32 + 0x400).unwrap() }] {
                    let mut v = chars.clone();
                    v[pos] = f(v[pos]);
                    qs.push(v.into_iter().collect());
                }
            }
        }
        // the same BYTE length as the name, with a two- / three-byte character straddling each byte offset in turn (an implementation that
        // slices names at byte offsets meets a character boundary problem at exactly one of them)
        {
            let bytes = n.as_bytes();
            let step = if k % 8 == 0 { 1 } else { 5 };
            let mut p0 = (k % step) + 4;
            while p0 + 2 <= bytes.len() {
                let mut v = bytes.to_vec();
                v.splice(p0..p0 + 2, "\u{c9}".bytes());
                if let Ok(t) = String::from_utf8(v) { qs.push(t); }
                if p0 + 3 <= bytes.len() {
                    let mut w = bytes.to_vec();
                    w.splice(p0..p0 + 3, "\u{20ac}".bytes());
                    if let Ok(t) = String::from_utf8(w) { qs.push(t); }
                }
                p0 += step;
            }
        }
        // the same tokens in another order (adjacent tokens swapped, at every position): an order is part of a name
        {
            let toks: Vec<&str> = n.split('_').collect();
            for i in 0..toks.len().saturating_sub(1) {
                if toks[i] == toks[i + 1] { continue; }
                let mut t = toks.clone();
                t.swap(i, i + 1);
                qs.push(t.join("_"));
            }
        }
        // prefixes and tokens repeated or stripped
        qs.push(format!("TLS_{}", n));
        qs.push(format!("TLS_TLS_{}", n));
        qs.push(n.trim_start_matches("TLS_").to_string());
        qs.push(format!("{}{}", n, n));
        qs.push(format!("{}_{}", n, n.trim_start_matches("TLS_")));
        if let Some(p) = n.find("_WITH_") { qs.push(format!("{}_WITH{}", &n[..p], &n[p..])); }
        if let Some(p) = n[4..].find('_') { qs.push(format!("{}{}", &n[..4 + p + 1], &n[4..])); }
    }
    // an id written as text is not a name
    for id in [0x0000u16, 0x002f, 0x1301, 0xc02f, 0xcca8, 0xffff] {
        for t in [format!("0x{:04x}", id), format!("0X{:04X}", id), format!("{:04x}", id), format!("{:x}", id), format!("{}", id), format!("0x+{:x}", id),
                  format!("TLS_{:04x}", id), format!("{{0x{:02X},0x{:02X}}}", id >> 8, id & 0xff)] { qs.push(t); }
    }
    qs.sort();
    qs.dedup();
    for s in &qs {
        // (a lookup that panics answers "panic": an answer like any other, and not the registry's)
        let a = crate::observe::guarded(|| TlsCipherSuite::from_name(s).map(|c| format!("{:04x}", c.id.0)).unwrap_or_else(|| "none".into())).unwrap_or_else(|_| "panic".into());
        let b = crate::observe::guarded(|| <&TlsCipherSuite>::try_from(s.as_str()).ok().map(|c| format!("{:04x}", c.id.0)).unwrap_or_else(|| "none".into())).unwrap_or_else(|_| "panic".into());
        writeln!(out, "{}", json!({"kind": "name", "s": s, "from_name": a, "try_from": b})).unwrap();
    }
    // the answer depends on the characters, not on where they live: prefixes and suffixes BORROWED from the registry's own
    // static strings (same start address as a real name, shorter length) are looked up like any other string
    {
        let listed: std::collections::HashSet<&str> = names.iter().map(|s| s.as_str()).collect();
        for id in 0..=65535u16 {
            if let Some(c) = TlsCipherSuite::from_id(id) {
                let n: &'static str = c.name;
                for k in [0usize, 1, 4, n.len() / 2, n.len() - 1] {
                    for sl in [&n[..k], &n[n.len() - k..]] {
                        if listed.contains(sl) { continue; }
                        let a = TlsCipherSuite::from_name(sl).map(|c| format!("{:04x}", c.id.0)).unwrap_or_else(|| "none".into());
                        let b = <&TlsCipherSuite>::try_from(sl).ok().map(|c| format!("{:04x}", c.id.0)).unwrap_or_else(|| "none".into());
                        if a != "none" || b != "none" {
                            writeln!(out, "{}", json!({"kind": "name", "s": format!("{}", sl), "from_name": a, "try_from": b})).unwrap();
                        }
                    }
                }
            }
        }
    }
    // the string domain is infinite: beyond the structured perturbations, a seeded pseudo-random sweep of names that are NOT in the
    // registry (random edits of registry names and random token strings); all must be answered with "none".  With N queries a lookup
    // that compares a b-bit digest instead of the name is exposed with probability 1 - exp(-352 N / 2^b) (N = 5e7, b = 32: 98 %).
    let nrand: u64 = args.get(1).and_then(|x| x.parse().ok()).unwrap_or(50_000_000);
    let listed: std::collections::HashSet<&str> = names.iter().map(|s| s.as_str()).collect();
    let mut rng = crate::fuzz::Rng::new(0xC12);
    let alphabet: &[u8] = b"ABCDEFGHIJKLMNOPQRSTUVWXYZ0123456789_";
    let mut hits: Vec<Value> = Vec::new();
    let mut buf = String::with_capacity(80);
    for q in 0..nrand {
        buf.clear();
        let base = &names[(rng.next() % names.len() as u64) as usize];
        match q % 3 {
            0 => { buf.push_str(base); let n = 1 + rng.below(6); for _ in 0..n { buf.push(alphabet[rng.below(alphabet.len())] as char); } }
            1 => { let cut = rng.below(base.len()); buf.push_str(&base[..cut]); let n = 1 + rng.below(8); for _ in 0..n { buf.push(alphabet[rng.below(alphabet.len())] as char); } }
            _ => { buf.push_str("TLS_"); let n = 4 + rng.below(24); for _ in 0..n { buf.push(alphabet[rng.below(alphabet.len())] as char); } }
        }
        if listed.contains(buf.as_str()) { continue; }
        if let Some(c) = TlsCipherSuite::from_name(&buf) {
            if hits.len() < 5 { hits.push(json!({"s": buf.clone(), "id": format!("{:04x}", c.id.0)})); }
        }
    }
    writeln!(out, "{}", json!({"kind": "random_names", "queries": nrand, "hits": hits})).unwrap();
    out.flush().unwrap();
    eprintln!("sweep-ciphers: {} present, {} absent, {} name queries, {} random names", present, absent, qs.len(), nrand);
    0
}

fn rle_strings(it: impl Iterator<Item = String>) -> Value {
    let mut out: Vec<(String, u32)> = Vec::new();
    for c in it {
        match out.last_mut() {
            Some((l, n)) if *l == c => *n += 1,
            _ => out.push((c, 1)),
        }
    }
    Value::Array(out.into_iter().map(|(c, n)| json!([c, n])).collect())
}

fn ext_code(o: &calls::Out, ty: u32, plen: usize, tagparser: bool) -> String {
    let r = &o.res;
    match r["k"].as_str().unwrap_or("") {
        "ok" => {
            let v = &r["v"];
            let t = v["t"].as_str().unwrap_or("");
            let consumed_ok = r["p"].as_u64() == Some(4 + plen as u64);
            let data_ok = v["data"]["l"].as_u64() == Some(plen as u64) && (plen == 0 || v["data"]["o"].as_i64() == Some(4));
            let bang = |ok: bool| if ok && consumed_ok { "" } else { "!" };
            match t {
                "Unknown" => format!("U{}", bang(v["ty"].as_u64() == Some(ty as u64) && v["tag"].as_u64() == Some(ty as u64) && data_ok)),
                "Grease" => format!("G{}", bang(v["ty"].as_u64() == Some(ty as u64) && v["tag"].as_u64() == Some(0xfafa) && data_ok)),
                _ => format!("T{}:{}", bang(v["tag"].as_u64() == Some(ty as u64)), t),
            }
        }
        "err" | "fail" if tagparser && r["e"] == "Tag" => "E:Tag".to_string(),
        "panic" => "P".to_string(),
        _ => "E".to_string(),
    }
}

/// sweep-ext <out.ndjson>: all 65536 extension types through the three dispatchers (two payloads) and as the
/// leading type of each of the 16 tag-specific parsers; outcome codes, run-length encoded.
pub fn cmd_ext(args: &[String]) -> i32 {
    let mut out = BufWriter::new(std::fs::File::create(&args[0]).expect("create"));
    let a = Args::default();
    let disp = [("client", "parse_tls_client_hello_extension"), ("server", "parse_tls_server_hello_extension"), ("generic", "parse_tls_extension")];
    for (which, name) in disp {
        for payload in [vec![], vec![0u8]] {
            let codes = (0..=65535u32).map(|ty| {
                let mut input = vec![(ty >> 8) as u8, ty as u8, 0, payload.len() as u8];
                input.extend_from_slice(&payload);
                ext_code(&calls::call(name, &a, &input).unwrap(), ty, payload.len(), false)
            });
            writeln!(out, "{}", json!({"kind": "dispatch", "which": which, "plen": payload.len(), "trail": 0, "rle": rle_strings(codes)})).unwrap();
        }
        // payloads shaped like the contents of OTHER extensions (a 16-bit list of pairs, a one-byte list, a name list): an unassigned or
        // differently typed code point does not borrow a neighbour's decoder
        for payload in [vec![0u8, 4, 4, 3, 8, 4], vec![0, 0], vec![2, 3, 4], vec![0, 5, 0, 0, 2, 104, 50]] {
            let codes = (0..=65535u32).map(|ty| {
                let mut input = vec![(ty >> 8) as u8, ty as u8, 0, payload.len() as u8];
                input.extend_from_slice(&payload);
                ext_code(&calls::call(name, &a, &input).unwrap(), ty, payload.len(), false)
            });
            writeln!(out, "{}", json!({"kind": "dispatchp", "which": which, "plen": payload.len(), "trail": 0, "payload": payload, "rle": rle_strings(codes)})).unwrap();
        }
        // the same extension followed by another one (what a dispatcher sees inside a list): verdict and consumption are the same
        let codes = (0..=65535u32).map(|ty| {
            let input = vec![(ty >> 8) as u8, ty as u8, 0, 1, 0, 0, 23, 0, 0];
            ext_code(&calls::call(name, &a, &input).unwrap(), ty, 1, false)
        });
        writeln!(out, "{}", json!({"kind": "dispatch", "which": which, "plen": 1, "trail": 4, "rle": rle_strings(codes)})).unwrap();
    }
    let tagp = [(0u32, "parse_tls_extension_sni"), (1, "parse_tls_extension_max_fragment_length"), (5, "parse_tls_extension_status_request"),
        (10, "parse_tls_extension_elliptic_curves"), (11, "parse_tls_extension_ec_point_formats"), (13, "parse_tls_extension_signature_algorithms"),
        (15, "parse_tls_extension_heartbeat"), (22, "parse_tls_extension_encrypt_then_mac"), (23, "parse_tls_extension_extended_master_secret"),
        (35, "parse_tls_extension_session_ticket"), (41, "parse_tls_extension_pre_shared_key"), (42, "parse_tls_extension_early_data"),
        (43, "parse_tls_extension_supported_versions"), (44, "parse_tls_extension_cookie"), (45, "parse_tls_extension_psk_key_exchange_modes"),
        (51, "parse_tls_extension_key_share")];
    for (own, name) in tagp {
        let codes = (0..=65535u32).map(|ty| {
            let input = vec![(ty >> 8) as u8, ty as u8, 0, 1, 0];
            ext_code(&calls::call(name, &a, &input).unwrap(), ty, 1, true)
        });
        writeln!(out, "{}", json!({"kind": "tag", "own": own, "fn": name, "rle": rle_strings(codes)})).unwrap();
    }
    out.flush().unwrap();
    0
}
