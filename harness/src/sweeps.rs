//! Exhaustive integer sweeps of the compiled crate (impl -> spec, judged against the specification's tables).
use crate::calls::{self, Args};
use serde_json::{json, Value};
use std::io::{BufRead, BufReader, BufWriter, Write};

fn navigate<'a>(v: &'a Value, path: &str) -> Option<&'a Value> {
    let mut cur = v;
    for seg in path.split('.') {
        cur = match seg.parse::<usize>() {
            Ok(i) => cur.get(i)?,
            Err(_) => cur.get(seg)?,
        };
    }
    Some(cur)
}

fn lit(v: &Value) -> Vec<u8> {
    v.as_array().map(|a| a.iter().map(|x| x.as_u64().unwrap_or(0) as u8).collect()).unwrap_or_default()
}

/// sweep-sites <sites.ndjson> <out.ndjson>: every value of every site's field domain
pub fn cmd_sites(args: &[String]) -> i32 {
    let inp = BufReader::new(std::fs::File::open(&args[0]).expect("open"));
    let mut out = BufWriter::new(std::fs::File::create(&args[1]).expect("create"));
    for line in inp.lines() {
        let s: Value = serde_json::from_str(&line.unwrap()).expect("json");
        let name = s["fn"].as_str().unwrap_or("");
        let a = Args::from_json(s.get("a"));
        let (pre, suf) = (lit(&s["pre"]), lit(&s["suf"]));
        let w = s["w"].as_u64().unwrap_or(1) as usize;
        let path = s["path"].as_str().unwrap_or("");
        let domain: u32 = if w == 1 { 256 } else { 65536 };
        let mut okc = 0u32;
        let mut bad = Vec::new();
        for x in 0..domain {
            let mut input = pre.clone();
            if w == 2 { input.push((x >> 8) as u8); }
            input.push(x as u8);
            input.extend_from_slice(&suf);
            let o = calls::call(name, &a, &input);
            let got = o.as_ref().and_then(|o| if o.res["k"] == "ok" { navigate(&o.res["v"], path).cloned() } else { None });
            if got == Some(json!(x)) { okc += 1; } else if bad.len() < 8 {
                bad.push(json!({"x": x, "observed": o.map(|o| o.res).unwrap_or(Value::Null)}));
            }
        }
        writeln!(out, "{}", json!({"site": s["site"], "domain": domain, "ok": okc, "bad": bad})).unwrap();
    }
    out.flush().unwrap();
    0
}

/// sweep-ciphers <out.ndjson>: all 65536 ids through the four id routes; every registry name and
/// ~20 perturbations of each through the two name routes.
pub fn cmd_ciphers(args: &[String]) -> i32 {
    use core::convert::TryFrom;
    use tls_parser::{TlsCipherSuite, TlsCipherSuiteID, CIPHERS};
    let mut out = BufWriter::new(std::fs::File::create(&args[0]).expect("create"));
    let (mut present, mut absent, mut disagree) = (0u32, 0u32, 0u32);
    let mut names: Vec<String> = Vec::new();
    for id in 0..=65535u16 {
        let r1 = TlsCipherSuite::from_id(id);
        let r2 = <&TlsCipherSuite>::try_from(id).ok();
        let r3 = <&TlsCipherSuite>::try_from(TlsCipherSuiteID(id)).ok();
        let r4 = TlsCipherSuiteID(id).get_ciphersuite();
        let same = |a: Option<&'static TlsCipherSuite>, b: Option<&'static TlsCipherSuite>| match (a, b) {
            (None, None) => true,
            (Some(x), Some(y)) => core::ptr::eq(x, y) || x == y,
            _ => false,
        };
        let agree = same(r1, r2) && same(r1, r3) && same(r1, r4);
        if !agree { disagree += 1; }
        match r1.or(r2).or(r3).or(r4) {
            None => absent += 1,
            Some(c) => {
                present += 1;
                names.push(c.name.to_string());
                writeln!(out, "{}", json!({"kind": "row", "hex": format!("{:04x}", id), "name": c.name,
                    "kx": format!("{:?}", c.kx), "au": format!("{:?}", c.au), "enc": format!("{:?}", c.enc), "mode": format!("{:?}", c.enc_mode),
                    "bits": c.enc_size, "mac": format!("{:?}", c.mac), "macbits": c.mac_size, "prf": format!("{:?}", c.prf),
                    "keybytes": c.enc_key_size(),
                    "maclen": c.mac_length(), "blocksize": c.enc_block_size(),
                    "routes_agree": agree, "carries_id": c.id.0 == id})).unwrap();
            }
        }
    }
    let _ = CIPHERS.len();
    writeln!(out, "{}", json!({"kind": "summary", "present": present, "absent": absent, "route_disagreements": disagree, "map_len": CIPHERS.len()})).unwrap();
    // name queries
    let mut qs: Vec<String> = vec!["".into(), "TLS".into(), "TLS_".into(), "tls_null_with_null_null".into(), " ".into()];
    for (k, n) in names.iter().enumerate() {
        qs.push(n.clone());
        qs.push(n[..n.len() - 1].to_string());
        qs.push(n[1..].to_string());
        qs.push(format!("{}X", n));
        qs.push(format!("{} ", n));
        qs.push(format!(" {}", n));
        qs.push(n.to_lowercase());
        qs.push(format!("{}_SHA", n));
        qs.push(format!("{}_8", n));
        if let Some(p) = n.rfind('_') { qs.push(n[..p].to_string()); }
        let mut flipped: Vec<char> = n.chars().collect();
        let pos = (k * 7) % flipped.len();
        flipped[pos] = if flipped[pos].is_ascii_uppercase() { flipped[pos].to_ascii_lowercase() } else { flipped[pos].to_ascii_uppercase() };
        qs.push(flipped.into_iter().collect());
        qs.push(n.replace("_WITH_", "_"));
        qs.push(n.replace("128", "256"));
        qs.push(n.replace("SHA256", "SHA384"));
        qs.push(n.replace("TLS_", "SSL_"));
        qs.push(n.replace("_", "-"));
        qs.push(format!("{}\t", n));
        qs.push(n.replace("CBC", "GCM"));
        qs.push(n.replace("ECDHE", "ECDH"));
        qs.push(n.replace("DHE", "DH"));
    }
    qs.sort();
    qs.dedup();
    for s in &qs {
        let a = TlsCipherSuite::from_name(s).map(|c| format!("{:04x}", c.id.0)).unwrap_or_else(|| "none".into());
        let b = <&TlsCipherSuite>::try_from(s.as_str()).ok().map(|c| format!("{:04x}", c.id.0)).unwrap_or_else(|| "none".into());
        writeln!(out, "{}", json!({"kind": "name", "s": s, "from_name": a, "try_from": b})).unwrap();
    }
    out.flush().unwrap();
    eprintln!("sweep-ciphers: {} present, {} absent, {} name queries", present, absent, qs.len());
    0
}
