//! Exhaustive integer sweeps of the compiled crate (impl -> spec, judged against the specification's tables).
use crate::calls::{self, Args};
use serde_json::{json, Value};
use std::io::{BufRead, BufReader, BufWriter, Write};

fn navigate<'a>(v: &'a Value, path: &str) -> Option<&'a Value> {
    let mut cur = v;
    for seg in path.split('.') {
        cur = match seg.parse::<usize>() {
            Ok(i) => cur.get(i)?,
            Err(_) => cur.get(seg)?,
        };
    }
    Some(cur)
}

fn lit(v: &Value) -> Vec<u8> {
    v.as_array().map(|a| a.iter().map(|x| x.as_u64().unwrap_or(0) as u8).collect()).unwrap_or_default()
}

/// sweep-sites <sites.ndjson> <out.ndjson>: every value of every site's field domain
pub fn cmd_sites(args: &[String]) -> i32 {
    let inp = BufReader::new(std::fs::File::open(&args[0]).expect("open"));
    let mut out = BufWriter::new(std::fs::File::create(&args[1]).expect("create"));
    for line in inp.lines() {
        let s: Value = serde_json::from_str(&line.unwrap()).expect("json");
        let name = s["fn"].as_str().unwrap_or("");
        let a = Args::from_json(s.get("a"));
        let (pre, suf) = (lit(&s["pre"]), lit(&s["suf"]));
        let w = s["w"].as_u64().unwrap_or(1) as usize;
        let path = s["path"].as_str().unwrap_or("");
        let domain: u32 = if w == 1 { 256 } else { 65536 };
        let mut okc = 0u32;
        let mut bad = Vec::new();
        for x in 0..domain {
            let mut input = pre.clone();
            if w == 2 { input.push((x >> 8) as u8); }
            input.push(x as u8);
            input.extend_from_slice(&suf);
            let o = calls::call(name, &a, &input);
            let got = o.as_ref().and_then(|o| if o.res["k"] == "ok" { navigate(&o.res["v"], path).cloned() } else { None });
            if got == Some(json!(x)) { okc += 1; } else if bad.len() < 8 {
                bad.push(json!({"x": x, "observed": o.map(|o| o.res).unwrap_or(Value::Null)}));
            }
        }
        writeln!(out, "{}", json!({"site": s["site"], "domain": domain, "ok": okc, "bad": bad})).unwrap();
    }
    out.flush().unwrap();
    0
}
