INIT Init
NEXT Next
CONSTANT RangeMode = TRUE
INVARIANT Total
CHECK_DEADLOCK FALSE
