------------------------------- MODULE MC_C01 -------------------------------
(***************************************************************************)
(* C01, the model's share: TOTALITY of the specification - every decoder   *)
(* is evaluated on all byte strings of length <= 3 over an alphabet of     *)
(* structurally interesting bytes (a TLA+ evaluation error is the          *)
(* model-level analogue of a panic) - and the adversarial corpus of        *)
(* allocation-hostile inputs.  Each evaluation is emitted with the         *)
(* specification's answer and replayed on the compiled crate.              *)
(***************************************************************************)
EXTENDS Corpus, Emit

Alphabet == <<0, 1, 2, 3, 4, 10, 20, 22, 23, 24, 127, 255>>
Strings == <<<<>>>> \o [a \in 1..12 |-> <<Alphabet[a]>>]
           \o [k \in 1..144 |-> <<Alphabet[((k - 1) \div 12) + 1], Alphabet[((k - 1) % 12) + 1]>>]
           \o [k \in 1..1728 |-> <<Alphabet[((k - 1) \div 144) + 1], Alphabet[(((k - 1) \div 12) % 12) + 1], Alphabet[((k - 1) % 12) + 1]>>]
           \o (IF Thorough THEN [k \in 1..4096 |-> <<Alphabet[(((k - 1) \div 512) % 8) + 2], Alphabet[(((k - 1) \div 64) % 8) + 1],
                                                    Alphabet[(((k - 1) \div 8) % 8) + 5], Alphabet[((k - 1) % 8) + 1]>>] ELSE <<>>)
NS == Len(Strings)

Fns == <<
  "parse_tls_record_header", "parse_tls_plaintext", "parse_tls_encrypted", "parse_tls_raw_record", "tls_parser", "tls_parser_many",
  "parse_tls_record_with_header", "two_step", "fresh_parse_record", "parse_tls_message_changecipherspec", "parse_tls_message_alert",
  "parse_tls_message_applicationdata", "parse_tls_message_heartbeat", "parse_tls_message_handshake",
  "parse_tls_handshake_msg_hello_request", "parse_tls_handshake_client_hello", "parse_tls_handshake_msg_client_hello",
  "parse_tls_handshake_server_hello", "parse_tls_handshake_msg_server_hello", "parse_tls_handshake_msg_newsessionticket",
  "parse_tls_handshake_msg_hello_retry_request", "parse_tls_handshake_msg_certificate", "parse_tls_handshake_msg_serverkeyexchange",
  "parse_tls_handshake_msg_serverdone", "parse_tls_handshake_msg_certificateverify", "parse_tls_handshake_msg_clientkeyexchange",
  "parse_tls_handshake_certificaterequest", "parse_tls_handshake_msg_certificaterequest", "parse_tls_handshake_msg_finished",
  "parse_tls_handshake_certificatestatus", "parse_tls_handshake_msg_certificatestatus", "parse_tls_handshake_next_protocol",
  "parse_tls_handshake_msg_next_protocol", "parse_tls_handshake_msg_key_update",
  "parse_tls_extension_sni_hostname", "parse_tls_extension_sni_content", "parse_tls_extension_sni",
  "parse_tls_extension_max_fragment_length_content", "parse_tls_extension_max_fragment_length", "parse_tls_extension_status_request",
  "parse_tls_extension_elliptic_curves_content", "parse_tls_extension_elliptic_curves", "parse_tls_extension_ec_point_formats_content",
  "parse_tls_extension_ec_point_formats", "parse_tls_extension_signature_algorithms_content", "parse_tls_extension_signature_algorithms",
  "parse_tls_extension_heartbeat_content", "parse_tls_extension_heartbeat", "parse_tls_extension_alpn_content",
  "parse_tls_extension_signed_certificate_timestamp_content", "parse_tls_extension_encrypt_then_mac",
  "parse_tls_extension_extended_master_secret", "parse_tls_extension_session_ticket", "parse_tls_extension_key_share",
  "parse_tls_extension_pre_shared_key", "parse_tls_extension_early_data", "parse_tls_extension_supported_versions",
  "parse_tls_extension_cookie", "parse_tls_extension_psk_key_exchange_modes_content", "parse_tls_extension_psk_key_exchange_modes",
  "parse_tls_extension_renegotiation_info_content", "parse_tls_extension_encrypted_server_name", "parse_tls_extension_unknown",
  "parse_tls_client_hello_extension", "parse_tls_server_hello_extension", "parse_tls_extension", "parse_tls_client_hello_extensions",
  "parse_tls_server_hello_extensions", "parse_tls_extensions", "parse_dh_params", "parse_named_groups", "parse_ec_parameters",
  "parse_ecdh_params", "ECPoint::parse", "parse_digitally_signed_old", "parse_digitally_signed", "parse_content_and_signature",
  "parse_ct_signed_certificate_timestamp", "parse_ct_signed_certificate_timestamp_list", "parse_dtls_record_header",
  "parse_dtls_message_handshake", "parse_dtls_message_changecipherspec", "parse_dtls_message_alert", "parse_dtls_record_with_header",
  "parse_dtls_plaintext_record", "parse_dtls_plaintext_records", "TlsMessageAlert::parse" >>
NF == Len(Fns)

(* argument variants for the entry points that take more than the bytes *)
ArgsFor(fn, s) ==
  LET a == [NoArgs EXCEPT !.len = Len(s), !.ct = <<20, 21, 22, 23, 24, 0>>[((Len(s) + (IF s = <<>> THEN 0 ELSE s[1])) % 6) + 1], !.ver = 771,
                          !.ext = IF s # <<>> /\ s[1] % 2 = 1 THEN 1 ELSE 0, !.sub = <<"dh", "ecdh", "ec">>[(Len(s) % 3) + 1]]
  IN IF fn \in {"parse_tls_handshake_msg_newsessionticket", "parse_tls_message_heartbeat"} /\ s # <<>> /\ s[1] < 8
     THEN [a EXCEPT !.len = s[1]] ELSE a

(* allocation-hostile and cap-boundary inputs: [fn, a, parts] *)
Hostile ==
  [ty \in 1..17 |-> [fn |-> "parse_tls_message_handshake", a |-> NoArgs,
                     parts |-> <<Lit(<<<<0, 1, 2, 4, 5, 6, 11, 12, 13, 14, 15, 16, 20, 22, 24, 67, 99>>[ty], 255, 255, 255, 3, 3, 0, 0, 0, 0>>)>>]]
  \o << [fn |-> "parse_tls_plaintext", a |-> NoArgs, parts |-> <<Lit(<<20, 3, 3, 65, 0>>), RepPart(1, 16640)>>],
        [fn |-> "parse_tls_plaintext", a |-> NoArgs, parts |-> <<Lit(<<21, 3, 3, 65, 0>>), RepPart(1, 16640)>>],
        [fn |-> "parse_tls_plaintext", a |-> NoArgs, parts |-> <<Lit(<<22, 3, 3, 65, 0>>), RepPart(0, 16640)>>],
        [fn |-> "parse_tls_plaintext", a |-> NoArgs, parts |-> <<Lit(<<23, 3, 3, 65, 0>>), FillPart(3, 16640)>>],
        [fn |-> "parse_tls_plaintext", a |-> NoArgs, parts |-> <<Lit(<<22, 3, 3, 65, 1>>), FillPart(3, 16641)>>],
        [fn |-> "parse_tls_plaintext", a |-> NoArgs, parts |-> <<Lit(<<22, 3, 3, 255, 255>>), FillPart(3, 65540)>>],
        [fn |-> "parse_tls_raw_record", a |-> NoArgs, parts |-> <<Lit(<<22, 3, 3, 65, 0>>), FillPart(3, 16639)>>],
        [fn |-> "parse_dtls_plaintext_record", a |-> NoArgs, parts |-> <<Lit(<<21, 254, 253, 0, 0, 0, 0, 0, 0, 0, 0, 65, 0>>), RepPart(1, 16640)>>],
        [fn |-> "parse_dtls_plaintext_record", a |-> NoArgs, parts |-> <<Lit(<<20, 254, 253, 0, 0, 0, 0, 0, 0, 0, 0, 65, 0>>), RepPart(1, 16640)>>],
        [fn |-> "parse_tls_record_with_header", a |-> [NoArgs EXCEPT !.ct = 20, !.len = 65535], parts |-> <<RepPart(1, 65535)>>],
        [fn |-> "parse_tls_extensions", a |-> NoArgs, parts |-> <<RepPart(0, 16000)>>],
        [fn |-> "parse_tls_client_hello_extensions", a |-> NoArgs, parts |-> <<Lit(<<0, 16, 255, 252, 255, 250>>), RepPart(0, 65530)>>],
        [fn |-> "parse_ct_signed_certificate_timestamp_list", a |-> NoArgs, parts |-> <<Lit(<<255, 254>>), RepPart(0, 65534)>>],
        [fn |-> "parse_tls_handshake_msg_certificate", a |-> NoArgs, parts |-> <<Lit(<<0, 255, 252>>), RepPart(0, 65532)>>],
        [fn |-> "parse_tls_handshake_msg_certificaterequest", a |-> NoArgs, parts |-> <<Lit(<<0, 255, 250>>), RepPart(0, 65530), Lit(<<0, 0>>)>>],
        [fn |-> "parse_tls_handshake_client_hello", a |-> NoArgs, parts |-> <<Lit(<<3, 3>>), FillPart(1, 32), Lit(<<0, 255, 254>>), FillPart(2, 65534), Lit(<<255>>), FillPart(3, 255)>>] >>
  \o [k \in 1..3 |-> [fn |-> "tls_parser_many", a |-> NoArgs,
                      parts |-> [j \in 1..<<10, 500, 2000>>[k] |-> Lit(<<20, 3, 3, 0, 1, 1>>)]]]
NH == Len(Hostile)
(* valid but unusual values (Corpus.tla): decoded like any other, and formatted without incident *)
ASSUME TLCSet(5, CxCases)
Unusual == TLCGet(5)
NU == Len(Unusual)

N == NF * NS + NH + NU
VARIABLE i
Init == i = Chunk + 1 /\ i <= N
Next == i + NChunks <= N /\ i' = i + NChunks

CaseOf(j) ==
  IF j <= NF * NS
  THEN LET fn == Fns[((j - 1) \div NS) + 1]  s == Strings[((j - 1) % NS) + 1] IN [fn |-> fn, a |-> ArgsFor(fn, s), parts |-> <<Lit(s)>>]
  ELSE IF j <= NF * NS + NH THEN Hostile[j - NF * NS]
  ELSE Unusual[j - NF * NS - NH]

(* totality: the specification answers every input with one of the four outcome classes *)
Total ==
  LET c == CaseOf(i)  r == Apply(c.fn, c.a, Flatten(c.parts)) IN
  /\ r.k \in {"ok", "inc", "err", "fail"}
  /\ EmitLine(CaseLine(i, c.fn, c.a, c.parts, r, IF i > NF * NS THEN "full" ELSE "none", [kind |-> IF i > NF * NS + NH THEN "unusual" ELSE IF i > NF * NS THEN "hostile" ELSE "short"]))
=============================================================================
