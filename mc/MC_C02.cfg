INIT Init
NEXT Next
CONSTANT RangeMode = TRUE
INVARIANT HeaderExact
INVARIANT ExactConsumption
INVARIANT CapAlways
INVARIANT FramedUpToCap
INVARIANT IncompleteIff
INVARIANT NeededExact
INVARIANT TlsParserAlias
INVARIANT EmitCase
CHECK_DEADLOCK FALSE
