------------------------------- MODULE MC_C02 -------------------------------
(***************************************************************************)
(* C02 - TLS record framing: exact header decode, length cap, streaming    *)
(* contract.  Bounded exhaustive configuration + case emission.            *)
(***************************************************************************)
EXTENDS Calls, Emit

Fns == <<"parse_tls_plaintext", "parse_tls_encrypted", "parse_tls_raw_record">>

(* payload pool per content type (valid, malformed, empty) *)
Pool(ct) ==
  CASE ct = 20 -> {<<1>>, <<1, 1>>, <<2>>, <<>>}
    [] ct = 21 -> {<<1, 0>>, <<2, 40, 7, 255>>, <<1>>, <<>>}
    [] ct = 22 -> {<<0, 0, 0, 0>>, <<20, 0, 0, 2, 170, 187, 14, 0, 0, 0>>, <<14, 0, 0, 3, 1>>,
                   <<99, 0, 0, 1, 5>>, <<>>, <<24, 0, 0, 1, 0, 1, 0>>,
                   <<11, 0, 18, 52, 0, 18, 49, 0, 4, 48, 130, 1, 2>>,      \* the start of a Certificate continued in the next record
                   EncHs([t |-> "ClientHello", ver |-> 771, random |-> Fill(3, 32), sid |-> None, ciphers |-> <<47>>, comp |-> <<0>>, ext |-> None]),
                   EncHs([t |-> "ServerHello", ver |-> 771, random |-> Fill(4, 32), sid |-> None, cipher |-> 47, comp |-> 0, ext |-> None]) \o <<14, 0, 0, 0>>,
                   <<255, 255, 255, 255, 255, 255, 255, 255, 255, 255>>}
    [] ct = 23 -> {<<>>, <<1, 2, 3>>}
    [] ct = 24 -> {<<1, 0, 2, 170, 187>>, <<2, 0, 1, 7, 0, 0, 0>>, <<1, 0, 9>>, <<1, 0>>}
    [] OTHER   -> {<<>>, <<1, 2>>}

Types  == {20, 21, 22, 23, 24, 0, 255}
Trails == {<<>>, <<22>>, <<23, 3, 3, 0, 1, 9>>}

(* small records: every prefix cut of header ++ payload ++ trailing bytes *)
SmallSpecs ==
  UNION { UNION { UNION {
     { [ct |-> ct, ver |-> (IF ct = 22 THEN 771 ELSE IF ct = 0 THEN 4660 ELSE 769),
        len |-> Len(pl), wire |-> <<Lit(<<ct>> \o BE16(IF ct = 22 THEN 771 ELSE IF ct = 0 THEN 4660 ELSE 769)
                                        \o BE16(Len(pl)) \o pl \o tr)>>,
        total |-> 5 + Len(pl) + Len(tr), cut |-> k]
       : k \in 0..(5 + Len(pl) + Len(tr)) }
     : tr \in Trails } : pl \in Pool(ct) } : ct \in Types }

(* records whose declared length lies: longer / shorter than what follows *)
LyingSpecs ==
  { [ct |-> ct, ver |-> 769, len |-> dl, wire |-> <<Lit(<<ct>> \o BE16(769) \o BE16(dl) \o <<1, 0, 2, 170>>)>>,
     total |-> 9, cut |-> 9] : ct \in {21, 22, 23, 24, 7}, dl \in {0, 1, 3, 5, 200, 16640, 16641, 65535} }

(* the cap boundary, with real payloads *)
BigSpecs ==
  UNION {
    { [ct |-> ct, ver |-> 771, len |-> dl,
       wire |-> <<Lit(<<ct>> \o BE16(771) \o BE16(dl)),
                  IF ct = 20 THEN RepPart(1, dl) ELSE FillPart(dl % 251, dl), Lit(<<22, 3>>)>>,
       total |-> 5 + dl + 2, cut |-> k]
      : k \in {5, 6, 5 + dl - 1, 5 + dl, 5 + dl + 2} }
    : ct \in {20, 22, 23, 255}, dl \in {16639, 16640, 16641, 65535} }

(* a complete record followed by 2^16 - 1 .. 2^17 - 1 more bytes: what follows never matters, however much of it there is *)
LongTrailSpecs ==
  UNION { UNION {
    { [ct |-> ct, ver |-> 771, len |-> Len(pl), wire |-> <<Lit(<<ct>> \o BE16(771) \o BE16(Len(pl)) \o pl), RepPart(171, LongTails[t])>>,
       total |-> 5 + Len(pl) + LongTails[t], cut |-> 5 + Len(pl) + LongTails[t]] : t \in 1..Len(LongTails) }
    : pl \in {<<1, 2, 3>>, <<0, 0, 0, 0>>, Fill(3, 300)} } : ct \in {22, 23} }
  \cup { [ct |-> 23, ver |-> 771, len |-> 16640, wire |-> <<Lit(<<23>> \o BE16(771) \o BE16(16640)), FillPart(5, 16640), RepPart(171, LongTails[t])>>,
          total |-> 5 + 16640 + LongTails[t], cut |-> 5 + 16640 + LongTails[t]] : t \in 1..Len(LongTails) }
(* a header cut inside its length field, for every value of the byte that IS there: no verdict on a length that has not arrived *)
HeaderCutSpecs ==
  { [ct |-> ct, ver |-> 771, len |-> hi * 256 + 7, wire |-> <<Lit(<<ct>> \o BE16(771) \o BE16(hi * 256 + 7))>>, total |-> 5, cut |-> k]
    : ct \in {22, 255}, hi \in 0..255, k \in {3, 4} }
SpecsDef == SetToSeq(SmallSpecs \cup LyingSpecs \cup BigSpecs \cup LongTrailSpecs \cup HeaderCutSpecs)
ASSUME TLCSet(1, SpecsDef)
Specs == TLCGet(1)
N == Len(Specs) * 3

SpecOf(j) == Specs[((j - 1) \div 3) + 1]
FnOf(j)   == Fns[((j - 1) % 3) + 1]

VARIABLE i
Init == i = Chunk + 1 /\ i <= N
Next == i + NChunks <= N /\ i' = i + NChunks

Parts(s) == CutParts(s.wire, s.cut)
Bytes(s) == Flatten(Parts(s))
Res(j)   == Apply(FnOf(j), NoArgs, Bytes(SpecOf(j)))
Fed(s)   == Min2(s.cut, s.total)

Pin(s, r) ==
  IF Fed(s) < 5 THEN "inc"
  ELSE IF s.len > MaxRecordLen THEN "err_kind"
  ELSE IF Fed(s) < 5 + s.len THEN "inc_n"
  ELSE IF r.k = "ok" THEN "full" ELSE "reject"

-----------------------------------------------------------------------------
(* the property, as invariants over the explored cases *)
HeaderExact ==
  LET s == SpecOf(i) r == Res(i) IN
  r.k = "ok" => r.v.hdr = [ct |-> s.ct, ver |-> s.ver, len |-> s.len]

ExactConsumption ==
  LET s == SpecOf(i) r == Res(i) IN
  r.k = "ok" => /\ r.p = 5 + s.len
                /\ FnOf(i) = "parse_tls_raw_record" => r.v.data = Rng(5, s.len)
                /\ FnOf(i) = "parse_tls_encrypted"  => r.v.blob = Rng(5, s.len)

CapAlways ==
  LET s == SpecOf(i) r == Res(i) IN
  (Fed(s) >= 5 /\ s.len > MaxRecordLen) => (r.k = "err" /\ r.e = "TooLarge")

FramedUpToCap ==
  LET s == SpecOf(i) r == Res(i) IN
  (s.len <= MaxRecordLen /\ Fed(s) >= 5 + s.len /\ FnOf(i) # "parse_tls_plaintext") => r.k = "ok"

IncompleteIff ==
  LET s == SpecOf(i) r == Res(i) IN
  (Fed(s) < 5 \/ s.len <= MaxRecordLen) => (r.k = "inc" <=> Fed(s) < 5 + s.len)

NeededExact ==
  LET s == SpecOf(i) r == Res(i) IN
  (r.k = "inc" /\ Fed(s) >= 5) => r.n = 5 + s.len - Fed(s)

TlsParserAlias ==
  FnOf(i) = "parse_tls_plaintext" => Apply("tls_parser", NoArgs, Bytes(SpecOf(i))) = Res(i)

EmitCase ==
  LET s == SpecOf(i) r == Res(i) IN
  EmitLine(CaseLine(i, FnOf(i), NoArgs, Parts(s), r, Pin(s, r),
                    [ct |-> s.ct, len |-> s.len, cut |-> s.cut, total |-> s.total]))
=============================================================================
