INIT Init
NEXT Next
CONSTANT RangeMode = TRUE
INVARIANT ExactMessages
INVARIANT RemainderAtTail
INVARIANT NeverIncomplete
INVARIANT OneStepEqTwoStep
INVARIANT EmitCase
CHECK_DEADLOCK FALSE
