------------------------------- MODULE MC_C03 -------------------------------
(***************************************************************************)
(* C03 - a record's payload decodes to exactly its messages, in order.     *)
(***************************************************************************)
EXTENDS Calls, Emit

C == INSTANCE Calls WITH RangeMode <- FALSE

R32 == Fill(5, 32)
(* well-formed handshake messages (abstract values, content shape) *)
GoodHs == <<
  [t |-> "HelloRequest"],
  [t |-> "Finished", data |-> <<170, 187>>],
  [t |-> "ServerDone", data |-> <<>>],
  [t |-> "KeyUpdate", v |-> 1],
  [t |-> "ClientHello", ver |-> 771, random |-> R32, sid |-> None, ciphers |-> <<47, 49199>>,
                        comp |-> <<0>>, ext |-> None],
  [t |-> "ServerHello", ver |-> 769, random |-> R32, sid |-> Some(<<9, 8, 7>>), cipher |-> 53,
                        comp |-> 0, ext |-> Some(<<>>)],
  [t |-> "Certificate", chain |-> << <<48, 1>>, <<>> >>],
  [t |-> "NewSessionTicket", hint |-> <<1, 2>>, ticket |-> <<5>>],
  [t |-> "CertificateRequest", types |-> <<1>>, sigalgs |-> None, cas |-> <<>>],                      \* the pre-TLS 1.2 form, minimal
  [t |-> "CertificateRequest", types |-> <<1, 64>>, sigalgs |-> Some(<<1025>>), cas |-> << <<48, 0>> >>],
  [t |-> "CertificateStatus", st |-> 1, blob |-> <<7>>], [t |-> "Finished", data |-> <<1, 2, 3>>] >>

(* malformed, self-contained (consistent hl): bad wherever they stand *)
BadAnywhere == <<
  <<1, 0, 0, 41, 3, 3>> \o Fill(5, 32) \o <<0, 0, 3, 0, 47, 0, 1, 0>>,   \* ClientHello with an odd, in-bounds cipher list
  <<99, 0, 0, 1, 5>>,            \* unknown handshake type
  <<2, 0, 0, 2, 9, 9>>,          \* ServerHello, unsupported version: Tag
  <<1, 0, 0, 2, 3, 3>>,          \* ClientHello cut off by its declared length
  <<4, 0, 0, 3, 0, 0, 0>>,       \* NewSessionTicket shorter than 4
  (* messages that END at a field boundary, a mandatory field missing (the declared length is consistent with what is there) *)
  <<11, 0, 0, 5, 1, 170, 0, 0, 0>>, <<11, 0, 0, 14, 1, 170, 0, 0, 9, 0, 0, 4, 48, 1, 2, 3, 0, 0>>,   \* Certificate list beyond the body (bytes that read well in the RFC 8446 layout)
  <<67, 0, 0, 3, 2, 104, 50>>,   \* NextProtocol: the selected protocol, no padding field
  <<6, 0, 0, 2, 3, 4>>,          \* HelloRetryRequest: the version, no cipher suite
  <<22, 0, 0, 1, 1>>,            \* CertificateStatus: the type, no response length
  <<13, 0, 0, 2, 1, 1>>,         \* CertificateRequest: the certificate types, nothing else
  <<2, 0, 0, 35, 3, 3>> \o Fill(5, 32) \o <<0>>,    \* ServerHello: up to the session id, no cipher suite
  (* 24-bit lengths whose low 16 bits alone would fit: the message reaches far beyond any record *)
  <<14, 1, 0, 0>>, <<20, 1, 0, 2, 170, 187>>, <<24, 128, 0, 1, 0>>, <<0, 255, 0, 0>>, <<11, 2, 0, 3, 0, 0, 0>> >>
(* malformed only as the last thing in the payload (length reaches beyond it) *)
BadLast == << <<>>, <<14, 0, 0, 3, 1>>, <<20, 0>> >>

Item(m)  == [good |-> TRUE,  val |-> <<[t |-> "hs", m |-> m]>>, bytes |-> EncHs(m)]
BadItem(x) == [good |-> FALSE, val |-> <<>>, bytes |-> x]
HsItems  == [j \in 1..Len(GoodHs) |-> Item(GoodHs[j])] \o [j \in 1..Len(BadAnywhere) |-> BadItem(BadAnywhere[j])]

AlertItems == << [good |-> TRUE, val |-> <<[t |-> "alert", sev |-> 1, code |-> 0]>>, bytes |-> <<1, 0>>],
                 [good |-> TRUE, val |-> <<[t |-> "alert", sev |-> 2, code |-> 40]>>, bytes |-> <<2, 40>>],
                 [good |-> TRUE, val |-> <<[t |-> "alert", sev |-> 7, code |-> 255]>>, bytes |-> <<7, 255>>] >>
CcsItems == << [good |-> TRUE, val |-> <<[t |-> "ccs"]>>, bytes |-> <<1>>],
               [good |-> FALSE, val |-> <<>>, bytes |-> <<2>>],
               [good |-> FALSE, val |-> <<>>, bytes |-> <<0>>] >>

Seqs(items, maxn) == UNION { [1..n -> 1..Len(items)] : n \in 0..maxn }

(* a payload = items ++ tail; expected messages = the good prefix *)
GoodPrefix(items, idx) ==
  LET n == Len(idx)
      firstBad == IF \E j \in 1..n : ~items[idx[j]].good
                  THEN CHOOSE j \in 1..n : ~items[idx[j]].good /\ \A h \in 1..(j - 1) : items[idx[h]].good
                  ELSE n + 1
  IN SubSeq(idx, 1, firstBad - 1)
ValOf(items, idx)   == Concat([j \in 1..Len(idx) |-> items[idx[j]].val])
BytesOf(items, idx) == Concat([j \in 1..Len(idx) |-> items[idx[j]].bytes])

ListSpecs(ct, items, maxn, tails) ==
  { [ct |-> ct, payload |-> BytesOf(items, idx) \o tl,
     want |-> ValOf(items, GoodPrefix(items, idx)),
     wantp |-> Len(BytesOf(items, GoodPrefix(items, idx))),
     clean |-> (GoodPrefix(items, idx) = idx /\ tl = <<>>), kind |-> "list"]
    : idx \in Seqs(items, maxn), tl \in tails }

(* every truncation of a well-formed payload *)
CutSpecs(ct, items, idxs) ==
  UNION { LET full == BytesOf(items, idx) IN
          { LET fit == CHOOSE n \in 0..Len(idx) :
                         /\ Len(BytesOf(items, SubSeq(idx, 1, n))) <= k
                         /\ (n < Len(idx) => Len(BytesOf(items, SubSeq(idx, 1, n + 1))) > k)
            IN [ct |-> ct, payload |-> SubSeq(full, 1, k), want |-> ValOf(items, SubSeq(idx, 1, fit)),
                wantp |-> Len(BytesOf(items, SubSeq(idx, 1, fit))), clean |-> FALSE, kind |-> "cut"]
            : k \in 0..(Len(full) - 1) }
          : idx \in idxs }

HsSpecs ==
  ListSpecs(22, HsItems, IF Thorough THEN 3 ELSE 2, {BadLast[j] : j \in 1..Len(BadLast)})
  \cup (IF Thorough THEN CutSpecs(22, HsItems, {<<a, b>> : a \in 1..8, b \in 1..8}) ELSE {})
  \cup ListSpecs(22, SubSeq(HsItems, 1, 4) \o SubSeq(HsItems, 9, 10), 3, {<<>>})
  \cup CutSpecs(22, HsItems, {<<1, 2>>, <<2, 3, 4>>, <<5>>, <<6, 1>>, <<7, 8>>, <<3, 5>>})

(* heartbeat: one message with optional padding; application data: one blob *)
HbSpecs ==
  { [ct |-> 24, payload |-> <<ty>> \o BE16(Len(pay)) \o pay \o pad,
     want |-> <<[t |-> "hb", hbt |-> ty, plen |-> Len(pay), payload |-> pay]>>,
     wantp |-> 3 + Len(pay), clean |-> TRUE, kind |-> "hb"]
    : ty \in {1, 2, 77}, pay \in {<<>>, <<7>>, <<1, 2, 3>>},
      pad \in {<<>>, <<0>>, Fill(2, 16),
               (* padding is opaque, also when it looks like another heartbeat message or a record header *)
               <<1, 0, 0>>, <<2, 0, 1, 9>>, <<1, 0, 2, 5, 6, 2, 0, 0, 1, 0, 1, 7>>, <<24, 3, 3, 0, 3, 1, 0, 0>>, <<1, 0, 13>> \o Fill(3, 16)} }
  \cup { [ct |-> 24, payload |-> pl, want |-> <<>>, wantp |-> 0, clean |-> FALSE, kind |-> "hbbad"]
         : pl \in {<<>>, <<1>>, <<1, 0>>, <<1, 0, 1>>, <<1, 0, 9, 1, 2>>, <<2, 255, 255>>} }
AppSpecs ==
  { [ct |-> 23, payload |-> pl, want |-> <<[t |-> "app", blob |-> pl]>>, wantp |-> Len(pl), clean |-> TRUE, kind |-> "app"]
    : pl \in {<<>>, <<0>>, <<1, 2, 3>>, Fill(9, 300)} }
OtherSpecs ==
  { [ct |-> ct, payload |-> pl, want |-> <<>>, wantp |-> 0, clean |-> FALSE, kind |-> "unknownct"]
    : ct \in (0..255) \ {20, 21, 22, 23, 24}, pl \in {<<1>>} }
  \cup { [ct |-> ct, payload |-> pl, want |-> <<>>, wantp |-> 0, clean |-> FALSE, kind |-> "unknownct"]
         : ct \in {0, 19, 25, 255}, pl \in {<<>>, <<1, 0, 0, 0, 0>>} }

(* records packed with minimum-size messages up to the record-length cap (the count, not any length field, is extreme) *)
RepMsg(m, n) == [j \in 1..n |-> m]
CountSpecs == {
  [ct |-> 22, payload |-> Concat(RepMsg(<<0, 0, 0, 0>>, 4159)) \o <<14, 0, 0, 0>>,
   want |-> RepMsg([t |-> "hs", m |-> [t |-> "HelloRequest"]], 4159) \o <<[t |-> "hs", m |-> [t |-> "ServerDone", data |-> <<>>]]>>,
   wantp |-> 16640, clean |-> TRUE, kind |-> "count"],
  [ct |-> 21, payload |-> Concat(RepMsg(<<1, 0>>, 8319)) \o <<2, 40>>,
   want |-> RepMsg([t |-> "alert", sev |-> 1, code |-> 0], 8319) \o <<[t |-> "alert", sev |-> 2, code |-> 40]>>,
   wantp |-> 16640, clean |-> TRUE, kind |-> "count"],
  [ct |-> 20, payload |-> [j \in 1..16640 |-> 1], want |-> RepMsg([t |-> "ccs"], 16640), wantp |-> 16640, clean |-> TRUE, kind |-> "count"],
  [ct |-> 22, payload |-> Concat(RepMsg(<<0, 0, 0, 0>>, 4097)), want |-> RepMsg([t |-> "hs", m |-> [t |-> "HelloRequest"]], 4097),
   wantp |-> 16388, clean |-> TRUE, kind |-> "count"] }
(* well-formed payloads just above the record-length cap, whole: one-step and two-step parsing both refuse the record (TooLarge), *)
(* whatever its content type                                                                                                      *)
OversizeSpecs == {
  [ct |-> 23, payload |-> Fill(1, 16641), want |-> <<>>, wantp |-> 0, clean |-> FALSE, kind |-> "oversize"],
  [ct |-> 23, payload |-> Fill(2, 65535), want |-> <<>>, wantp |-> 0, clean |-> FALSE, kind |-> "oversize"],
  [ct |-> 22, payload |-> Concat(RepMsg(<<0, 0, 0, 0>>, 4161)), want |-> <<>>, wantp |-> 0, clean |-> FALSE, kind |-> "oversize"],
  [ct |-> 21, payload |-> Concat(RepMsg(<<1, 0>>, 8321)), want |-> <<>>, wantp |-> 0, clean |-> FALSE, kind |-> "oversize"],
  [ct |-> 20, payload |-> [j \in 1..16641 |-> 1], want |-> <<>>, wantp |-> 0, clean |-> FALSE, kind |-> "oversize"],
  [ct |-> 24, payload |-> <<1, 64, 254>> \o Fill(3, 16638), want |-> <<>>, wantp |-> 0, clean |-> FALSE, kind |-> "oversize"] }
SpecsDef == SetToSeq(HsSpecs \cup CountSpecs \cup OversizeSpecs
                  \cup ListSpecs(21, AlertItems, 3, {<<>>, <<1>>})
                  \cup ListSpecs(20, CcsItems, 3, {<<>>})
                  \cup HbSpecs \cup AppSpecs \cup OtherSpecs)
(* TLC does not cache this constant by itself: park it in a TLC register *)
ASSUME TLCSet(1, SpecsDef)
Specs == TLCGet(1)
Fns == <<"parse_tls_plaintext", "two_step", "parse_tls_record_with_header">>
N == Len(Specs) * 3
SpecOf(j) == Specs[((j - 1) \div 3) + 1]
FnOf(j)   == Fns[((j - 1) % 3) + 1]
VerOf(j)  == <<768, 771, 65277>>[(((j - 1) \div 3) % 3) + 1]

RecBytes(j) == LET s == SpecOf(j) IN EncRecordRaw(s.ct, VerOf(j), s.payload)
InBytes(j)  == IF FnOf(j) = "parse_tls_record_with_header" THEN SpecOf(j).payload ELSE RecBytes(j)
ArgsOf(j)   == IF FnOf(j) = "parse_tls_record_with_header"
               THEN [NoArgs EXCEPT !.ct = SpecOf(j).ct, !.ver = VerOf(j), !.len = Len(SpecOf(j).payload)]
               ELSE NoArgs

VARIABLES i, res, cres
Init == i = Chunk + 1 /\ i <= N /\ res = Apply(FnOf(i), ArgsOf(i), InBytes(i))
        /\ cres = C!Apply(FnOf(i), ArgsOf(i), InBytes(i))
Next == i + NChunks <= N /\ i' = i + NChunks /\ res' = Apply(FnOf(i'), ArgsOf(i'), InBytes(i'))
        /\ cres' = C!Apply(FnOf(i'), ArgsOf(i'), InBytes(i'))

Off(j) == IF FnOf(j) = "parse_tls_record_with_header" THEN 0 ELSE 5
MsgsOf(j, r) == IF FnOf(j) = "parse_tls_plaintext" THEN r.v.msg ELSE r.v

-----------------------------------------------------------------------------
(* ExactMessages + StopsAtFirstMalformed: the good prefix, in order, exact fields; *)
(* nothing when the first message is malformed, cut short, or the type is unknown  *)
ExactMessages ==
  LET s == SpecOf(i) IN
  IF s.kind = "oversize" THEN (FnOf(i) # "parse_tls_record_with_header" => (cres.k \in {"err", "fail"} /\ cres.e = "TooLarge"))   \* (the with-header entry point has no cap)
  ELSE IF s.want # <<>> THEN cres.k = "ok" /\ MsgsOf(i, cres) = s.want
  ELSE cres.k # "ok"

(* two-step parsing returns the undecoded tail as remainder; one-step consumes the record *)
RemainderAtTail ==
  LET s == SpecOf(i) IN
  res.k = "ok" => IF FnOf(i) = "parse_tls_plaintext" THEN res.p = 5 + Len(s.payload)
                  ELSE IF s.kind \in {"hb", "app", "oversize"} THEN TRUE
                  ELSE res.p = Off(i) + s.wantp

(* a complete record never answers Incomplete (one-step) *)
NeverIncomplete == FnOf(i) = "parse_tls_plaintext" => res.k # "inc"

(* one-step = two-step = with-header, on values and on class *)
OneStepEqTwoStep ==
  LET s == SpecOf(i)
      a == C!Apply("parse_tls_plaintext", NoArgs, RecBytes(i))
      b == C!Apply("two_step", NoArgs, RecBytes(i))
  IN FnOf(i) = "parse_tls_plaintext" =>
       /\ (a.k = "ok") = (b.k = "ok")
       /\ a.k = "ok" => a.v.msg = b.v

Pin == IF res.k = "ok" THEN "full"
       ELSE IF SpecOf(i).kind = "oversize" THEN "err_kind"
       ELSE IF FnOf(i) = "parse_tls_plaintext" THEN "reject" ELSE "novalue"

EmitCase ==
  LET s == SpecOf(i) IN
  EmitLine(CaseLine(i, FnOf(i), ArgsOf(i), <<Lit(InBytes(i))>>, res, Pin,
                    [ct |-> s.ct, kind |-> s.kind, plen |-> Len(s.payload)]))
=============================================================================
