INIT Init
NEXT Next
CONSTANT RangeMode = TRUE
INVARIANT OwnMessagesOwnHeader
INVARIANT EmitCase
CHECK_DEADLOCK FALSE
