----------------------------- MODULE MC_C03_Seq -----------------------------
(***************************************************************************)
(* C03 across record boundaries: a record's payload decodes to ITS OWN     *)
(* messages under ITS OWN header wherever the record sits in a chunk.      *)
(* Every ordered pair and triple of content types (one canonical record    *)
(* per type, two for handshake) through the multi-record entry point:      *)
(* element j of the result is what the one-shot parser returns for record  *)
(* j alone.                                                                *)
(***************************************************************************)
EXTENDS Calls, Emit
C == INSTANCE Calls WITH RangeMode <- FALSE
Recs == << EncRecordRaw(20, 771, <<1>>),
           EncRecordRaw(21, 771, <<2, 40>>),
           EncRecordRaw(22, 771, <<16, 0, 0, 2, 1, 2>>),
           EncRecordRaw(22, 769, <<14, 0, 0, 0, 20, 0, 0, 3, 7, 8, 9>>),
           EncRecordRaw(23, 771, <<5, 6, 7>>),
           EncRecordRaw(24, 771, <<1, 0, 1, 9>> \o Fill(3, 16)),
           EncRecordRaw(21, 768, <<1, 0>>) >>
NR == Len(Recs)
Seqs == SetToSeq({<<a, b>> : a \in 1..NR, b \in 1..NR} \cup {<<a, b, c>> : a \in 1..NR, b \in 1..NR, c \in 1..NR})
ASSUME TLCSet(1, Seqs)
Sq(j) == TLCGet(1)[j]
N == Len(TLCGet(1))
Bytes(j) == FoldLeft(LAMBDA acc, r : acc \o Recs[r], <<>>, Sq(j))
VARIABLES i, res, cres
Init == i = Chunk + 1 /\ i <= N /\ res = Apply("tls_parser_many", NoArgs, Bytes(i)) /\ cres = C!Apply("tls_parser_many", NoArgs, Bytes(i))
Next == i + NChunks <= N /\ i' = i + NChunks /\ res' = Apply("tls_parser_many", NoArgs, Bytes(i')) /\ cres' = C!Apply("tls_parser_many", NoArgs, Bytes(i'))
OwnMessagesOwnHeader ==
  /\ cres.k = "ok" /\ cres.p = Len(Bytes(i)) /\ Len(cres.v) = Len(Sq(i))
  /\ \A j \in 1..Len(Sq(i)) : cres.v[j] = C!Apply("parse_tls_plaintext", NoArgs, Recs[Sq(i)[j]]).v
EmitCase == EmitLine(CaseLine(i, "tls_parser_many", NoArgs, <<Lit(Bytes(i))>>, res, "full", [kind |-> "seq", types |-> Sq(i)]))
=============================================================================
