INIT Init
NEXT Next
CONSTANT RangeMode = TRUE
INVARIANT RoundTrip
INVARIANT PublicBodyParsers
INVARIANT Rejected
INVARIANT WithinDeclared
INVARIANT EmitCase
CHECK_DEADLOCK FALSE
