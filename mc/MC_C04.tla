------------------------------- MODULE MC_C04 -------------------------------
(***************************************************************************)
(* C04 - handshake messages decode to the values an RFC encoder wrote;     *)
(* structurally invalid ones fail.                                         *)
(***************************************************************************)
EXTENDS Corpus, Emit

C == INSTANCE Calls WITH RangeMode <- FALSE

R32 == Fill(11, 32)
Pick(opts, k) == opts[k]
Ix2(a, b) == SetToSeq({<<x1, x2>> : x1 \in 1..a, x2 \in 1..b})
Ix3(a, b, c) == SetToSeq({<<x1, x2, x3>> : x1 \in 1..a, x2 \in 1..b, x3 \in 1..c})
Ix5(a, b, c, d, e) == SetToSeq({<<x1, x2, x3, x4, x5>> : x1 \in 1..a, x2 \in 1..b, x3 \in 1..c, x4 \in 1..d, x5 \in 1..e})
MapSeq(ixs, F(_)) == [j \in 1..Len(ixs) |-> F(ixs[j])]

(* ---- value domains: per-field boundary sets *)
Sids     == <<None, Some(<<7>>), Some(Fill(3, 32))>>
ExtOpts  == <<None, Some(<<>>), Some(<<0, 23, 0, 0>>), Some(Fill(6, 300))>>
MagicVals == CxMagicHellos      \* Corpus.tla: the RFC 8446 magic randoms x corner-case extension blocks
LongChain(n) == [t |-> "Certificate", chain |-> [j \in 1..n |-> IF j % 97 = 0 THEN <<48, j % 256>> ELSE <<>>]]
CiphOpts == <<<<>>, <<47>>, <<1, 2, 65535>>>>
CompOpts == <<<<>>, <<0>>, Fill(1, 255)>>
ChVers   == <<768, 771, 772, 65277>>

ChIdx == Ix5(4, 3, 3, 3, 4)
MkCh(ix) == [t |-> "ClientHello", ver |-> ChVers[ix[1]], random |-> R32, sid |-> Sids[ix[2]],
             ciphers |-> CiphOpts[ix[3]], comp |-> CompOpts[ix[4]], ext |-> ExtOpts[ix[5]]]
BigCh == << [t |-> "ClientHello", ver |-> 771, random |-> R32, sid |-> None,
             ciphers |-> Pairs(Fill(4, 65534), 0, 65534), comp |-> <<0>>, ext |-> None],
            [t |-> "ClientHello", ver |-> 771, random |-> R32, sid |-> Some(Fill(3, 32)),
             ciphers |-> <<47>>, comp |-> <<0>>, ext |-> Some(Fill(8, 65535))] >>

ShVers == <<769, 770, 771>>
ShIdx == Ix5(3, 3, 2, 2, 3)
MkSh(ix) == [t |-> "ServerHello", ver |-> ShVers[ix[1]], random |-> R32, sid |-> Sids[ix[2]],
             cipher |-> <<0, 49199>>[ix[3]], comp |-> <<0, 255>>[ix[4]], ext |-> ExtOpts[ix[5]]]
Sh30Idx == Ix2(3, 2)
MkSh30(ix) == [t |-> "ServerHello", ver |-> 768, random |-> R32, sid |-> Sids[ix[1]],
               cipher |-> <<0, 53>>[ix[2]], comp |-> 0, ext |-> None]
D18Idx == Ix2(2, 3)
MkD18(ix) == [t |-> "ServerHelloV13Draft18", ver |-> 32530, random |-> R32,
              cipher |-> <<4865, 65535>>[ix[1]], ext |-> ExtOpts[ix[2]]]
HrrIdx == Ix3(2, 2, 3)
MkHrr(ix) == [t |-> "HelloRetryRequest", ver |-> <<772, 32530>>[ix[1]], cipher |-> <<4865, 0>>[ix[2]],
              ext |-> ExtOpts[ix[3]]]
NstIdx == Ix2(3, 5)
Blobs == <<<<>>, <<9>>, Fill(2, 255), Fill(3, 256), Fill(4, 65531)>>
MkNst(ix) == [t |-> "NewSessionTicket", hint |-> <<<<0, 0>>, <<1, 2>>, <<65535, 65535>>>>[ix[1]],
              ticket |-> Blobs[ix[2]]]
Chains == << <<>>, << <<48>> >>, << Fill(1, 300), <<>>, <<1, 2, 3>> >>, << <<>> >>, << Fill(5, 66000) >> >>
MkCert(k) == [t |-> "Certificate", chain |-> Chains[k]]
Opaque5 == <<<<>>, <<1>>, Fill(2, 255), Fill(3, 256), Fill(4, 65535)>>
OpaqueTags == <<"ServerDone", "CertificateVerify", "Finished">>
OpIdx == Ix2(3, 5)
MkOpaque(ix) == [t |-> OpaqueTags[ix[1]], data |-> Opaque5[ix[2]]]
MkSke(k) == [t |-> "ServerKeyExchange", params |-> Opaque5[k]]
MkCke(k) == [t |-> "ClientKeyExchange", kind |-> "Unknown", data |-> Opaque5[k]]
CrIdx == Ix3(3, 3, 3)
MkCr(ix) == [t |-> "CertificateRequest", types |-> <<<<>>, <<1>>, <<1, 2, 64>>>>[ix[1]],
             sigalgs |-> <<None, Some(<<>>), Some(<<1025, 1283>>)>>[ix[2]],
             cas |-> << <<>>, << <<48, 0>> >>, << <<48, 1, 5>>, <<>> >> >>[ix[3]]]
(* CA lists of MANY names, most of them empty (a name is a length-prefixed byte string of any size, zero included) *)
ManyNamesCr == [k \in 1..6 |-> [t |-> "CertificateRequest", types |-> <<1>>, sigalgs |-> IF k % 2 = 0 THEN None ELSE Some(<<1025>>),
                                  cas |-> [j \in 1..<<4, 5, 7, 40, 300, 9>>[k] |-> IF k = 6 /\ j = 2 THEN <<97>> ELSE IF k = 3 /\ j = 7 THEN <<48, 0>> ELSE <<>>]]]
CsIdx == Ix2(3, 3)
MkCs(ix) == [t |-> "CertificateStatus", st |-> <<0, 1, 255>>[ix[1]], blob |-> <<<<>>, <<1>>, Fill(7, 300)>>[ix[2]]]
NpIdx == Ix2(3, 3)
MkNp(ix) == [t |-> "NextProtocol", proto |-> <<<<>>, <<104>>, Fill(1, 255)>>[ix[1]],
             padding |-> <<<<>>, <<0, 0>>, Fill(2, 255)>>[ix[2]]]
MkKu(k) == [t |-> "KeyUpdate", v |-> <<0, 1, 255>>[k]]

(* opaque bodies stay opaque also when their bytes look like a structure (a u16-length-prefixed blob = a DH public value or *)
(* an RSA-encrypted premaster secret, a u8-prefixed EC point, nested handshake headers)                                   *)
LooksStructured == << <<0, 1, 17>>, BE16(64) \o Fill(6, 64), <<0, 0>>, <<1, 4>>, <<65>> \o Fill(7, 65), <<16, 0, 0, 3, 0, 1, 17>>, BE16(254) \o Fill(8, 254) >>
StructuredOpaque ==
  [k \in 1..Len(LooksStructured) |-> [t |-> "ClientKeyExchange", kind |-> "Unknown", data |-> LooksStructured[k]]]
  \o [k \in 1..Len(LooksStructured) |-> IF k % 4 = 0 THEN [t |-> "ServerKeyExchange", params |-> LooksStructured[k]]
                                         ELSE [t |-> <<"Finished", "CertificateVerify", "ServerDone">>[k % 4], data |-> LooksStructured[k]]]
ValsDef ==
  MapSeq(ChIdx, MkCh) \o BigCh \o MapSeq(ShIdx, MkSh) \o MapSeq(Sh30Idx, MkSh30)
  \o MapSeq(D18Idx, MkD18) \o MapSeq(HrrIdx, MkHrr) \o MapSeq(NstIdx, MkNst) \o [k \in 1..5 |-> MkCert(k)]
  \o MapSeq(OpIdx, MkOpaque) \o [k \in 1..5 |-> MkSke(k)] \o [k \in 1..5 |-> MkCke(k)]
  \o MapSeq(CrIdx, MkCr) \o ManyNamesCr \o MapSeq(CsIdx, MkCs) \o MapSeq(NpIdx, MkNp) \o [k \in 1..3 |-> MkKu(k)]
  \o << [t |-> "HelloRequest"], [t |-> "EndOfEarlyData"] >>
  \o MagicVals \o << LongChain(1024), LongChain(1025), LongChain(5000) >>
  \o StructuredOpaque
(* TLC does not cache constants whose definition uses parameterised function constructors: *)
(* park them in TLC registers (2 = values, 3 = their encodings, 1 = cases)                 *)
ASSUME TLCSet(2, ValsDef)
Vals == TLCGet(2)
ASSUME TLCSet(3, [j \in 1..Len(Vals) |-> [body |-> EncHsBody(Vals[j]), code |-> HsTypeCode(Vals[j])]])
BodyOf(j) == TLCGet(3)[j].body
CodeOf(j) == TLCGet(3)[j].code
EncOf(j)  == <<CodeOf(j)>> \o BE24(Len(BodyOf(j))) \o BodyOf(j)

(* the public body parser(s) of a variant *)
BodyFns(v) ==
  CASE v.t = "ClientHello" -> <<"parse_tls_handshake_msg_client_hello", "parse_tls_handshake_client_hello">>
    [] v.t = "ServerHello" -> <<"parse_tls_handshake_msg_server_hello", "parse_tls_handshake_server_hello">>
    [] v.t = "ServerHelloV13Draft18" -> <<"parse_tls_handshake_msg_server_hello">>
    [] v.t = "NewSessionTicket" -> <<"parse_tls_handshake_msg_newsessionticket">>
    [] v.t = "HelloRetryRequest" -> <<"parse_tls_handshake_msg_hello_retry_request">>
    [] v.t = "Certificate" -> <<"parse_tls_handshake_msg_certificate">>
    [] v.t = "ServerKeyExchange" -> <<"parse_tls_handshake_msg_serverkeyexchange">>
    [] v.t = "CertificateRequest" -> <<"parse_tls_handshake_msg_certificaterequest", "parse_tls_handshake_certificaterequest">>
    [] v.t = "ServerDone" -> <<"parse_tls_handshake_msg_serverdone">>
    [] v.t = "CertificateVerify" -> <<"parse_tls_handshake_msg_certificateverify">>
    [] v.t = "ClientKeyExchange" -> <<"parse_tls_handshake_msg_clientkeyexchange">>
    [] v.t = "Finished" -> <<"parse_tls_handshake_msg_finished">>
    [] v.t = "CertificateStatus" -> <<"parse_tls_handshake_msg_certificatestatus", "parse_tls_handshake_certificatestatus">>
    [] v.t = "NextProtocol" -> <<"parse_tls_handshake_msg_next_protocol", "parse_tls_handshake_next_protocol">>
    [] v.t = "KeyUpdate" -> <<"parse_tls_handshake_msg_key_update">>
    [] v.t = "HelloRequest" -> <<"parse_tls_handshake_msg_hello_request">>
    [] OTHER -> <<>>

Sfx == << <<>>, <<22>>, <<14, 0, 0, 0>>, <<1, 255, 255, 255, 3, 3>> >>

HsFn == "parse_tls_message_handshake"
(* a case: [kind, fn, len (argument), bytes, val (index into Vals or 0), extra (suffix length)] *)
MsgCases ==
  Concat([j \in 1..Len(Vals) |->
    LET enc == EncOf(j) big == Len(enc) > 2000 IN
    [s \in 1..(IF big THEN 2 ELSE 4) |->
      [kind |-> "enc", fn |-> HsFn, len |-> 0, bytes |-> enc \o Sfx[s], val |-> j, extra |-> Len(Sfx[s])]]])
BodyCases ==
  Concat([j \in 1..Len(Vals) |->
    LET body == BodyOf(j) fns == BodyFns(Vals[j]) IN
    [f \in 1..Len(fns) |-> [kind |-> "body", fn |-> fns[f], len |-> Len(body), bytes |-> body, val |-> j, extra |-> 0]]])

(* the body parsers that find their own end (no length argument), followed by bytes: value and consumption as the specification says *)
BodySfxCases ==
  Concat([j \in 1..Len(Vals) |->
    LET body == BodyOf(j) fns == BodyFns(Vals[j]) IN
    IF Len(body) > 400 \/ j % 2 = 1 THEN <<>> ELSE
    Concat([f \in 1..Len(fns) |->
      IF fns[f] \in {"parse_tls_handshake_msg_newsessionticket", "parse_tls_handshake_msg_serverkeyexchange", "parse_tls_handshake_msg_serverdone",
                     "parse_tls_handshake_msg_certificateverify", "parse_tls_handshake_msg_clientkeyexchange", "parse_tls_handshake_msg_finished"} THEN <<>>
      ELSE << [kind |-> "bodysfx", fn |-> fns[f], len |-> Len(body), bytes |-> body \o <<9>>, val |-> j, extra |-> 1],
              [kind |-> "bodysfx", fn |-> fns[f], len |-> Len(body), bytes |-> body \o <<0, 0, 1, 0, 0, 2>>, val |-> j, extra |-> 6] >>])])
SmallIdx == TLCGet(4)
(* every mandatory field cut off by a shortened hl: type, hl = k, the first k bytes of the body *)
CutCases ==
  Concat([q \in 1..Len(SmallIdx) |->
    LET j == SmallIdx[q] body == BodyOf(j) IN
    [k1 \in 1..Len(body) |->
      [kind |-> "cuthl", fn |-> HsFn, len |-> 0,
       bytes |-> <<CodeOf(j)>> \o BE24(k1 - 1) \o SubSeq(body, 1, k1 - 1), val |-> 0, extra |-> 0]]])
(* hl lies: 0, 1, true-1, true+1, max, with the whole body present *)
HlCases ==
  Concat([q \in 1..Len(SmallIdx) |->
    LET j == SmallIdx[q] body == BodyOf(j) n == Len(body)
        hls == <<0, 1, Max2(n - 1, 0), n + 1, 16777215, n + 65536, n + 256 * 65536, 65536>> IN
    [h \in 1..8 |-> [kind |-> "hl", fn |-> HsFn, len |-> 0,
                     bytes |-> <<CodeOf(j)>> \o BE24(hls[h]) \o body, val |-> 0, extra |-> 0]]])
(* a message followed by 2^16 - 1 .. 2^17 - 1 more bytes *)
LongTailCases ==
  Concat([q \in 1..3 |->
    LET j == SmallIdx[q * 3] enc == EncOf(j) IN
    [t \in 1..Len(LongTails) |-> [kind |-> "enc", fn |-> HsFn, len |-> 0, bytes |-> enc \o [h \in 1..LongTails[t] |-> 171], val |-> j, extra |-> LongTails[t]]]])

(* the property's rejection list *)
ChWith(sidBytes, ciphBytes, compBytes) ==
  LET body == BE16(771) \o R32 \o sidBytes \o ciphBytes \o compBytes IN <<1>> \o BE24(Len(body)) \o body
ShWith(ver, sidBytes) ==
  LET body == BE16(ver) \o R32 \o sidBytes \o BE16(47) \o <<0>> IN <<2>> \o BE24(Len(body)) \o body
Rejects == <<
  ChWith(<<33>> \o Fill(1, 33), BE16(2) \o <<0, 47>>, <<1, 0>>),            \* session id 33
  ChWith(<<255>> \o Fill(1, 255), BE16(2) \o <<0, 47>>, <<1, 0>>),          \* session id 255
  ChWith(<<0>>, BE16(3) \o <<0, 47, 0>>, <<1, 0>>),                         \* odd cipher list
  ChWith(<<0>>, BE16(1) \o <<0>>, <<1, 0>>),                                \* odd cipher list (1)
  ChWith(<<0>>, BE16(6) \o <<0, 47>>, <<>>),                                \* cipher list beyond the body
  ChWith(<<0>>, BE16(65534) \o <<0, 47>>, <<1, 0>>),                        \* cipher list far beyond the body
  ChWith(<<0>>, BE16(2) \o <<0, 47>>, <<2, 0>>),                            \* compression list beyond the body
  ChWith(<<0>>, BE16(2) \o <<0, 47>>, <<255, 0, 1>>),                       \* compression list beyond the body
  ShWith(771, <<33>> \o Fill(1, 33)),                                       \* ServerHello session id 33
  ShWith(772, <<0>>), ShWith(512, <<0>>), ShWith(65277, <<0>>), ShWith(32531, <<0>>), ShWith(0, <<0>>),
  <<4, 0, 0, 0>>, <<4, 0, 0, 1, 7>>, <<4, 0, 0, 3, 1, 2, 3>>,              \* NewSessionTicket shorter than 4
  <<11, 0, 0, 3, 0, 0, 1>>, <<11, 0, 0, 4, 0, 0, 9, 48>>,                   \* certificate list longer than the body
  <<11, 0, 0, 2, 0, 0>>,                                                    \* certificate list length cut
  (* ... also when the same bytes happen to be a Certificate in ANOTHER layout (RFC 8446: a request context, then entries each followed by *)
  (* an extension block): a list length beyond the body is a list length beyond the body                                              *)
  <<11, 0, 0, 5, 1, 170, 0, 0, 0>>, <<11, 0, 0, 14, 1, 170, 0, 0, 9, 0, 0, 4, 48, 1, 2, 3, 0, 0>>,
  <<11, 0, 0, 15, 2, 1, 2, 0, 0, 9, 0, 0, 4, 48, 1, 2, 3, 0, 0>>,
  <<22, 0, 0, 4, 1, 0, 0, 1>>, <<22, 0, 0, 5, 1, 0, 0, 9, 7>>,              \* status blob longer than the body
  <<22, 0, 0, 3, 1, 0, 0>>,
  <<67, 0, 0, 2, 5, 1>>, <<67, 0, 0, 1, 0>>, <<24, 0, 0, 0>>,               \* next protocol / key update cut
  <<13, 0, 0, 1, 2>>, <<13, 0, 0, 3, 1, 1, 0>>, <<6, 0, 0, 3, 3, 4, 19>>,  \* certificate request / HRR cut
  <<13, 0, 0, 1, 0>>, <<13, 0, 0, 2, 1, 64>>, <<13, 0, 0, 4, 3, 1, 2, 64>>, \* certificate request ending right after its certificate types
  <<13, 0, 0, 4, 1, 1, 0, 2>>, <<13, 0, 0, 3, 0, 0, 5>>
  >>
RejectCases == [j \in 1..Len(Rejects) |->
  [kind |-> "reject", fn |-> HsFn, len |-> 0, bytes |-> Rejects[j], val |-> 0, extra |-> 0]]
UnknownTypeCases ==
  LET us == SetToSeq((0..255) \ KnownHandshakeTypes) IN
  [j \in 1..Len(us) |-> [kind |-> "reject", fn |-> HsFn, len |-> 0,
                         bytes |-> <<us[j], 0, 0, 2, 3, 3>>, val |-> 0, extra |-> 0]]

(* a per-certificate length reaching beyond the list: the list stops there (many0) *)
LenientCases == <<
  [kind |-> "lenient", fn |-> HsFn, len |-> 0, bytes |-> <<11, 0, 0, 8, 0, 0, 5, 0, 0, 1, 48, 0>>, val |-> 0, extra |-> 0],
  [kind |-> "lenient", fn |-> HsFn, len |-> 0, bytes |-> <<11, 0, 0, 9, 0, 0, 6, 0, 0, 1, 48, 0, 0>>, val |-> 0, extra |-> 0] >>

(* body parsers that take the declared length as an argument: the argument, not the buffer, bounds what is read *)
LenFns == <<"parse_tls_handshake_msg_newsessionticket", "parse_tls_handshake_msg_serverkeyexchange", "parse_tls_handshake_msg_serverdone",
            "parse_tls_handshake_msg_certificateverify", "parse_tls_handshake_msg_clientkeyexchange", "parse_tls_handshake_msg_finished">>
LenArgCases ==
  Concat([f \in 1..Len(LenFns) |->
    Concat([l \in 1..8 |->
      [k \in 1..10 |-> [kind |-> "lenarg", fn |-> LenFns[f], len |-> l - 1, bytes |-> Fill(f + l, k - 1), val |-> 0, extra |-> 0]]])])
ASSUME TLCSet(4, SelectSeq([j \in 1..Len(Vals) |-> j], LAMBDA j : Len(BodyOf(j)) <= (IF Thorough THEN 400 ELSE 120) /\ (Thorough \/ j % 3 = 0)))
ASSUME TLCSet(1, MsgCases \o LongTailCases \o LenArgCases \o BodySfxCases \o BodyCases \o CutCases \o HlCases \o RejectCases \o UnknownTypeCases \o LenientCases)
Cases == TLCGet(1)
V(j) == TLCGet(2)[j]
N == Len(Cases)

ArgsOf(c) == [NoArgs EXCEPT !.len = c.len]
VARIABLES i, res
Init == i = Chunk + 1 /\ i <= N /\ res = Apply(Cases[i].fn, ArgsOf(Cases[i]), Cases[i].bytes)
Next == i + NChunks <= N /\ i' = i + NChunks
        /\ res' = Apply(Cases[i'].fn, ArgsOf(Cases[i']), Cases[i'].bytes)

-----------------------------------------------------------------------------
(* RoundTrip + locality: what an RFC encoder wrote decodes to exactly that value,    *)
(* consuming 4 + hl bytes, whatever follows                                          *)
RoundTrip ==
  LET c == Cases[i] IN
  c.kind = "enc" =>
    LET r == C!Apply(c.fn, ArgsOf(c), c.bytes) IN
    /\ r.k = "ok" /\ r.v = [t |-> "hs", m |-> V(c.val)]
    /\ r.p = Len(c.bytes) - c.extra
    /\ res.k = "ok" /\ res.p = r.p
    /\ res = Apply(c.fn, ArgsOf(c), SubSeq(c.bytes, 1, Len(c.bytes) - c.extra))   \* Local

(* each public body parser agrees with the body part of the message parser *)
PublicBodyParsers ==
  LET c == Cases[i] IN
  c.kind = "body" =>
    LET r == C!Apply(c.fn, ArgsOf(c), c.bytes) IN
    r.k = "ok" /\ r.v = V(c.val) /\ r.p = (IF V(c.val).t = "HelloRequest" THEN 0 ELSE Len(c.bytes))

(* the rejection list yields no value *)
Rejected == Cases[i].kind = "reject" => res.k # "ok"

(* a complete prefix of the declared length never reads beyond it: cutting hl either *)
(* fails or yields a value whose slices end inside the shortened body               *)
WithinDeclared ==
  LET c == Cases[i] IN
  (c.kind \in {"cuthl", "hl"} /\ res.k = "ok") =>
     res.p = 4 + (c.bytes[2] * 65536 + c.bytes[3] * 256 + c.bytes[4])

Pin ==
  LET c == Cases[i] IN
  IF c.kind \in {"enc", "body"} \/ (c.kind \in {"lenarg", "bodysfx"} /\ res.k = "ok") THEN "full"
  (* a malformed but COMPLETE message is an error, not a request for more bytes (a caller would wait, a defragmenter buffer): *)
  (* where the specification answers with an error the class is pinned, not only the absence of a value                       *)
  ELSE IF res.k \in {"err", "fail"} THEN "reject"
  ELSE IF res.k # "ok" THEN "novalue" ELSE "none"

EmitCase ==
  LET c == Cases[i] IN
  EmitLine(CaseLine(i, c.fn, ArgsOf(c),
                    IF Len(c.bytes) > 3000 /\ c.kind = "enc" /\ FALSE THEN <<>> ELSE <<Lit(c.bytes)>>,
                    res, Pin, [kind |-> c.kind, n |-> Len(c.bytes)]))
=============================================================================
