----------------------------- MODULE MC_C04_Rand -----------------------------
(***************************************************************************)
(* Seeded, structurally random handshake values: every field drawn from    *)
(* its WHOLE domain (not a boundary set), list counts from 0 to dozens,    *)
(* opaque fields of arbitrary sizes and contents, extension blocks made of *)
(* well-formed typed extensions in arbitrary order - the combinations the  *)
(* per-field boundary grids of MC_C04 do not contain.  For each value the  *)
(* RFC encoding is decoded by the specification (RoundTrip, Local) and the *)
(* case replayed on the crate, alone (parse_tls_message_handshake) and     *)
(* inside a record of 1..3 such messages (parse_tls_plaintext).            *)
(* Deterministic in (VERIF_SEED, case index).                              *)
(***************************************************************************)
EXTENDS Calls, Emit
C == INSTANCE Calls WITH RangeMode <- FALSE
Seed == IF "VERIF_SEED" \in DOMAIN IOEnv THEN atoi(IOEnv.VERIF_SEED) ELSE 1
N == IF Thorough THEN 24000 ELSE 1800

(* a small hash: all intermediate values stay below 2^31 *)
H(s, k) == ((((s % 30011) * 211 + (k % 5000) * 7919 + 13) % 65521) * 31 + (s \div 30011) * 17 + (k \div 5000)) % 65521
Bs(s, k, n) == [j \in 1..n |-> H(s, k + 3 * j) % 256]
W16(s, k) == (H(s, k) * 7 + H(s, k + 1)) % 65536
(* sizes: mostly small, sometimes a few hundred, rarely thousands *)
Size(s, k) == LET r == H(s, k) % 16 IN IF r < 9 THEN H(s, k + 1) % 8 ELSE IF r < 13 THEN H(s, k + 1) % 70 ELSE IF r < 15 THEN H(s, k + 1) % 600 ELSE H(s, k + 1) % 5000

(* typed extensions, well formed, so that the block also decodes in depth *)
ExtPool == << <<0, 23, 0, 0>>, <<0, 22, 0, 0>>, <<0, 0, 0, 6, 0, 4, 0, 0, 1, 97>>, <<0, 10, 0, 6, 0, 4, 0, 23, 0, 29>>, <<0, 11, 0, 2, 1, 0>>,
             <<0, 13, 0, 6, 0, 4, 4, 3, 8, 4>>, <<0, 16, 0, 5, 0, 3, 2, 104, 50>>, <<0, 35, 0, 0>>, <<0, 35, 0, 3, 1, 2, 3>>, <<0, 43, 0, 3, 2, 3, 4>>,
             <<0, 45, 0, 2, 1, 1>>, <<0, 51, 0, 6, 0, 4, 0, 29, 0, 0>>, <<255, 1, 0, 1, 0>>, <<10, 10, 0, 0>>, <<0, 21, 0, 3, 0, 0, 0>>, <<0, 5, 0, 5, 1, 0, 0, 0, 0>>,
             <<0, 1, 0, 1, 2>>, <<0, 15, 0, 1, 1>>, <<0, 18, 0, 0>>, <<253, 232, 0, 2, 7, 7>> >>
ExtBlock(s, k) ==
  LET r == H(s, k) % 5 IN
  IF r = 0 THEN None
  ELSE IF r = 1 THEN Some(Bs(s, k + 1, Size(s, k + 2) % 300))            \* arbitrary bytes: opaque at this level
  ELSE Some(FoldLeft(LAMBDA acc, j : acc \o ExtPool[(H(s, k + 10 + j) % Len(ExtPool)) + 1], <<>>, [j \in 1..(H(s, k + 3) % 9) |-> j]))
Sid(s, k) == IF H(s, k) % 3 = 0 THEN None ELSE Some(Bs(s, k + 1, 1 + (H(s, k + 2) % 32)))
Rand32(s, k) == LET r == H(s, k) % 6 IN IF r = 0 THEN HrrRandom ELSE IF r = 1 THEN Bs(s, k + 1, 24) \o Downgrade12 ELSE Bs(s, k + 1, 32)

Gen(s) ==
  LET kind == H(s, 1) % 17 IN
  CASE kind = 0 -> [t |-> "ClientHello", ver |-> W16(s, 2), random |-> Rand32(s, 3), sid |-> Sid(s, 4),
                    ciphers |-> [j \in 1..(Size(s, 5) % 400) |-> W16(s, 20 + 2 * j)], comp |-> Bs(s, 6, H(s, 7) % 5), ext |-> ExtBlock(s, 8)]
    [] kind = 1 -> [t |-> "ClientHello", ver |-> <<768, 769, 771, 772, 65277>>[(H(s, 2) % 5) + 1], random |-> Rand32(s, 3), sid |-> Sid(s, 4),
                    ciphers |-> [j \in 1..(1 + (H(s, 5) % 40)) |-> <<47, 53, 4865, 4866, 49199, 255, 2570, 0, 65535>>[(H(s, 20 + j) % 9) + 1]],
                    comp |-> <<0>>, ext |-> ExtBlock(s, 8)]
    [] kind = 2 -> [t |-> "ServerHello", ver |-> <<769, 770, 771>>[(H(s, 2) % 3) + 1], random |-> Rand32(s, 3), sid |-> Sid(s, 4),
                    cipher |-> W16(s, 5), comp |-> H(s, 6) % 256, ext |-> ExtBlock(s, 8)]
    [] kind = 3 -> [t |-> "ServerHelloV13Draft18", ver |-> 32530, random |-> Rand32(s, 3), cipher |-> W16(s, 5), ext |-> ExtBlock(s, 8)]
    [] kind = 4 -> [t |-> "HelloRetryRequest", ver |-> W16(s, 2), cipher |-> W16(s, 5), ext |-> ExtBlock(s, 8)]
    [] kind = 5 -> [t |-> "NewSessionTicket", hint |-> <<W16(s, 2), W16(s, 4)>>, ticket |-> Bs(s, 6, Size(s, 7))]
    [] kind = 6 -> [t |-> "Certificate", chain |-> [j \in 1..(H(s, 2) % 7) |-> Bs(s, 10 * j, Size(s, 3 + j) % 1200)]]
    [] kind = 7 -> [t |-> "ServerKeyExchange", params |-> Bs(s, 2, Size(s, 3))]
    [] kind = 8 -> [t |-> "CertificateRequest", types |-> Bs(s, 2, H(s, 3) % 6),
                    sigalgs |-> Some([j \in 1..(H(s, 5) % 12) |-> W16(s, 30 + 2 * j)]),
                    cas |-> [j \in 1..(H(s, 6) % 5) |-> Bs(s, 50 + 10 * j, Size(s, 7 + j) % 300)]]
    [] kind = 9 -> [t |-> "ServerDone", data |-> Bs(s, 2, IF H(s, 3) % 3 = 0 THEN 0 ELSE Size(s, 4))]
    [] kind = 10 -> [t |-> "CertificateVerify", data |-> Bs(s, 2, Size(s, 3))]
    [] kind = 11 -> [t |-> "ClientKeyExchange", kind |-> "Unknown", data |-> Bs(s, 2, Size(s, 3))]
    [] kind = 12 -> [t |-> "Finished", data |-> Bs(s, 2, <<12, 32, 36, 48, 64, 65, 100>>[(H(s, 3) % 7) + 1] + (IF H(s, 4) % 5 = 0 THEN Size(s, 5) ELSE 0))]
    [] kind = 13 -> [t |-> "CertificateStatus", st |-> H(s, 2) % 256, blob |-> Bs(s, 3, Size(s, 4))]
    [] kind = 14 -> [t |-> "NextProtocol", proto |-> Bs(s, 2, H(s, 3) % 256), padding |-> Bs(s, 4, H(s, 5) % 256)]
    [] kind = 15 -> [t |-> "KeyUpdate", v |-> H(s, 2) % 256]
    [] OTHER -> IF H(s, 2) % 2 = 0 THEN [t |-> "HelloRequest"] ELSE [t |-> "EndOfEarlyData"]

ValOf(c) == Gen((Seed % 1000) * 100003 + c)
(* odd cases: the message alone with a suffix; even cases: a record of 1..3 messages (the case's value, then the next ones) *)
InRecord(c) == c % 2 = 0
MsgsOf(c) == IF InRecord(c) THEN [j \in 1..(1 + (H(c, 3) % 3)) |-> ValOf(c + 2 * (j - 1))] ELSE <<ValOf(c)>>
Sfx(c) == <<<<>>, <<0>>, <<22, 3, 3, 0, 0>>, <<1, 0, 0, 0>>>>[(H(c, 5) % 4) + 1]
Payload(c) == FoldLeft(LAMBDA acc, v : acc \o EncHs(v), <<>>, MsgsOf(c))
Fits(c) == Len(Payload(c)) <= 16384
(* every third case: 1..4 records - the case's handshake record and random neighbours of the other content types - through the *)
(* multi-record entry point                                                                                                  *)
Others == << EncRecordRaw(20, 771, <<1>>), EncRecordRaw(21, 771, <<1, 0>>), EncRecordRaw(21, 769, <<2, 40, 1, 90>>), EncRecordRaw(23, 771, <<5, 6, 7>>),
            EncRecordRaw(24, 771, <<1, 0, 1, 9>> \o Fill(3, 16)), EncRecordRaw(23, 772, <<>>) >>
IsMany(c) == c % 3 = 2 /\ InRecord(c - 2) /\ Fits(c - 2)
ManyBytes(c) ==
  LET own == EncRecordRaw(22, 771, Payload(c - 2)) IN
  FoldLeft(LAMBDA acc, j : acc \o (IF j = 1 + (H(c, 11) % 3) THEN own ELSE Others[(H(c, 12 + j) % Len(Others)) + 1]), <<>>, [j \in 1..(1 + (H(c, 10) % 4)) |-> j])
  \o (IF 1 + (H(c, 11) % 3) > 1 + (H(c, 10) % 4) THEN own ELSE <<>>)
BytesOf(c) == IF IsMany(c) THEN ManyBytes(c) ELSE IF InRecord(c) THEN (IF Fits(c) THEN EncRecordRaw(22, <<769, 771, 772>>[(H(c, 7) % 3) + 1], Payload(c)) ELSE EncHs(ValOf(c))) \o Sfx(c)
              ELSE EncHs(ValOf(c)) \o Sfx(c)
FnOf(c) == IF IsMany(c) THEN "tls_parser_many" ELSE IF InRecord(c) /\ Fits(c) THEN "parse_tls_plaintext" ELSE "parse_tls_message_handshake"

VARIABLES i, res
Init == i = Chunk + 1 /\ i <= N /\ res = Apply(FnOf(i), NoArgs, BytesOf(i))
Next == i + NChunks <= N /\ i' = i + NChunks /\ res' = Apply(FnOf(i'), NoArgs, BytesOf(i'))

(* the decoder returns the value the encoder wrote, consumes exactly the encoding, and what follows does not matter *)
RandRoundTrip ==
  LET r == C!Apply(FnOf(i), NoArgs, BytesOf(i))  n == Len(BytesOf(i)) - (IF IsMany(i) THEN 0 ELSE Len(Sfx(i))) IN
  /\ r.k = "ok" /\ r.p = n /\ res.k = "ok" /\ res.p = n
  /\ IF IsMany(i)
     THEN \E j \in 1..Len(r.v) : r.v[j].msg = [q \in 1..Len(MsgsOf(i - 2)) |-> [t |-> "hs", m |-> MsgsOf(i - 2)[q]]]      \* the handshake record came back whole, wherever it sat
     ELSE IF FnOf(i) = "parse_tls_plaintext"
     THEN r.v.msg = [j \in 1..Len(MsgsOf(i)) |-> [t |-> "hs", m |-> MsgsOf(i)[j]]] /\ r.v.hdr.len = Len(Payload(i))
     ELSE r.v = [t |-> "hs", m |-> ValOf(i)]
  /\ res = Apply(FnOf(i), NoArgs, SubSeq(BytesOf(i), 1, n))
EmitCase == EmitLine(CaseLine(i, FnOf(i), NoArgs, <<Lit(BytesOf(i))>>, res, "full", [kind |-> "rand", t |-> IF IsMany(i) THEN "many" ELSE ValOf(i).t]))
=============================================================================
