INIT Init
NEXT Next
CONSTANT RangeMode = TRUE
INVARIANT U24Exact
INVARIANT EmitCase
CHECK_DEADLOCK FALSE
