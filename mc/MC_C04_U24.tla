------------------------------ MODULE MC_C04_U24 ------------------------------
(***************************************************************************)
(* C04 at the u24 maxima: handshake messages whose 24-bit length is        *)
(* 2^24-1 (16 MiB bodies).  The input is a lazily defined function - TLC   *)
(* never materialises it, the decoders only apply it where they look -     *)
(* and is described to the harness as (literal header, filler).            *)
(***************************************************************************)
EXTENDS Calls, Emit
Max24 == 16777215
(* [lit, base, step, n]: the bytes are lit followed by the progression *)
Lazy(c) == [j \in 1..(Len(c.lit) + c.n) |-> IF j <= Len(c.lit) THEN c.lit[j] ELSE (c.base + (j - Len(c.lit) - 1) * c.step) % 256]
Mk(lit, n, want) == [lit |-> lit, base |-> 93, step |-> 7, n |-> n, want |-> want]
Hd(ty) == <<ty, 255, 255, 255>>
Cases == <<
  Mk(Hd(12), Max24, [t |-> "ServerKeyExchange", params |-> Rng(4, Max24)]),
  Mk(Hd(14), Max24, [t |-> "ServerDone", data |-> Rng(4, Max24)]),
  Mk(Hd(15), Max24, [t |-> "CertificateVerify", data |-> Rng(4, Max24)]),
  Mk(Hd(16), Max24, [t |-> "ClientKeyExchange", kind |-> "Unknown", data |-> Rng(4, Max24)]),
  Mk(Hd(20), Max24, [t |-> "Finished", data |-> Rng(4, Max24)]),
  Mk(Hd(4) \o <<1, 2, 3, 4>>, Max24 - 4, [t |-> "NewSessionTicket", hint |-> <<258, 772>>, ticket |-> Rng(8, Max24 - 4)]),
  Mk(Hd(22) \o <<1, 255, 255, 251>>, Max24 - 4, [t |-> "CertificateStatus", st |-> 1, blob |-> Rng(8, Max24 - 4)]),
  Mk(Hd(11) \o <<255, 255, 252, 255, 255, 249>>, Max24 - 6, [t |-> "Certificate", chain |-> <<Rng(10, Max24 - 6)>>]),
  (* one byte short of the declared length: Incomplete(1); one byte more: the same value, one byte of remainder *)
  Mk(Hd(20), Max24 - 1, [t |-> "short"]),
  Mk(Hd(20), Max24 + 1, [t |-> "Finished", data |-> Rng(4, Max24)]) >>
N == Len(Cases)
VARIABLES i, res
Run(c) == ApplyN("parse_tls_message_handshake", NoArgs, Lazy(c), Len(c.lit) + c.n)
Init == i = 1 /\ res = Run(Cases[1])
Next == i < N /\ i' = i + 1 /\ res' = Run(Cases[i'])
U24Exact ==
  LET c == Cases[i] IN
  IF c.want.t = "short" THEN res = Inc(1)
  ELSE res.k = "ok" /\ res.p = 4 + Max24 /\ res.v = [t |-> "hs", m |-> c.want]
EmitCase ==
  LET c == Cases[i] IN
  EmitLine(CaseLine(i, "parse_tls_message_handshake", NoArgs, <<Part(c.lit, c.base, c.step, c.n)>>, res,
                    IF res.k = "ok" THEN "full" ELSE "inc_n", [kind |-> "u24max"]))
=============================================================================
