INIT Init
NEXT Next
CONSTANT RangeMode = TRUE
INVARIANT Dispatch
INVARIANT DispatchersAgree
INVARIANT TagParserAcceptsOwnType
INVARIANT EmptyOnlyExtensions
INVARIANT LengthBeyondBlock
INVARIANT ListWholeBlock
INVARIANT InnerLieIgnoresWhatFollows
INVARIANT LongLists
INVARIANT OrderIndependence
INVARIANT EmitCase
CHECK_DEADLOCK FALSE
