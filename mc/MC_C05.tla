------------------------------- MODULE MC_C05 -------------------------------
(***************************************************************************)
(* C05 - extensions decode by IANA type; GREASE and unknown types are      *)
(* preserved.                                                              *)
(***************************************************************************)
EXTENDS Corpus, Emit

C == INSTANCE Calls WITH RangeMode <- FALSE

Datas == <<<<>>, <<0>>, Fill(3, 300)>>
Opq(ty, tname) == [k \in 1..3 |-> [t |-> tname, tag |-> ty, data |-> Datas[k]]]
Nm(nt, name) == [nt |-> nt, name |-> name]

TypedVals ==
  << [t |-> "SNI", tag |-> 0, names |-> <<>>],
     [t |-> "SNI", tag |-> 0, names |-> <<Nm(0, <<97, 46, 98>>)>>],
     [t |-> "SNI", tag |-> 0, names |-> <<Nm(0, <<>>), Nm(255, Fill(1, 255)), Nm(1, <<120>>)>>],
     [t |-> "SNI", tag |-> 0, names |-> <<Nm(0, Fill(2, 65000))>>] >>
  \o [k \in 1..4 |-> [t |-> "MaxFragmentLength", tag |-> 1, v |-> <<0, 1, 4, 255>>[k]]]
  \o << [t |-> "StatusRequest", tag |-> 5, req |-> None],
        [t |-> "StatusRequest", tag |-> 5, req |-> Some([st |-> 1, data |-> <<>>])],
        [t |-> "StatusRequest", tag |-> 5, req |-> Some([st |-> 255, data |-> <<0, 0, 0, 0>>])] >>
  \o [k \in 1..3 |-> [t |-> "EllipticCurves", tag |-> 10, groups |-> <<<<>>, <<23>>, <<0, 258, 65535>>>>[k]]]
  \o [k \in 1..3 |-> [t |-> "EcPointFormats", tag |-> 11, data |-> <<<<>>, <<0>>, Fill(1, 255)>>[k]]]
  \o [k \in 1..3 |-> [t |-> "SignatureAlgorithms", tag |-> 13, algs |-> <<<<>>, <<1027>>, <<0, 258, 65535>>>>[k]]]
  \o [k \in 1..4 |-> [t |-> "Heartbeat", tag |-> 15, v |-> <<0, 1, 2, 255>>[k]]]
  \o [k \in 1..3 |-> [t |-> "ALPN", tag |-> 16, protos |-> << <<>>, <<<<104, 50>>>>, <<<<>>, Fill(4, 255), <<1>>>> >>[k]]]
  \o << [t |-> "ALPN", tag |-> 16, protos |-> <<<<104, 50>>, <<>>>>],                    \* an empty name in LAST position (a trailing zero length byte), alone, twice
        [t |-> "ALPN", tag |-> 16, protos |-> <<<<>>>>], [t |-> "ALPN", tag |-> 16, protos |-> <<<<>>, <<>>>>],
        [t |-> "ALPN", tag |-> 16, protos |-> <<<<104, 50>>, <<>>, <<104, 116, 116, 112, 47, 49, 46, 49>>, <<>>>>] >>
  \o << [t |-> "ALPN", tag |-> 16, protos |-> [k \in 1..128 |-> Fill(k, 255)]],          \* a name list of exactly 2^15 bytes
        [t |-> "ALPN", tag |-> 16, protos |-> [k \in 1..255 |-> Fill(k, 255)]],          \* ... and of 65280 bytes
        [t |-> "EllipticCurves", tag |-> 10, groups |-> [k \in 1..16384 |-> k]],          \* lists of 2^15 bytes
        [t |-> "SignatureAlgorithms", tag |-> 13, algs |-> [k \in 1..16385 |-> k]] >>
  \o [k \in 1..3 |-> [t |-> "SignedCertificateTimestamp", tag |-> 18, data |-> <<None, Some(<<>>), Some(<<1, 2, 3>>)>>[k]]]
  \o Opq(21, "Padding")
  \o << [t |-> "EncryptThenMac", tag |-> 22], [t |-> "ExtendedMasterSecret", tag |-> 23] >>
  \o [k \in 1..3 |-> [t |-> "RecordSizeLimit", tag |-> 28, v |-> <<0, 16385, 65535>>[k]]]
  \o Opq(35, "SessionTicket") \o Opq(40, "KeyShareOld") \o Opq(41, "PreSharedKey")
  \o [k \in 1..3 |-> [t |-> "EarlyData", tag |-> 42, v |-> <<None, Some(<<0, 0>>), Some(<<65535, 65534>>)>>[k]]]
  \o [k \in 1..3 |-> [t |-> "SupportedVersions", tag |-> 43, vers |-> <<<<>>, <<772>>, <<772, 771, 32530>>>>[k]]]
  \o Opq(44, "Cookie")
  \o [k \in 1..3 |-> [t |-> "PskExchangeModes", tag |-> 45, modes |-> <<<<>>, <<1>>, <<0, 1, 255>>>>[k]]]
  \o [k \in 1..3 |-> [t |-> "OidFilters", tag |-> 48, filters |->
        << <<>>, <<[oid |-> <<85, 29>>, val |-> <<>>]>>,
           <<[oid |-> <<>>, val |-> <<1>>], [oid |-> Fill(1, 255), val |-> Fill(2, 300)]>> >>[k]]]
  \o << [t |-> "PostHandshakeAuth", tag |-> 49] >>
  \o Opq(51, "KeyShare")
  \o << [t |-> "NextProtocolNegotiation", tag |-> 13172] >>
  \o [k \in 1..2 |-> [t |-> "RenegotiationInfo", tag |-> 65281, data |-> <<<<>>, Fill(5, 12)>>[k]]]
  \o << [t |-> "EncryptedServerName", tag |-> 65486, cipher |-> 4865, group |-> 29, key_share |-> Fill(1, 32),
         digest |-> <<>>, esni |-> Fill(2, 300)],
        [t |-> "EncryptedServerName", tag |-> 65486, cipher |-> 0, group |-> 65535, key_share |-> <<>>,
         digest |-> <<9>>, esni |-> <<>>] >>
  \o CxExtVals       \* Corpus.tla: names that are long, multi-byte, not UTF-8, NUL-carrying, dot-terminated

GreasePoints == [k \in 0..15 |-> 2570 + 4112 * k]
GreaseVals == [k \in 1..32 |-> [t |-> "Grease", tag |-> GreaseTag, ty |-> GreasePoints[(k - 1) \div 2],
                                data |-> <<<<>>, <<7, 7>>>>[((k - 1) % 2) + 1]]]
UnknownTypes == <<2, 3, 4, 6, 9, 12, 14, 17, 19, 20, 24, 25, 26, 27, 29, 34, 36, 39, 46, 47, 50, 52, 255, 256,
                  2586, 6666, 2571, 64251, 43691, 2560, 10, 13171, 13173, 65280, 65282, 65485, 65487, 65535>>
UnknownVals == [k \in 1..Len(UnknownTypes) |->
                 [t |-> "Unknown", tag |-> UnknownTypes[k], ty |-> UnknownTypes[k], data |-> Datas[(k % 3) + 1]]]
(* 10 is a genuine unknown only to the server dispatcher; it is listed to exercise that row *)
RealUnknownVals == SelectSeq(UnknownVals, LAMBDA x : x.ty \notin TypedTypes)

Whichs == <<"client", "server", "generic">>
FnOf(w) == CASE w = "client" -> "parse_tls_client_hello_extension"
             [] w = "server" -> "parse_tls_server_hello_extension"
             [] w = "generic" -> "parse_tls_extension"
ListFnOf(w) == CASE w = "client" -> "parse_tls_client_hello_extensions"
                 [] w = "server" -> "parse_tls_server_hello_extensions"
                 [] w = "generic" -> "parse_tls_extensions"
TagFnOf(ty) ==
  CASE ty = 0 -> "parse_tls_extension_sni" [] ty = 1 -> "parse_tls_extension_max_fragment_length"
    [] ty = 5 -> "parse_tls_extension_status_request" [] ty = 10 -> "parse_tls_extension_elliptic_curves"
    [] ty = 11 -> "parse_tls_extension_ec_point_formats" [] ty = 13 -> "parse_tls_extension_signature_algorithms"
    [] ty = 15 -> "parse_tls_extension_heartbeat" [] ty = 22 -> "parse_tls_extension_encrypt_then_mac"
    [] ty = 23 -> "parse_tls_extension_extended_master_secret" [] ty = 35 -> "parse_tls_extension_session_ticket"
    [] ty = 41 -> "parse_tls_extension_pre_shared_key" [] ty = 42 -> "parse_tls_extension_early_data"
    [] ty = 43 -> "parse_tls_extension_supported_versions" [] ty = 44 -> "parse_tls_extension_cookie"
    [] ty = 45 -> "parse_tls_extension_psk_key_exchange_modes" [] ty = 51 -> "parse_tls_extension_key_share"

Sfx == << <<>>, <<0>>, <<0, 23, 0, 0>>, <<255, 255, 255, 255, 1>> >>

ASSUME TLCSet(2, TypedVals \o GreaseVals \o RealUnknownVals)
Vals == TLCGet(2)
ASSUME TLCSet(4, Len(TypedVals))
NT == TLCGet(4)

(* one value through one dispatcher (with suffixes) *)
SingleCases ==
  Concat([j \in 1..Len(Vals) |->
    LET enc == EncExt(Vals[j]) IN
    Concat([w \in 1..3 |->
      [s \in 1..(IF Len(enc) > 1000 THEN 1 ELSE 4) |->
        [kind |-> "single", fn |-> FnOf(Whichs[w]), which |-> Whichs[w], bytes |-> enc \o Sfx[s],
         val |-> j, extra |-> Len(Sfx[s])]]])])
(* tag-specific parsers on their own type *)
TagIdx == SelectSeq([j \in 1..NT |-> j], LAMBDA j : Vals[j].tag \in TagParserTypes)
TagCases ==
  Concat([q \in 1..Len(TagIdx) |->
    LET j == TagIdx[q] enc == EncExt(Vals[j]) IN
    [s \in 1..2 |-> [kind |-> "tag", fn |-> TagFnOf(Vals[j].tag), which |-> "generic", bytes |-> enc \o Sfx[s],
                     val |-> j, extra |-> Len(Sfx[s])]]])
(* tag-specific parsers on a foreign leading type: rejected *)
TagTypesSeq == SetToSeq(TagParserTypes)
ForeignTagCases ==
  Concat([q \in 1..Len(TagTypesSeq) |->
    LET ty == TagTypesSeq[q]
        others == SetToSeq((TagParserTypes \ {ty}) \cup {ty + 1, ty + 256, 65535 - ty, 2570, 21}) IN
    [o \in 1..Len(others) |-> [kind |-> "foreigntag", fn |-> TagFnOf(ty), which |-> "generic",
                               bytes |-> BE16(others[o]) \o <<0, 1, 1>>, val |-> 0, extra |-> 0]]])
(* extensions defined as empty, carrying data *)
EmptyOnlyCases ==
  Concat([q \in 1..4 |->
    LET ty == <<22, 23, 49, 13172>>[q] IN
    Concat([w \in 1..3 |->
      [d \in 1..5 |-> [kind |-> "emptyonly", fn |-> FnOf(Whichs[w]), which |-> Whichs[w],
                       bytes |-> EncExtRaw(ty, <<<<0>>, <<1, 2, 3>>, <<1, 0>>, <<2, 104, 50>>, <<2, 104, 50, 1, 9>>>>[d]), val |-> 0, extra |-> 0]]])])
  \o [q \in 1..4 |-> [kind |-> "emptyonly",
                      fn |-> <<"parse_tls_extension_encrypt_then_mac", "parse_tls_extension_extended_master_secret",
                               "parse_tls_extension_encrypt_then_mac", "parse_tls_extension_extended_master_secret">>[q],
                      which |-> "generic",
                      bytes |-> EncExtRaw(<<22, 23, 22, 23>>[q], <<<<0>>, <<0>>, <<1, 2>>, <<1, 2>>>>[q]), val |-> 0, extra |-> 0]]
(* a length field exceeding the enclosing block *)
BeyondCases ==
  Concat([j \in 1..Len(Vals) |->
    LET x == Vals[j] data == EncExtData(x) IN
    IF Len(data) > 1000 THEN <<>> ELSE
    Concat([w \in 1..3 |->
      [d \in 1..3 |-> [kind |-> "beyond", fn |-> FnOf(Whichs[w]), which |-> Whichs[w],
                       bytes |-> BE16(WireType(x)) \o BE16(Len(data) + <<1, 2, 60000>>[d]) \o data, val |-> 0, extra |-> 0]]])])
(* special wire forms: empty SNI (server), selected_version *)
SpecialCases ==
  Concat([w \in 1..3 |-> <<
    [kind |-> "special", fn |-> FnOf(Whichs[w]), which |-> Whichs[w], bytes |-> <<0, 0, 0, 0>>, val |-> 1, extra |-> 0],
    [kind |-> "special", fn |-> FnOf(Whichs[w]), which |-> Whichs[w], bytes |-> <<0, 43, 0, 2, 3, 4>>, val |-> 0, extra |-> 0] >>])
(* inner length fields lying inside a well-formed outer extension *)
InnerLies == <<
  <<0, 0, 0, 5, 0, 9, 0, 0, 1>>,          \* SNI list length beyond the extension
  <<0, 0, 0, 2, 0, 1>>, <<0, 0, 0, 2, 255, 255>>, <<0, 0, 0, 1, 0>>,    \* ... in a two-byte body; a one-byte body
  <<0, 16, 0, 2, 0, 1>>, <<0, 10, 0, 2, 0, 2>>, <<0, 13, 0, 2, 0, 4>>, <<0, 48, 0, 2, 0, 1>>, <<0, 45, 0, 1, 1>>,   \* the same for the other list-valued extensions
  <<0, 0, 0, 6, 0, 4, 0, 0, 9, 97>>,      \* SNI name length beyond the list: the list stops (many0)
  <<0, 0, 0, 6, 0, 4, 1, 0, 9, 97>>, <<0, 0, 0, 6, 0, 4, 255, 0, 2, 97>>, <<0, 0, 0, 6, 0, 4, 7, 255, 255, 97>>,   \* ... the same whatever the name type says
  <<0, 0, 0, 10, 0, 8, 0, 0, 1, 97, 1, 0, 9, 98>>,   \* ... and after a well-framed entry: the first name stays, the over-long one is not a name
  <<0, 10, 0, 4, 0, 3, 0, 23>>,           \* groups: odd inner length
  <<0, 10, 0, 3, 0, 4, 0>>,               \* groups: inner length beyond
  <<0, 11, 0, 2, 5, 0>>,                  \* point formats beyond
  <<0, 13, 0, 3, 0, 9, 4>>,               \* sig algs beyond
  <<0, 16, 0, 4, 0, 2, 5, 104>>,          \* ALPN: protocol length beyond the list
  <<0, 16, 0, 2, 0, 9>>,                  \* ALPN list beyond
  <<0, 5, 0, 0>>, <<0, 1, 0, 0>>, <<0, 15, 0, 0>>, <<0, 28, 0, 1, 7>>, <<0, 42, 0, 2, 0, 0>>,
  <<0, 43, 0, 0>>, <<0, 43, 0, 1, 2>>, <<0, 43, 0, 4, 2, 3, 4, 5>>, <<0, 45, 0, 2, 5, 1>>, <<0, 45, 0, 0>>,
  <<0, 48, 0, 3, 0, 9, 1>>, <<255, 1, 0, 1, 5>>, <<255, 206, 0, 4, 19, 1, 0, 29>>, <<0, 18, 0, 1, 0>> >>
Pad10 == <<1, 1, 1, 1, 1, 1, 1, 1, 1, 1>>
InnerCases ==
  Concat([q \in 1..Len(InnerLies) |->
    Concat([w \in 1..3 |->
      [s \in 1..2 |-> [kind |-> "inner", fn |-> FnOf(Whichs[w]), which |-> Whichs[w],
                       bytes |-> InnerLies[q] \o (IF s = 1 THEN <<>> ELSE Pad10), val |-> 0, extra |-> 0]]])])
(* the same lies through the tag-specific parsers, alone and followed by bytes that a decoder reading past the *)
(* extension's own length would pick up                                                                        *)
TagLieIdx == SelectSeq([q \in 1..Len(InnerLies) |-> q],
                       LAMBDA q : (InnerLies[q][1] * 256 + InnerLies[q][2]) \in (TagParserTypes \ {22, 23, 35, 41, 44, 51}))
TagInnerCases ==
  Concat([h \in 1..Len(TagLieIdx) |->
    LET l == InnerLies[TagLieIdx[h]] IN
    [s \in 1..2 |-> [kind |-> "taginner", fn |-> TagFnOf(l[1] * 256 + l[2]), which |-> "generic",
                     bytes |-> l \o (IF s = 1 THEN <<>> ELSE Pad10), val |-> 0, extra |-> 0]]])
(* long lists: the number of extensions in a block is bounded by the block length only *)
MiniExts == << <<0, 22, 0, 0>>, <<0, 23, 0, 0>>, <<0, 99, 0, 0>>, <<10, 10, 0, 0>>, <<0, 49, 0, 0>> >>
LongNs == <<256, 257, 300, 1000, 16383>>
LongListCases ==
  Concat([q \in 1..Len(LongNs) |->
    [w \in 1..3 |-> [kind |-> "longlist", fn |-> ListFnOf(Whichs[w]), which |-> Whichs[w],
                     bytes |-> Concat([k \in 1..LongNs[q] |-> MiniExts[(k % 5) + 1]]),
                     val |-> LongNs[q], extra |-> 0]]])

(* lists *)
PoolIdx == <<2, 5, 9, 13, 27, 50, NT + 1, NT + 6, NT + 33, NT + 34>>
Lists == SetToSeq(UNION {[1..n -> 1..Len(PoolIdx)] : n \in 0..(IF Thorough THEN 3 ELSE 2)} \cup {<<1, 7, 9>>, <<8, 2, 10>>, <<3, 3, 3>>, <<10, 9, 8>>})
ListCases ==
  Concat([q \in 1..Len(Lists) |->
    LET idx == Lists[q] enc == Concat([h \in 1..Len(idx) |-> EncExt(Vals[PoolIdx[idx[h]]])]) IN
    [w \in 1..3 |-> [kind |-> "list", fn |-> ListFnOf(Whichs[w]), which |-> Whichs[w], bytes |-> enc,
                     val |-> q, extra |-> 0]]])
(* position independence: one value of EVERY type in first position followed by two others, through the three list parsers *)
FirstOfType == SelectSeq([j \in 1..Len(Vals) |-> j], LAMBDA j : j = 1 \/ Vals[j].t # Vals[j - 1].t \/ (Vals[j].t \in {"Grease", "Unknown"} /\ j % 7 = 0))
OrderCases ==
  Concat([q \in 1..Len(FirstOfType) |->
    LET j == FirstOfType[q]  enc == EncExt(Vals[j]) IN
    IF Len(enc) > 1000 THEN <<>> ELSE
    [w \in 1..3 |-> [kind |-> "order", fn |-> ListFnOf(Whichs[w]), which |-> Whichs[w],
                     bytes |-> enc \o <<0, 23, 0, 0>> \o EncExtRaw(99, <<1, 2>>), val |-> j, extra |-> 0]]])
BrokenTails == << <<0>>, <<0, 23, 0>>, <<0, 23, 0, 1>>, <<0, 22, 0, 1, 9>>, <<0, 5, 0, 9, 1>> >>
BrokenListCases ==
  Concat([q \in 1..Len(BrokenTails) |->
    Concat([w \in 1..3 |->
      [h \in 1..2 |-> [kind |-> "brokenlist", fn |-> ListFnOf(Whichs[w]), which |-> Whichs[w],
                       bytes |-> (IF h = 1 THEN <<>> ELSE EncExt(Vals[5])) \o BrokenTails[q], val |-> h, extra |-> 0]]])])

(* an extension followed by 2^16 - 1 .. 2^17 - 1 more bytes *)
LongTailCases ==
  Concat([t \in 1..Len(LongTails) |->
    Concat([w \in 1..3 |->
      [q \in 1..2 |-> [kind |-> "single", fn |-> FnOf(Whichs[w]), which |-> Whichs[w],
                       bytes |-> EncExt(Vals[<<2, 13>>[q]]) \o [h \in 1..LongTails[t] |-> 171], val |-> <<2, 13>>[q], extra |-> LongTails[t]]]])])
ASSUME TLCSet(1, LongTailCases \o SingleCases \o TagCases \o ForeignTagCases \o EmptyOnlyCases \o BeyondCases \o SpecialCases
                 \o InnerCases \o TagInnerCases \o LongListCases \o OrderCases \o ListCases \o BrokenListCases)
ASSUME TLCSet(3, Lists)
Cases == TLCGet(1)
N == Len(Cases)

VARIABLES i, res, cres
Init == i = Chunk + 1 /\ i <= N /\ res = Apply(Cases[i].fn, NoArgs, Cases[i].bytes)
        /\ cres = C!Apply(Cases[i].fn, NoArgs, Cases[i].bytes)
Next == i + NChunks <= N /\ i' = i + NChunks /\ res' = Apply(Cases[i'].fn, NoArgs, Cases[i'].bytes)
        /\ cres' = C!Apply(Cases[i'].fn, NoArgs, Cases[i'].bytes)

AsUnknown(x) == [t |-> "Unknown", tag |-> WireType(x), ty |-> WireType(x), data |-> EncExtData(x)]
-----------------------------------------------------------------------------
(* TypedRoundTrip, GreaseRule, UnknownPreserved, TagEqualsWire: a value through a dispatcher that *)
(* recognises its type comes back exactly; through one that does not, as Unknown byte-for-byte     *)
Dispatch ==
  LET c == Cases[i] IN
  c.kind = "single" =>
    LET x == Vals[c.val] ty == WireType(x)
        want == IF x.t \in {"Grease", "Unknown"} \/ ty \in Recognised(c.which) THEN x ELSE AsUnknown(x)
    IN /\ cres.k = "ok" /\ cres.v = want /\ cres.p = Len(c.bytes) - c.extra
       /\ (cres.v.t # "Grease" => cres.v.tag = ty) /\ (cres.v.t = "Grease" => cres.v.tag = GreaseTag)
       /\ res = Apply(c.fn, NoArgs, SubSeq(c.bytes, 1, Len(c.bytes) - c.extra))       \* Local

(* all dispatchers that recognise a type agree on it *)
DispatchersAgree ==
  LET c == Cases[i] IN
  (c.kind \in {"single", "inner", "beyond", "emptyonly", "special"} /\ c.which # "generic") =>
     LET ty == c.bytes[1] * 256 + c.bytes[2] IN
     (ty \in Recognised(c.which) \/ IsGrease(ty)) => cres = C!DecExt("generic", c.bytes, 0, Len(c.bytes))

(* each tag-specific parser accepts its own IANA type and then agrees with the generic parser *)
TagParserAcceptsOwnType ==
  LET c == Cases[i] IN
  /\ c.kind = "tag" => (cres.k = "ok" /\ cres.v = Vals[c.val] /\ cres = C!DecExt("generic", c.bytes, 0, Len(c.bytes)))
  /\ c.kind = "foreigntag" => (res.k = "err" /\ res.e = "Tag")
  /\ c.kind = "taginner" => LET g == C!DecExt("generic", c.bytes, 0, Len(c.bytes)) IN
                            ((cres.k = "ok") = (g.k = "ok")) /\ (cres.k = "ok" => cres = g)
(* a lying inner length never yields a value built from bytes outside the extension: with or without bytes following *)
(* the extension, the verdict is the same                                                                           *)
InnerLieIgnoresWhatFollows ==
  LET c == Cases[i] IN
  (c.kind \in {"inner", "taginner"} /\ Len(c.bytes) > 10 /\ SubSeq(c.bytes, Len(c.bytes) - 9, Len(c.bytes)) = Pad10) =>
     LET alone == C!Apply(c.fn, NoArgs, SubSeq(c.bytes, 1, Len(c.bytes) - 10)) IN
     /\ cres.k = alone.k /\ (cres.k = "ok" => (cres.v = alone.v /\ cres.p = alone.p))
LongLists ==
  LET c == Cases[i] IN
  c.kind = "longlist" =>
    /\ cres.k = "ok" /\ cres.p = Len(c.bytes) /\ Len(cres.v) = c.val
    /\ \A k \in 1..c.val : cres.v[k] = C!DecExt(c.which, MiniExts[(k % 5) + 1], 0, 4).v

EmptyOnlyExtensions ==
  LET c == Cases[i] IN
  (c.kind = "emptyonly" /\ (c.bytes[1] * 256 + c.bytes[2]) \in Recognised(c.which)) => res.k # "ok"
LengthBeyondBlock   == Cases[i].kind = "beyond" => res.k # "ok"

(* lists: one element per extension, wire order, the whole block consumed *)
ListWholeBlock ==
  LET c == Cases[i] IN
  c.kind = "list" =>
    LET idx == TLCGet(3)[c.val] IN
    /\ cres.k = "ok" /\ cres.p = Len(c.bytes) /\ Len(cres.v) = Len(idx)
    /\ \A h \in 1..Len(idx) :
         LET x == Vals[PoolIdx[idx[h]]] IN
         cres.v[h] = (IF x.t \in {"Grease", "Unknown"} \/ WireType(x) \in Recognised(c.which) THEN x ELSE AsUnknown(x))

OrderIndependence ==
  LET c == Cases[i] IN
  c.kind = "order" =>
    LET x == Vals[c.val]
        first == IF x.t \in {"Grease", "Unknown"} \/ WireType(x) \in Recognised(c.which) THEN x ELSE AsUnknown(x) IN
    /\ cres.k = "ok" /\ cres.p = Len(c.bytes) /\ Len(cres.v) = 3 /\ cres.v[1] = first
    /\ cres.v[2] = [t |-> "ExtendedMasterSecret", tag |-> 23] /\ cres.v[3] = [t |-> "Unknown", tag |-> 99, ty |-> 99, data |-> <<1, 2>>]
Pin ==
  LET c == Cases[i] IN
  IF c.kind \in {"single", "tag", "list", "special", "longlist", "order"} THEN "full"
  ELSE IF c.kind = "taginner" THEN (IF res.k = "ok" THEN "full" ELSE "novalue")
  ELSE IF c.kind = "foreigntag" THEN "err_kind"
  ELSE IF c.kind = "beyond" THEN "novalue"
  ELSE IF c.kind = "emptyonly" THEN (IF res.k = "ok" THEN "full" ELSE "novalue")
  ELSE IF c.kind = "brokenlist" THEN "prefix_or_err"
  ELSE IF res.k \in {"err", "fail"} THEN "reject" ELSE IF res.k # "ok" THEN "novalue" ELSE "none"

EmitCase ==
  LET c == Cases[i] IN
  EmitLine(CaseLine(i, c.fn, NoArgs, <<Lit(c.bytes)>>, res, Pin, [kind |-> c.kind, which |-> c.which]))
=============================================================================
