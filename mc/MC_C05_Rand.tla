----------------------------- MODULE MC_C05_Rand -----------------------------
(***************************************************************************)
(* Seeded, structurally random extension values: list counts from 0 to     *)
(* dozens, element sizes and contents arbitrary, every numeric field from  *)
(* its whole domain; alone through the three dispatchers and in lists of   *)
(* 0..8 random extensions through the three list parsers.  RandRoundTrip   *)
(* (the generic dispatcher returns the value the encoder wrote, consuming  *)
(* exactly the encoding; a list decodes element by element) is checked on  *)
(* the specification; every case is replayed on the crate and compared in  *)
(* full.  Deterministic in (VERIF_SEED, case index).                       *)
(***************************************************************************)
EXTENDS Calls, Emit
C == INSTANCE Calls WITH RangeMode <- FALSE
Seed == IF "VERIF_SEED" \in DOMAIN IOEnv THEN atoi(IOEnv.VERIF_SEED) ELSE 1
N == IF Thorough THEN 24000 ELSE 1800

H(s, k) == ((((s % 30011) * 211 + (k % 5000) * 7919 + 13) % 65521) * 31 + (s \div 30011) * 17 + (k \div 5000)) % 65521
Bs(s, k, n) == [j \in 1..n |-> H(s, k + 3 * j) % 256]
W16(s, k) == (H(s, k) * 7 + H(s, k + 1)) % 65536
Size(s, k) == LET r == H(s, k) % 16 IN IF r < 9 THEN H(s, k + 1) % 8 ELSE IF r < 13 THEN H(s, k + 1) % 70 ELSE IF r < 15 THEN H(s, k + 1) % 400 ELSE H(s, k + 1) % 3000
GreasePoints == [k \in 0..15 |-> 2570 + 4112 * k]
UnknownTypes == <<2, 3, 4, 6, 9, 12, 14, 17, 19, 20, 24, 25, 26, 27, 29, 34, 36, 39, 46, 47, 50, 52, 255, 256,
                  2586, 6666, 2571, 64251, 43691, 2560, 13171, 13173, 65280, 65282, 65485, 65487, 65535>>
Opq(tname, tag, s) == [t |-> tname, tag |-> tag, data |-> Bs(s, 2, Size(s, 3))]

Gen(s) ==
  LET kind == H(s, 1) % 27 IN
  CASE kind = 0 -> [t |-> "SNI", tag |-> 0, names |-> [j \in 1..(H(s, 2) % 6) |->
                     [nt |-> IF H(s, 10 * j) % 4 = 0 THEN H(s, 10 * j + 1) % 256 ELSE 0, name |-> Bs(s, 10 * j + 2, Size(s, 10 * j + 3) % 300)]]]
    [] kind = 1 -> [t |-> "MaxFragmentLength", tag |-> 1, v |-> H(s, 2) % 256]
    [] kind = 2 -> [t |-> "StatusRequest", tag |-> 5, req |-> IF H(s, 2) % 4 = 0 THEN None ELSE Some([st |-> H(s, 3) % 256, data |-> Bs(s, 4, Size(s, 5) % 200)])]
    [] kind = 3 -> [t |-> "EllipticCurves", tag |-> 10, groups |-> [j \in 1..(Size(s, 2) % 60) |-> W16(s, 10 + 2 * j)]]
    [] kind = 4 -> [t |-> "EcPointFormats", tag |-> 11, data |-> Bs(s, 2, H(s, 3) % 256)]
    [] kind = 5 -> [t |-> "SignatureAlgorithms", tag |-> 13, algs |-> [j \in 1..(Size(s, 2) % 60) |-> W16(s, 10 + 2 * j)]]
    [] kind = 6 -> [t |-> "Heartbeat", tag |-> 15, v |-> H(s, 2) % 256]
    [] kind = 7 -> [t |-> "ALPN", tag |-> 16, protos |-> [j \in 1..(H(s, 2) % 9) |-> Bs(s, 20 * j, IF H(s, 20 * j + 1) % 5 = 0 THEN H(s, 20 * j + 2) % 256 ELSE 1 + (H(s, 20 * j + 2) % 12))]]
    [] kind = 8 -> [t |-> "SignedCertificateTimestamp", tag |-> 18, data |-> IF H(s, 2) % 3 = 0 THEN None ELSE Some(Bs(s, 3, Size(s, 4)))]
    [] kind = 9 -> Opq("Padding", 21, s)
    [] kind = 10 -> IF H(s, 2) % 2 = 0 THEN [t |-> "EncryptThenMac", tag |-> 22] ELSE [t |-> "ExtendedMasterSecret", tag |-> 23]
    [] kind = 11 -> [t |-> "RecordSizeLimit", tag |-> 28, v |-> W16(s, 2)]
    [] kind = 12 -> Opq("SessionTicket", 35, s)
    [] kind = 13 -> Opq("KeyShareOld", 40, s)
    [] kind = 14 -> Opq("PreSharedKey", 41, s)
    [] kind = 15 -> [t |-> "EarlyData", tag |-> 42, v |-> IF H(s, 2) % 2 = 0 THEN None ELSE Some(<<W16(s, 3), W16(s, 5)>>)]
    [] kind = 16 -> [t |-> "SupportedVersions", tag |-> 43, vers |-> [j \in 1..(H(s, 2) % 20) |-> W16(s, 10 + 2 * j)]]
    [] kind = 17 -> Opq("Cookie", 44, s)
    [] kind = 18 -> [t |-> "PskExchangeModes", tag |-> 45, modes |-> Bs(s, 2, H(s, 3) % 30)]
    [] kind = 19 -> [t |-> "OidFilters", tag |-> 48, filters |-> [j \in 1..(H(s, 2) % 5) |->
                      [oid |-> Bs(s, 30 * j, H(s, 30 * j + 1) % 40), val |-> Bs(s, 30 * j + 2, Size(s, 30 * j + 3) % 300)]]]
    [] kind = 20 -> IF H(s, 2) % 2 = 0 THEN [t |-> "PostHandshakeAuth", tag |-> 49] ELSE [t |-> "NextProtocolNegotiation", tag |-> 13172]
    [] kind = 21 -> Opq("KeyShare", 51, s)
    [] kind = 22 -> [t |-> "RenegotiationInfo", tag |-> 65281, data |-> Bs(s, 2, H(s, 3) % 256)]
    [] kind = 23 -> [t |-> "EncryptedServerName", tag |-> 65486, cipher |-> W16(s, 2), group |-> W16(s, 4), key_share |-> Bs(s, 6, Size(s, 7) % 100),
                     digest |-> Bs(s, 8, H(s, 9) % 40), esni |-> Bs(s, 10, Size(s, 11) % 400)]
    [] kind = 24 -> [t |-> "Grease", tag |-> GreaseTag, ty |-> GreasePoints[H(s, 2) % 16], data |-> Bs(s, 3, Size(s, 4) % 50)]
    [] OTHER -> LET ty == UnknownTypes[(H(s, 2) % Len(UnknownTypes)) + 1] IN [t |-> "Unknown", tag |-> ty, ty |-> ty, data |-> Bs(s, 3, Size(s, 4))]

ValOf(c) == Gen((Seed % 1000) * 100003 + c)
IsList(c) == c % 3 = 0
ListOf(c) == [j \in 1..(H(c, 3) % 9) |-> ValOf(c + 3 * j)]
Which(c) == <<"generic", "client", "server">>[(H(c, 5) % 3) + 1]
FnOf(c) == IF IsList(c) THEN (CASE Which(c) = "client" -> "parse_tls_client_hello_extensions" [] Which(c) = "server" -> "parse_tls_server_hello_extensions" [] OTHER -> "parse_tls_extensions")
           ELSE (CASE Which(c) = "client" -> "parse_tls_client_hello_extension" [] Which(c) = "server" -> "parse_tls_server_hello_extension" [] OTHER -> "parse_tls_extension")
Sfx(c) == IF IsList(c) THEN <<>> ELSE <<<<>>, <<0>>, <<0, 23, 0, 0>>, <<255, 255, 255, 255>>>>[(H(c, 7) % 4) + 1]
BytesOf(c) == IF IsList(c) THEN EncExtList(ListOf(c)) ELSE EncExt(ValOf(c)) \o Sfx(c)

VARIABLES i, res
Init == i = Chunk + 1 /\ i <= N /\ res = Apply(FnOf(i), NoArgs, BytesOf(i))
Next == i + NChunks <= N /\ i' = i + NChunks /\ res' = Apply(FnOf(i'), NoArgs, BytesOf(i'))

(* through the generic dispatcher the value comes back as written; through every dispatcher the encoding is consumed exactly, *)
(* the wire type is reported and what follows does not matter                                                               *)
RandRoundTrip ==
  LET r == C!Apply(FnOf(i), NoArgs, BytesOf(i))  n == Len(BytesOf(i)) - Len(Sfx(i)) IN
  /\ r.k = "ok" /\ r.p = n /\ res.k = "ok" /\ res.p = n
  /\ IF IsList(i) THEN Len(r.v) = Len(ListOf(i)) /\ (Which(i) = "generic" => r.v = ListOf(i))
     ELSE (Which(i) = "generic" => r.v = ValOf(i))
  /\ res = Apply(FnOf(i), NoArgs, SubSeq(BytesOf(i), 1, n))
EmitCase == EmitLine(CaseLine(i, FnOf(i), NoArgs, <<Lit(BytesOf(i))>>, res, "full", [kind |-> "rand", t |-> IF IsList(i) THEN "list" ELSE ValOf(i).t]))
=============================================================================
