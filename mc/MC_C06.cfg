INIT Init
NEXT Next
CONSTANT RangeMode = TRUE
INVARIANT Local
INVARIANT ClassStable
INVARIANT EmitCase
CHECK_DEADLOCK FALSE
