------------------------------- MODULE MC_C06 -------------------------------
(***************************************************************************)
(* C06 - parsers are local and zero-copy: only the declared bytes matter.  *)
(* For every self-delimiting parser: a pool of accepted structures and of  *)
(* complete-but-malformed ones (nested length fields lying inside a        *)
(* complete container), each followed by suffixes - one byte, the          *)
(* structure itself, a header declaring 65535, a run of 0xff.              *)
(***************************************************************************)
EXTENDS Calls, Emit

R32 == Fill(5, 32)
CH == EncHs([t |-> "ClientHello", ver |-> 771, random |-> R32, sid |-> Some(<<1, 2>>), ciphers |-> <<47, 53>>, comp |-> <<0>>,
             ext |-> Some(<<0, 0, 0, 6, 0, 4, 0, 0, 1, 97>>)])
CERT == EncHs([t |-> "Certificate", chain |-> << <<48, 1>>, <<>>, <<1, 2, 3>> >>])
Sc == [ver |-> 0, id |-> Fill(1, 32), ts |-> <<1, 2, 3, 4>>, ext |-> <<7>>, sig |-> [alg |-> Some([hash |-> 4, sign |-> 3]), data |-> <<9, 9>>]]
Ok_(fn, a, s) == [fn |-> fn, a |-> a, s |-> s, good |-> TRUE, strict |-> TRUE]
Bad(fn, a, s) == [fn |-> fn, a |-> a, s |-> s, good |-> FALSE, strict |-> TRUE]
(* a framed structure whose verdict the pool does not presume (accepted, rejected or incomplete inside its own frame): whatever it is, *)
(* it is the same with bytes after it, and when it is a value the value is the same                                                    *)
Any_(fn, a, s) == [fn |-> fn, a |-> a, s |-> s, good |-> FALSE, strict |-> FALSE]
(* the 16 tag-prefixed extension parsers on their own tag with declared lengths 0, 1, 2, 3 and 5: the content parser gets exactly the *)
(* declared bytes, short or long as they may be for the type                                                                           *)
TagFns == << <<"parse_tls_extension_sni", 0>>, <<"parse_tls_extension_max_fragment_length", 1>>, <<"parse_tls_extension_status_request", 5>>,
             <<"parse_tls_extension_elliptic_curves", 10>>, <<"parse_tls_extension_ec_point_formats", 11>>, <<"parse_tls_extension_signature_algorithms", 13>>,
             <<"parse_tls_extension_heartbeat", 15>>, <<"parse_tls_extension_encrypt_then_mac", 22>>, <<"parse_tls_extension_extended_master_secret", 23>>,
             <<"parse_tls_extension_session_ticket", 35>>, <<"parse_tls_extension_pre_shared_key", 41>>, <<"parse_tls_extension_early_data", 42>>,
             <<"parse_tls_extension_supported_versions", 43>>, <<"parse_tls_extension_cookie", 44>>, <<"parse_tls_extension_psk_key_exchange_modes", 45>>,
             <<"parse_tls_extension_key_share", 51>> >>
TagLens == <<0, 1, 2, 3, 5>>
TagBodies == << <<1, 0, 2, 3, 4>>, <<0, 3, 1, 2, 3>> >>
TagPool == [q \in 1..(Len(TagFns) * Len(TagLens) * Len(TagBodies)) |->
  LET f == TagFns[((q - 1) \div (Len(TagLens) * Len(TagBodies))) + 1]
      n == TagLens[(((q - 1) \div Len(TagBodies)) % Len(TagLens)) + 1]
      b == TagBodies[((q - 1) % Len(TagBodies)) + 1] IN
  Any_(f[1], NoArgs, BE16(f[2]) \o BE16(n) \o SubSeq(b, 1, n))]

Sig1 == [NoArgs EXCEPT !.sub = "dh", !.ext = 1]
Sig0 == [NoArgs EXCEPT !.sub = "ecdh", !.ext = 0]

BadSidCh == <<1, 0, 0, 74, 3, 3>> \o Fill(5, 32) \o <<33>> \o Fill(6, 33) \o <<0, 2, 0, 47, 1, 0>>
Pool0 == <<
  Ok_("parse_tls_plaintext", NoArgs, EncRecordRaw(22, 771, <<14, 0, 0, 0>> \o CH)),
  Ok_("parse_tls_plaintext", NoArgs, EncRecordRaw(21, 771, <<1, 0>>)),
  Ok_("parse_tls_plaintext", NoArgs, EncRecordRaw(24, 771, <<1, 0, 1, 7, 0, 0>>)),
  Ok_("parse_tls_plaintext", NoArgs, EncRecordRaw(23, 771, <<5, 6, 7>>)),
  Ok_("parse_tls_raw_record", NoArgs, EncRecordRaw(22, 771, <<1, 2, 3>>)),
  Ok_("parse_tls_encrypted", NoArgs, EncRecordRaw(23, 771, <<>>)),
  Ok_("tls_parser", NoArgs, EncRecordRaw(20, 771, <<1>>)),
  Ok_("tls_parser", NoArgs, EncRecordRaw(20, 771, <<1, 0>>)), Ok_("tls_parser", NoArgs, EncRecordRaw(21, 771, <<1, 0, 2>>)),      \* bytes after the last message, inside the record
  Ok_("tls_parser", NoArgs, EncRecordRaw(22, 771, <<14, 0, 0, 0, 11, 0>>)), Ok_("parse_tls_plaintext", NoArgs, EncRecordRaw(22, 771, <<14, 0, 0, 0, 11, 0>>)),
  Ok_("parse_tls_plaintext", NoArgs, EncRecordRaw(22, 771, <<0, 0, 0, 0>> \o BadSidCh)),                                           \* a hard-rejected message after a valid one
  Ok_("parse_dtls_plaintext_record", NoArgs, EncDtlsRecord(22, 65277, 1, <<0, 0, 5>>, EncDtlsHs(14, 0, 3, 0, 0, <<>>))),
  Ok_("parse_dtls_plaintext_record", NoArgs, EncDtlsRecord(22, 65277, 1, <<0, 0, 5>>, EncDtlsHs(11, 30, 3, 4, 2, <<7, 7>>))),
  Ok_("parse_dtls_message_handshake", NoArgs, EncDtlsHs(16, 2, 1, 0, 2, <<8, 9>>)),
  Ok_("parse_dtls_message_handshake", NoArgs, EncDtlsHs(11, 200000, 1, 0, 65536, Fill(3, 65536))),   \* a fragment of 2^16 bytes
  Ok_("parse_dtls_message_handshake", NoArgs, EncDtlsHs(16, 70000, 2, 0, 70000, Fill(4, 70000))),     \* a whole message of 70000 bytes
  Ok_("parse_tls_message_handshake", NoArgs, CH),
  Ok_("parse_tls_message_handshake", NoArgs, CERT),
  Ok_("parse_tls_message_handshake", NoArgs, <<0, 0, 0, 0>>),
  Ok_("parse_tls_message_handshake", NoArgs, <<4, 0, 0, 5, 0, 0, 0, 1, 9>>),
  Ok_("parse_tls_message_handshake", NoArgs, <<22, 0, 0, 5, 1, 0, 0, 1, 7>>),
  Ok_("parse_tls_message_handshake", NoArgs, <<13, 0, 0, 8, 1, 1, 0, 2, 4, 1, 0, 0>>),
  Ok_("parse_tls_extension", NoArgs, <<0, 0, 0, 6, 0, 4, 0, 0, 1, 97>>),
  Ok_("parse_tls_client_hello_extension", NoArgs, <<0, 16, 0, 5, 0, 3, 2, 104, 50>>),
  Ok_("parse_tls_server_hello_extension", NoArgs, <<0, 99, 0, 2, 7, 7>>),
  Ok_("parse_tls_extension", NoArgs, <<10, 10, 0, 1, 0>>),
  Ok_("parse_tls_extension", NoArgs, <<0, 10, 0, 4, 0, 2, 0, 23>>),
  Ok_("parse_tls_extension_sni", NoArgs, <<0, 0, 0, 6, 0, 4, 0, 0, 1, 97>>),
  (* every TLS 1.3 extension through the ClientHello / ServerHello dispatchers: what follows an extension is not its business *)
  Ok_("parse_tls_client_hello_extension", NoArgs, <<0, 41, 0, 2, 1, 2>>), Ok_("parse_tls_server_hello_extension", NoArgs, <<0, 41, 0, 2, 0, 0>>),
  Ok_("parse_tls_client_hello_extension", NoArgs, <<0, 51, 0, 4, 0, 2, 0, 29>>), Ok_("parse_tls_server_hello_extension", NoArgs, <<0, 51, 0, 2, 0, 23>>),
  Ok_("parse_tls_client_hello_extension", NoArgs, <<0, 43, 0, 3, 2, 3, 4>>), Ok_("parse_tls_server_hello_extension", NoArgs, <<0, 43, 0, 2, 3, 4>>),
  Ok_("parse_tls_client_hello_extension", NoArgs, <<0, 42, 0, 0>>), Ok_("parse_tls_client_hello_extension", NoArgs, <<0, 44, 0, 1, 9>>),
  Ok_("parse_tls_client_hello_extension", NoArgs, <<0, 45, 0, 2, 1, 1>>), Ok_("parse_tls_client_hello_extension", NoArgs, <<0, 49, 0, 0>>),
  Ok_("parse_tls_client_hello_extension", NoArgs, <<0, 35, 0, 2, 7, 7>>), Ok_("parse_tls_server_hello_extension", NoArgs, <<0, 35, 0, 0>>),
  Ok_("parse_tls_client_hello_extension", NoArgs, <<255, 1, 0, 1, 0>>), Ok_("parse_tls_server_hello_extension", NoArgs, <<0, 16, 0, 5, 0, 3, 2, 104, 50>>),
  Ok_("parse_tls_extension_psk_key_exchange_modes", NoArgs, <<0, 45, 0, 2, 1, 1>>), Ok_("parse_tls_extension_max_fragment_length", NoArgs, <<0, 1, 0, 1, 4>>),
  Ok_("parse_tls_extension_ec_point_formats", NoArgs, <<0, 11, 0, 2, 1, 0>>), Ok_("parse_tls_extension_key_share", NoArgs, <<0, 51, 0, 2, 0, 29>>),
  (* DTLS messages whose fragment_length exceeds their total length (unfragmented by the crate's rule) *)
  Ok_("parse_dtls_message_handshake", NoArgs, EncDtlsHs(14, 0, 3, 0, 2, <<5, 6>>)), Ok_("parse_dtls_message_handshake", NoArgs, EncDtlsHs(16, 1, 1, 0, 3, <<7, 8, 9>>)),
  Ok_("parse_tls_extension_unknown", NoArgs, <<1, 2, 0, 1, 5>>),
  (* a later DTLS fragment reaching past the end of its message: still fragment-length bytes *)
  Ok_("parse_dtls_message_handshake", NoArgs, EncDtlsHs(16, 10, 1, 5, 9, <<1, 2, 3, 4, 5, 6, 7, 8, 9>>)), Ok_("parse_dtls_message_handshake", NoArgs, EncDtlsHs(11, 3, 2, 3, 2, <<7, 8>>)),
  (* the kinds without fields declare a length like any other: that many bytes belong to them *)
  Ok_("parse_tls_message_handshake", NoArgs, <<5, 0, 0, 3, 1, 2, 3>>), Ok_("parse_tls_message_handshake", NoArgs, <<0, 0, 0, 4, 14, 0, 0, 0>>),
  Ok_("parse_tls_plaintext", NoArgs, EncRecordRaw(22, 771, <<5, 0, 0, 2, 9, 9, 14, 0, 0, 0>>)),
  Ok_("parse_ct_signed_certificate_timestamp", NoArgs, EncSct(Sc)),
  Ok_("parse_ct_signed_certificate_timestamp_list", NoArgs, EncSctList(<<Sc, Sc>>)),
  Ok_("parse_ct_signed_certificate_timestamp_list", NoArgs, <<0, 0>>),
  Ok_("parse_ct_signed_certificate_timestamp_list", NoArgs, BE16(Len(EncSct(Sc)) + 3) \o EncSct(Sc) \o <<0, 9, 1>>),       \* a valid SCT, then three bytes that are not one
  Ok_("parse_ct_signed_certificate_timestamp_list", NoArgs, BE16(2 * Len(EncSct(Sc)) + 1) \o EncSct(Sc) \o EncSct(Sc) \o <<0>>),
  Ok_("parse_dh_params", NoArgs, <<0, 2, 1, 2, 0, 0, 0, 1, 5>>),
  Ok_("parse_ecdh_params", NoArgs, <<3, 0, 23, 2, 4, 4>>),
  Ok_("parse_ecdh_params", NoArgs, <<3, 0, 29, 2, 4, 4>>), Ok_("parse_ecdh_params", NoArgs, <<3, 0, 30, 1, 9>>), Ok_("parse_ecdh_params", NoArgs, <<3, 0, 29, 0>>),   \* x25519 / x448: the point is still length-prefixed
  Ok_("parse_ecdh_params", NoArgs, <<3, 0, 29, 33>> \o Fill(2, 33)), Ok_("parse_content_and_signature", [Sig1 EXCEPT !.sub = "ecdh"], <<3, 0, 30, 2, 4, 4, 4, 3, 0, 1, 9>>),
  Ok_("parse_ec_parameters", NoArgs, <<3, 0, 29>>),
  Ok_("parse_ec_parameters", NoArgs, <<1, 1, 7, 0, 1, 1, 2, 4, 4, 0, 1, 1>>),
  Ok_("ECPoint::parse", NoArgs, <<2, 4, 4>>),
  Ok_("parse_digitally_signed", NoArgs, <<4, 3, 0, 2, 9, 9>>),
  Ok_("parse_digitally_signed_old", NoArgs, <<0, 2, 9, 9>>),
  Ok_("parse_content_and_signature", Sig1, <<0, 1, 1, 0, 1, 2, 0, 1, 3, 4, 1, 0, 1, 9>>),
  Ok_("parse_content_and_signature", Sig0, <<3, 0, 23, 1, 4, 0, 1, 9>>),
  (* structures whose leading u16 is small: a suffix of the right length makes the whole input a well-formed value of the OTHER *)
  (* signature structure (RFC 2246 vs RFC 5246); the verdict must not change                                                    *)
  Ok_("parse_content_and_signature", Sig1, <<0, 1, 1, 0, 1, 2, 0, 1, 3, 0, 4, 0, 1, 9>>),
  Ok_("parse_content_and_signature", [Sig1 EXCEPT !.sub = "ecdh"], <<3, 0, 23, 1, 4, 0, 6, 0, 2, 9, 9>>),
  Ok_("parse_content_and_signature", Sig0, <<3, 0, 23, 1, 4, 0, 2, 0, 1>>),
  Ok_("parse_digitally_signed", NoArgs, <<0, 5, 0, 1, 9>>),
  Ok_("parse_digitally_signed_old", NoArgs, <<0, 2, 0, 3>>),
  Ok_("parse_dh_params", NoArgs, <<0, 1, 1, 0, 1, 2, 0, 2, 0, 3>>),
  Ok_("ECPoint::parse", NoArgs, <<1, 3>>),
  Ok_("parse_dtls_plaintext_record", NoArgs, EncDtlsRecord(22, 65277, 1, <<0, 0, 5>>, EncDtlsHs(14, 0, 3, 0, 0, <<>>) \o EncDtlsHs(14, 0, 4, 0, 0, <<>>))),
  (* complete containers whose nested length fields lie: the suffix must not be able to satisfy them *)
  Bad("parse_tls_plaintext", NoArgs, EncRecordRaw(22, 771, <<14, 0, 0, 9, 1>>)),                 \* hl beyond the record
  Bad("parse_tls_plaintext", NoArgs, EncRecordRaw(24, 771, <<1, 0, 9, 1>>)),                     \* heartbeat payload beyond the record
  Bad("parse_tls_plaintext", NoArgs, EncRecordRaw(21, 771, <<1>>)),                              \* alert cut by the record length
  Bad("parse_dtls_plaintext_record", NoArgs, EncDtlsRecord(22, 65277, 0, <<0, 0, 0>>, <<14, 0, 0, 0, 0, 0, 0, 0, 0, 0, 0, 9, 1>>)),
  (* a DTLS message whose fragment_length reaches beyond its record (total length within it) *)
  Bad("parse_dtls_plaintext_record", NoArgs, EncDtlsRecord(22, 65277, 0, <<0, 0, 0>>, <<14, 0, 0, 0, 0, 0, 0, 0, 0, 0, 0, 2>>)),
  Bad("parse_dtls_plaintext_record", NoArgs, EncDtlsRecord(22, 65277, 0, <<0, 0, 0>>, <<16, 0, 0, 1, 0, 0, 0, 0, 0, 0, 0, 3, 7>>)),
  Bad("parse_tls_message_handshake", NoArgs, <<11, 0, 0, 4, 0, 0, 9, 48>>),                      \* certificate list beyond the message
  Bad("parse_tls_message_handshake", NoArgs, <<1, 0, 0, 3, 3, 3, 0>>),                           \* ClientHello cut by hl
  Bad("parse_tls_message_handshake", NoArgs, <<22, 0, 0, 4, 1, 0, 0, 9>>),                       \* status blob beyond the message
  Bad("parse_tls_message_handshake", NoArgs, <<4, 0, 0, 3, 0, 0, 0>>),                           \* ticket shorter than 4
  Bad("parse_tls_extension", NoArgs, <<0, 0, 0, 3, 0, 9, 0>>),                                   \* SNI list beyond the extension
  Bad("parse_tls_extension", NoArgs, <<0, 11, 0, 1, 5>>),                                        \* point formats beyond the extension
  Bad("parse_tls_extension", NoArgs, <<0, 22, 0, 1, 0>>),                                        \* empty-only extension with data
  Bad("parse_ct_signed_certificate_timestamp", NoArgs, <<0, 3, 0, 1, 2>>),                       \* entry shorter than an SCT
  Bad("parse_ec_parameters", NoArgs, <<2, 0, 23>>),                                              \* unsupported curve type
  Bad("parse_ecdh_params", NoArgs, <<7, 0, 23, 1, 4>>),
  (* records whose payload ends inside the NEXT message (a complete message, then a header announcing more than is there; then 1..3 bytes): *)
  (* through a fresh stateful parser the complete messages are returned, borrowed from the record, exactly as by the one-shot parsers      *)
  Any_("fresh_parse_record", NoArgs, EncRecordRaw(22, 771, <<14, 0, 0, 0, 11, 0, 0, 5, 1>>)),
  Any_("fresh_parse_record", NoArgs, EncRecordRaw(22, 771, <<14, 0, 0, 0, 11, 0, 0>>)),
  Any_("fresh_parse_record", NoArgs, EncRecordRaw(22, 771, <<14, 0, 0, 0, 11, 0, 0, 5>>)),
  Any_("fresh_parse_record", NoArgs, EncRecordRaw(22, 771, CH \o <<2, 0, 0, 40, 3, 3>>)),
  Any_("fresh_parse_record", NoArgs, EncRecordRaw(22, 769, <<16, 0, 0, 2, 1, 2, 20, 0, 0, 12, 1, 2, 3>>)),
  Any_("fresh_parse_record", NoArgs, EncRecordRaw(21, 771, <<1, 0, 2>>)),
  Any_("parse_tls_plaintext", NoArgs, EncRecordRaw(22, 771, <<14, 0, 0, 0, 11, 0, 0, 5, 1>>)),
  Any_("two_step", NoArgs, EncRecordRaw(22, 771, <<14, 0, 0, 0, 11, 0, 0, 5, 1>>)),
  Any_("two_step", NoArgs, EncRecordRaw(22, 771, CH \o <<2, 0, 0, 40, 3, 3>>)),
  (* a record through a stateful parser whose previous record was REFUSED, or that completed a defragmentation before: the value is *)
  (* borrowed from THIS record (a parser that kept collecting would hand out slices of its own buffer)                              *)
  Any_("hist_parse_record", [NoArgs EXCEPT !.sub = "badhs"], EncRecordRaw(22, 771, CH)),
  Any_("hist_parse_record", [NoArgs EXCEPT !.sub = "defrag+badhs"], EncRecordRaw(22, 771, <<14, 0, 0, 0>> \o CERT)),
  Any_("hist_parse_record", [NoArgs EXCEPT !.sub = "defrag"], EncRecordRaw(22, 771, CH)),
  Any_("hist_parse_record", [NoArgs EXCEPT !.sub = "badct"], EncRecordRaw(23, 771, <<1, 2, 3>>)),
  Any_("hist_parse_record", [NoArgs EXCEPT !.sub = "nocopyfrag"], EncRecordRaw(22, 771, CH)),
  Any_("hist_parse_record", [NoArgs EXCEPT !.sub = "nocopyfrag2"], EncRecordRaw(21, 771, <<1, 0, 2, 40>>)),
  Any_("hist_parse_record", [NoArgs EXCEPT !.sub = "badlen"], EncRecordRaw(22, 771, <<14, 0, 0, 0>> \o CERT)),
  Any_("hist_parse_record", [NoArgs EXCEPT !.sub = "badver"], EncRecordRaw(22, 771, CH)),
  Any_("hist_parse_record", [NoArgs EXCEPT !.sub = "reset"], EncRecordRaw(24, 771, <<1, 0, 1, 9>> \o Fill(2, 16)))
  >>
ASSUME TLCSet(4, Pool0 \o TagPool)
Pool == TLCGet(4)
Sfx(s) == << <<>>, <<0>>, s, <<22, 3, 3, 255, 255>>, <<255, 255, 255, 255, 255, 255, 255, 255, 255>> >>
          \o [n \in 1..12 |-> [j \in 1..n |-> (7 * j) % 256]]      \* every suffix length 1..12
(* what follows may also be a structure that a parser REJECTS HARD (a well-framed record holding a ClientHello with a 33-byte session id): *)
(* the verdict on what precedes it does not change                                                                                  *)
NSfx == 19 + Len(LongTails)
SfxParts(s, k) == IF k <= 17 THEN <<Lit(Sfx(s)[k])>>
                  ELSE IF k = 18 THEN <<Lit(EncRecordRaw(22, 771, BadSidCh))>>
                  ELSE IF k = 19 THEN <<Lit(BadSidCh)>>
                  ELSE <<RepPart(171, LongTails[k - 19])>>

N == Len(Pool) * NSfx
PoolOf(j) == Pool[((j - 1) \div NSfx) + 1]
PartsOf(j) == LET c == PoolOf(j) IN <<Lit(c.s)>> \o SfxParts(c.s, ((j - 1) % NSfx) + 1)
BytesOf(j) == Flatten(PartsOf(j))
VARIABLES i, res
Init == i = Chunk + 1 /\ i <= N /\ res = Apply(PoolOf(i).fn, PoolOf(i).a, BytesOf(i))
Next == i + NChunks <= N /\ i' = i + NChunks /\ res' = Apply(PoolOf(i').fn, PoolOf(i').a, BytesOf(i'))

Base(j) == Apply(PoolOf(j).fn, PoolOf(j).a, PoolOf(j).s)
(* Local: appending bytes leaves value and consumed length unchanged (ranges are relative, so equality is literal) *)
Local == PoolOf(i).good => (Base(i).k = "ok" /\ Base(i).p = Len(PoolOf(i).s) /\ res = Base(i))
(* ClassStable: on inputs that already contain the declared length the outcome class does not change *)
ClassStable == res.k = Base(i).k /\ ((~PoolOf(i).good /\ PoolOf(i).strict) => res.k # "ok") /\ (Base(i).k = "ok" => res = Base(i))
(* where the specification answers with an error the CLASS is pinned: a complete malformed structure is an error, not a request for more *)
Pin == IF res.k = "ok" THEN "full" ELSE IF res.k \in {"err", "fail"} THEN "reject" ELSE "novalue"
EmitCase == LET c == PoolOf(i) IN EmitLine(CaseLine(i, c.fn, c.a, PartsOf(i), res, Pin, [good |-> c.good, sfx |-> (i - 1) % NSfx]))
=============================================================================
