INIT Init
NEXT Next
CONSTANT RangeMode = TRUE
INVARIANT ManyLocal
INVARIANT EmitCase
CHECK_DEADLOCK FALSE
