----------------------------- MODULE MC_C06_Many -----------------------------
(***************************************************************************)
(* Locality for the multi-record entry points: after the records of b,     *)
(* bytes that are NOT another whole record - 1 to 4 stray bytes, a header   *)
(* whose body is cut short, a header above the cap, bytes that fail to      *)
(* decode - leave the returned records unchanged and are the remainder.     *)
(***************************************************************************)
EXTENDS Calls, Emit
TlsB == << EncRecordRaw(22, 771, <<14, 0, 0, 0>>), EncRecordRaw(21, 771, <<1, 0>>) \o EncRecordRaw(20, 771, <<1>>),
           EncRecordRaw(23, 771, <<5, 6, 7>>) \o EncRecordRaw(22, 769, <<20, 0, 0, 2, 1, 2>>) \o EncRecordRaw(24, 771, <<1, 0, 1, 9>> \o Fill(1, 16)) >>
DtlsB == << EncDtlsRecord(22, 65277, 0, <<0, 0, 1>>, EncDtlsHs(14, 0, 1, 0, 0, <<>>)),
            EncDtlsRecord(20, 65277, 0, <<0, 0, 2>>, <<1>>) \o EncDtlsRecord(21, 65277, 1, <<0, 0, 0>>, <<2, 40>>) >>
TlsX == << <<7>>, <<22>>, <<22, 3>>, <<22, 3, 3>>, <<22, 3, 3, 0>>, <<22, 3, 3, 0, 9>>, <<22, 3, 3, 0, 9, 14, 0, 0>>, <<23, 3, 3, 64, 255>>, <<23, 3, 3, 65, 1>>,
           <<0, 0, 0, 0>>, <<255>>, EncRecordRaw(22, 771, <<99, 0, 0, 0>>), EncRecordRaw(7, 771, <<1>>) >>
DtlsX == << <<7>>, <<22, 254>>, <<22, 254, 253, 0, 0, 0, 0, 0, 0, 0, 1, 0>>, <<22, 254, 253, 0, 0, 0, 0, 0, 0, 0, 1, 0, 9>>, <<22, 254, 253, 0, 0, 0, 0, 0, 0, 0, 1, 0, 9, 14, 0>>,
            <<20, 254, 253, 0, 0, 0, 0, 0, 0, 0, 1, 65, 1>>, <<0, 0, 0>>, EncDtlsRecord(23, 65277, 0, <<0, 0, 3>>, <<1>>) >>
Cases == Concat([b \in 1..Len(TlsB) |-> [x \in 1..Len(TlsX) |-> [fn |-> "tls_parser_many", b |-> TlsB[b], x |-> TlsX[x]]]])
         \o Concat([b \in 1..Len(DtlsB) |-> [x \in 1..Len(DtlsX) |-> [fn |-> "parse_dtls_plaintext_records", b |-> DtlsB[b], x |-> DtlsX[x]]]])
N == Len(Cases)
VARIABLES i, res
Init == i = Chunk + 1 /\ i <= N /\ res = Apply(Cases[i].fn, NoArgs, Cases[i].b \o Cases[i].x)
Next == i + NChunks <= N /\ i' = i + NChunks /\ res' = Apply(Cases[i'].fn, NoArgs, Cases[i'].b \o Cases[i'].x)
ManyLocal == LET c == Cases[i]  base == Apply(c.fn, NoArgs, c.b) IN
  base.k = "ok" /\ base.p = Len(c.b) /\ res = base
EmitCase == EmitLine(CaseLine(i, Cases[i].fn, NoArgs, <<Lit(Cases[i].b), Lit(Cases[i].x)>>, res, "full", [kind |-> "manylocal", n |-> Len(Cases[i].x)]))
=============================================================================
