------------------------------- MODULE MC_C07 -------------------------------
(***************************************************************************)
(* C07 - the record defragmenter as a state machine: bounded exhaustive    *)
(* exploration of every interleaving of parse_record / parse_record_nocopy *)
(* / reset over a universe of records, with the property's clauses as      *)
(* invariants and action properties, and one transition test per           *)
(* (state, operation) emitted for replay on the real TlsRecordsParser.     *)
(***************************************************************************)
EXTENDS Defrag, Emit

CONSTANT Big    \* FALSE: quick universe; TRUE: thorough universe

A == <<20, 0, 0, 2, 170, 187>>                 \* Finished(2)
B == <<0, 0, 0, 0, 14, 0, 0, 0>>               \* HelloRequest ++ ServerDone
H == <<1, 0, 2, 7, 8, 0, 0>>                   \* heartbeat, 2 payload + 2 padding bytes
Frags(p, cuts) == {SubSeq(p, 1, c) : c \in cuts} \cup {SubSeq(p, c + 1, Len(p)) : c \in cuts}
                  \cup {SubSeq(p, c + 1, d) : c \in cuts, d \in cuts}

HsData == Frags(A, IF Big THEN {3, 4, 5} ELSE {3, 4}) \cup Frags(B, IF Big THEN {2, 4} ELSE {4})
          \cup {A, B, <<>>, <<99, 0, 0, 0>>} \cup (IF Big THEN {} ELSE {})
HbData == Frags(H, IF Big THEN {2, 4} ELSE {2}) \cup {H, <<>>}

Records ==
  {OpRecord(22, 771, d) : d \in HsData} \cup {OpRecord(24, 769, d) : d \in HbData}
  \cup {OpRecord(23, 771, <<9, 9>>), OpRecord(23, 771, <<>>), OpRecord(21, 771, <<1, 0>>), OpRecord(21, 771, <<1>>),
        OpRecord(20, 771, <<1>>), OpRecord(20, 771, <<>>), OpRecord(99, 771, <<1>>)}
Ops == Records \cup {OpNoCopy(22, 771, A), OpNoCopy(22, 771, SubSeq(A, 1, 3)), OpNoCopy(21, 771, <<1, 0>>),
                     OpNoCopy(24, 769, SubSeq(H, 1, 2)), OpReset}
ASSUME TLCSet(1, SetToSeq(Ops))
OpSeq == TLCGet(1)
NOps == Len(OpSeq)

VARIABLES buf, cur,      \* the state of the defragmenter
          acc,           \* history: the fragments accumulated since defragmentation started
          last,          \* history: the outcome of the last step
          path           \* history: operation indices leading here (hidden from the state identity)
vars == <<buf, cur, acc, last, path>>
View == <<buf, cur>>

St == [buf |-> buf, cur |-> cur]
NoLast == [res |-> Ok(0, <<>>), path |-> "Init", src |-> "none", prevbuf |-> <<>>, prevcur |-> -1]

Init == buf = <<>> /\ cur = -1 /\ acc = <<>> /\ last = NoLast /\ path = <<>>

Do(j) ==
  LET op == OpSeq[j] out == Step(St, op) IN
  /\ buf' = out.buf /\ cur' = out.cur
  /\ last' = [res |-> out.res, path |-> out.path, src |-> out.src, prevbuf |-> buf, prevcur |-> cur]
  /\ acc' = CASE out.path = "First_StartDefrag" -> op.data
              [] out.path \in {"Cont_Complete", "Reset"} -> <<>>
              [] out.path \in {"Cont_NeedMore", "Cont_Error"} -> acc \o op.data
              [] OTHER -> acc
  /\ path' = Append(path, j)
Next == \E j \in 1..NOps : Do(j)

-----------------------------------------------------------------------------
InProgress == cur # -1

(* while defragmenting the buffer is exactly the accumulated fragments *)
RefinesAccumulate == InProgress => buf = acc

(* Tag / TooLarge / NonEmpty refusals leave the state unchanged *)
ErrorsPreserveState ==
  (last.res.k \in {"err", "fail"} /\ last.res.e \in {"Tag", "TooLarge", "NonEmpty"}
   /\ last.path \in {"Cont_WrongType", "Cont_TooLarge", "NoCopy_Refuse"})
     => (buf = last.prevbuf /\ cur = last.prevcur)

(* for records within the record cap the buffer never reaches the limit *)
BufferBound == Len(buf) < MaxRecordData

(* defragmentation is in progress exactly after a need-more answer, a hard error during *)
(* continuation, or a refusal while it was in progress                                  *)
InProgressIff ==
  InProgress <=> (last.path \in {"First_StartDefrag", "Cont_NeedMore", "Cont_Error"}
                  \/ (last.path \in {"Cont_WrongType", "Cont_TooLarge", "NoCopy_Refuse"} /\ last.prevcur # -1))

(* every need-more answer is Incomplete, and only while (now) in progress or from nocopy *)
NeedMoreIsIncomplete ==
  last.path \in {"First_StartDefrag", "Cont_NeedMore"} => (last.res.k = "inc" /\ InProgress)

(* a completed defragmentation answers exactly the one-shot parse of the concatenation *)
CompletionEqualsOneShot ==
  last.path = "Cont_Complete" =>
     (last.res = OneShot(last.prevcur, buf, Len(buf)) /\ last.src = "buf" /\ ~InProgress)

(* a record that parses on its own is returned without buffering *)
NoBufferingWhenComplete ==
  last.path = "First_Complete" => (buf = last.prevbuf /\ ~InProgress /\ last.src = "rec")

(* after reset and after a completed message it behaves like a fresh parser: the response to *)
(* every operation is that of the initial state, and no earlier byte can appear in it         *)
FreshAfterResetOrCompletion ==
  ~InProgress => \A j \in 1..NOps :
      LET a == Step(St, OpSeq[j]) b == Step(InitState, OpSeq[j]) IN
      a.res = b.res /\ a.src = b.src /\ a.cur = b.cur /\ (a.cur # -1 => a.buf = b.buf)

(* every transition of the byte-level machine is a step of the length-only machine DefragLen.tla (same path names), *)
(* whose BufferBound is proved for unbounded parameters with TLAPS                                                 *)
RefinesDefragLen ==
  CASE last.path = "Init" -> TRUE
    [] last.path = "Reset" -> buf = <<>> /\ cur = -1
    [] last.path \in {"NoCopy_Refuse", "NoCopy_NeedMore", "NoCopy_Parse", "First_Complete", "First_Error", "Cont_WrongType", "Cont_TooLarge"} ->
         buf = last.prevbuf /\ cur = last.prevcur
    [] last.path = "First_StartDefrag" -> last.prevcur = -1 /\ cur # -1
    [] last.path = "Cont_Complete" ->
         last.prevcur # -1 /\ cur = -1 /\ Len(buf) >= Len(last.prevbuf) /\ Len(buf) < MaxRecordData
    [] last.path \in {"Cont_NeedMore", "Cont_Error"} ->
         cur = last.prevcur /\ cur # -1 /\ Len(buf) >= Len(last.prevbuf) /\ Len(buf) < MaxRecordData

(* one transition test per (state, operation): emitted once per distinct state *)
OpJson(op) == [op |-> op.op, ct |-> op.ct, ver |-> op.ver, data |-> <<Lit(op.data)>>]
(* in the thorough universe (~600 k states) every state is model-checked but only a deterministic 1-in-SampleMod sample of *)
(* them (by a checksum of the buffer), plus every idle state and every state with a short buffer, is turned into tests      *)
SampleMod == IF Big THEN 131 ELSE 1
Checksum == FoldLeft(LAMBDA a, x : (a * 31 + x + 7) % 1000003, Len(buf) + cur + 2, buf)
EmitTransitions ==
  (cur = -1 \/ Len(buf) <= 5 \/ Checksum % SampleMod = 0) =>
  EmitLine([id |-> ToString(path), prefix |-> [h \in 1..Len(path) |-> OpJson(OpSeq[path[h]])], seq |-> FALSE,
            tests |-> [j \in 1..NOps |-> OpJson(OpSeq[j])],
            expect |-> [j \in 1..NOps |->
               LET out == Step(St, OpSeq[j]) IN
               [res |-> out.res, src |-> out.src, inprog |-> out.cur # -1, buflen |-> Len(out.buf),
                path |-> out.path, unchanged |-> (out.buf = buf /\ out.cur = cur)]]])
=============================================================================
