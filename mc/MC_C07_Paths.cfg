INIT Init
NEXT Next
CONSTANT RangeMode = TRUE
CONSTANT MaxRecordData = 10485760
INVARIANT EmitRun
CHECK_DEADLOCK FALSE
