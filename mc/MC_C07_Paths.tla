----------------------------- MODULE MC_C07_Paths -----------------------------
(***************************************************************************)
(* C07: ALL operation sequences of length <= Depth over a small universe,  *)
(* each with the outcome the state machine prescribes after every step.    *)
(* The reachable-state exploration of MC_C07 yields one test per model     *)
(* state (reached by its shortest path); an implementation that carries    *)
(* state the model does not have (a cached hint surviving reset(), a       *)
(* stored header) can agree on every such test and still diverge after a   *)
(* particular history.  Replaying every short history closes that gap.     *)
(***************************************************************************)
EXTENDS Defrag, Emit

A == <<20, 0, 0, 2, 170, 187>>                      \* Finished(2)
L == <<20, 0, 0, 5, 1, 2, 3, 4, 5>>                 \* Finished(5): a longer message
H == <<1, 0, 2, 7, 8, 0>>                           \* heartbeat
U == << OpReset,
        OpNoCopy(22, 771, A),
        OpRecord(22, 771, SubSeq(A, 1, 3)),         \* cut inside the handshake header
        OpRecord(22, 771, SubSeq(A, 4, 6)),
        OpRecord(22, 769, SubSeq(A, 4, 6)),         \* the same fragment under another record version
        OpRecord(22, 771, SubSeq(L, 1, 5)),         \* header + one byte of the longer message
        OpRecord(22, 771, SubSeq(L, 6, 9)),
        OpRecord(22, 771, <<>>),
        OpRecord(22, 771, A),
        OpRecord(24, 771, SubSeq(H, 1, 2)),
        OpRecord(24, 770, SubSeq(H, 3, 6)),
        OpRecord(21, 771, <<1, 0>>),
        OpRecord(23, 771, <<9>>) >>
NU == Len(U)
Depth == IF Thorough THEN 5 ELSE 4

(* sequence number j (0-based) of length d, as a tuple of indices into U *)
IdxOf(j, d) == [h \in 1..d |-> ((j \div (NU ^ (h - 1))) % NU) + 1]
Count(d) == NU ^ d
N == Count(Depth)

VARIABLE i
Init == i = Chunk /\ i < N
Next == i + NChunks < N /\ i' = i + NChunks

RunOf(idx) ==
  FoldLeft(LAMBDA st, k : LET out == Step([buf |-> st.buf, cur |-> st.cur], U[k]) IN
                          [buf |-> out.buf, cur |-> out.cur,
                           outs |-> Append(st.outs, [res |-> out.res, src |-> out.src, inprog |-> out.cur # -1,
                                                     buflen |-> Len(out.buf), path |-> out.path, unchanged |-> FALSE])],
           [buf |-> <<>>, cur |-> -1, outs |-> <<>>], idx)

OpJson(op) == [op |-> op.op, ct |-> op.ct, ver |-> op.ver, data |-> <<Lit(op.data)>>]
(* a sequence is emitted only if it does not start with a no-op prefix that a shorter sequence covers: every *)
(* sequence of length Depth is emitted; its prefixes are checked step by step by the same replay             *)
EmitRun ==
  LET idx == IdxOf(i, Depth) IN
  EmitLine([id |-> i, prefix |-> <<>>, seq |-> TRUE, tests |-> [h \in 1..Depth |-> OpJson(U[idx[h]])],
            expect |-> RunOf(idx).outs])
=============================================================================
