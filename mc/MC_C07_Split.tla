----------------------------- MODULE MC_C07_Split -----------------------------
(***************************************************************************)
(* C07, the split statement checked directly: every k-way split (k = 1..4, *)
(* every cut point including inside the 4-byte handshake header, empty     *)
(* fragments anywhere) of every payload of the pool such that the first    *)
(* message is completed only by the last fragment: every call but the last *)
(* answers Incomplete with defragmentation in progress, the last returns   *)
(* exactly what parsing the unsplit payload returns and ends it.           *)
(***************************************************************************)
EXTENDS Defrag, Emit

R32 == Fill(7, 32)
CH == EncHs([t |-> "ClientHello", ver |-> 771, random |-> R32, sid |-> Some(<<1, 2, 3>>), ciphers |-> <<47, 53>>,
             comp |-> <<0>>, ext |-> Some(<<0, 23, 0, 0>>)])
(* [ct, payload, first = length of the first message] *)
Pool == <<
  [ct |-> 22, payload |-> <<20, 0, 0, 2, 170, 187>>, first |-> 6],
  [ct |-> 22, payload |-> <<0, 0, 0, 0, 14, 0, 0, 0>>, first |-> 4],
  [ct |-> 22, payload |-> <<20, 0, 0, 2, 170, 187, 14, 0, 0, 0>>, first |-> 6],
  [ct |-> 22, payload |-> CH, first |-> Len(CH)],
  [ct |-> 22, payload |-> <<11, 0, 0, 8, 0, 0, 5, 0, 0, 2, 48, 0>>, first |-> 12],
  [ct |-> 24, payload |-> <<1, 0, 2, 7, 8, 0, 0>>, first |-> 5],
  [ct |-> 24, payload |-> <<2, 0, 0>>, first |-> 3],
  [ct |-> 24, payload |-> <<1, 0, 4, 1, 2, 3, 4>> \o Fill(1, 16), first |-> 7] >>

(* cut tuples: non-decreasing, all cuts before the end of the first message *)
CutsOf(pl) ==
  LET m == pl.first - 1
      pts == IF m <= 12 THEN 0..m ELSE {0, 1, 2, 3, 4, 5, 38, 39, 40, m - 1, m} IN
  {<<>>} \cup {<<a>> : a \in pts} \cup {t \in pts \X pts : t[1] <= t[2]}
  \cup {t \in pts \X pts \X pts : t[1] <= t[2] /\ t[2] <= t[3] /\ t[1] <= 4 /\ t[2] <= 6}

SplitSeq == SetToSeq(UNION {{<<q>> \o cuts : cuts \in CutsOf(Pool[q])} : q \in 1..Len(Pool)})
ASSUME TLCSet(1, SplitSeq)
Splits == TLCGet(1)
N == Len(Splits)

FragsOf(sp) ==
  LET pl == Pool[sp[1]].payload  k == Len(sp) - 1
      bnd == <<0>> \o SubSeq(sp, 2, Len(sp)) \o <<Len(pl)>> IN
  [f \in 1..(k + 1) |-> SubSeq(pl, bnd[f] + 1, bnd[f + 1])]

(* run the fragments through the state machine *)
RunOf(sp) ==
  LET ct == Pool[sp[1]].ct  fr == FragsOf(sp) IN
  FoldLeft(LAMBDA st, d : LET out == Step([buf |-> st.buf, cur |-> st.cur], OpRecord(ct, 771, d)) IN
                          [buf |-> out.buf, cur |-> out.cur, outs |-> Append(st.outs, out)],
           [buf |-> <<>>, cur |-> -1, outs |-> <<>>], fr)

VARIABLES i, run
Init == i = Chunk + 1 /\ i <= N /\ run = RunOf(Splits[i])
Next == i + NChunks <= N /\ i' = i + NChunks /\ run' = RunOf(Splits[i'])

SplitStatement ==
  LET sp == Splits[i]  pl == Pool[sp[1]]  n == Len(run.outs) IN
  /\ \A f \in 1..(n - 1) : run.outs[f].res = IncUnknown /\ run.outs[f].cur = pl.ct
  /\ run.outs[n].res = OneShot(pl.ct, pl.payload, Len(pl.payload))
  /\ run.outs[n].res.k = "ok"
  /\ run.outs[n].cur = -1
  /\ run.outs[n].src = (IF n = 1 THEN "rec" ELSE "buf")

OpJson(op) == [op |-> op.op, ct |-> op.ct, ver |-> op.ver, data |-> <<Lit(op.data)>>]
EmitRun ==
  LET sp == Splits[i]  pl == Pool[sp[1]]  fr == FragsOf(sp) IN
  EmitLine([id |-> ToString(sp), prefix |-> <<>>, seq |-> TRUE,
            tests |-> [f \in 1..Len(fr) |-> OpJson(OpRecord(pl.ct, 771, fr[f]))],
            expect |-> [f \in 1..Len(fr) |->
               LET out == run.outs[f] IN
               [res |-> out.res, src |-> out.src, inprog |-> out.cur # -1, buflen |-> Len(out.buf),
                path |-> out.path, unchanged |-> FALSE]]])
=============================================================================
