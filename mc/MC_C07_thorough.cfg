INIT Init
NEXT Next
VIEW View
CONSTANT RangeMode = TRUE
CONSTANT MaxRecordData = 12
CONSTANT Big = TRUE
INVARIANT RefinesAccumulate
INVARIANT ErrorsPreserveState
INVARIANT BufferBound
INVARIANT InProgressIff
INVARIANT NeedMoreIsIncomplete
INVARIANT CompletionEqualsOneShot
INVARIANT NoBufferingWhenComplete
INVARIANT FreshAfterResetOrCompletion
INVARIANT RefinesDefragLen
INVARIANT EmitTransitions
CHECK_DEADLOCK FALSE
