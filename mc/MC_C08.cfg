INIT Init
NEXT Next
VIEW View
INVARIANT RuleInvariants
INVARIANT AlertUnreachable
INVARIANT EmitRow
CHECK_DEADLOCK FALSE
