------------------------------- MODULE MC_C08 -------------------------------
(***************************************************************************)
(* C08 - the handshake automaton: exhaustive exploration from None and the *)
(* property's rules as invariants over every cell of the (total) relation. *)
(* Emits the whole table (25 states x 2 directions x 23 kinds) and every    *)
(* flow as a path for replay.                                              *)
(***************************************************************************)
EXTENDS States, SequencesExt, Json, IOUtils

VARIABLES st, hist
View == st
Init == st = "None" /\ hist = <<>>
Next == \E k \in Kinds, d \in Dirs :
          /\ Trans(st, k, d).ok
          /\ st' = Trans(st, k, d).st
          /\ hist' = Append(hist, <<k, d>>)

Cells == AllStates \X Kinds \X Dirs

(* no two flow edges disagree *)
Deterministic == \A s \in AllStates, k \in Kinds, d \in Dirs : Cardinality({e.to : e \in Edge(s, k, d)}) <= 1
(* Invalid and SessionEncrypted absorb everything and never err *)
AbsorbingNeverErr == \A s \in {"Invalid", "SessionEncrypted"}, k \in Kinds, d \in Dirs : Trans(s, k, d) = OkS(s)
FinishedAlwaysInvalid == \A k \in Kinds, d \in Dirs : Trans("Finished", k, d) = OkS("Invalid")
Live == AllStates \ {"Invalid", "SessionEncrypted", "Finished"}
AlertRule == \A s \in Live, d \in Dirs : Trans(s, "AlertWarning", d) = OkS(s) /\ Trans(s, "AlertOther", d) = OkS("Finished")
HelloRequestRule == \A s \in Live, d \in Dirs :
                      Trans(s, "HelloRequest", d) = (IF s = "None" THEN InvalidTransition ELSE OkS(s))
(* every handshake message only from the peer that sends it *)
SenderRule == \A e \in FlowEdges : e.kind \in HandshakeKinds => Cardinality(e.dirs) = 1
(* exactly the documented flows: a live state changes (or self-loops on a flow) only along a flow edge *)
ExactlyDocumentedFlows ==
  \A s \in Live, k \in Kinds \ {"AlertWarning", "AlertOther", "HelloRequest"}, d \in Dirs :
     Trans(s, k, d).ok <=> Edge(s, k, d) # {}
NeverDataOrHeartbeat == \A s \in Live, d \in Dirs :
     ~Trans(s, "ApplicationData", d).ok /\ ~Trans(s, "Heartbeat", d).ok
RuleInvariants == Deterministic /\ AbsorbingNeverErr /\ FinishedAlwaysInvalid /\ AlertRule /\ HelloRequestRule
                  /\ SenderRule /\ ExactlyDocumentedFlows /\ NeverDataOrHeartbeat

(* reachability witnesses (checked as negated invariants in MC_C08_reach.cfg would fail; here: *)
(* TlsState::Alert has no incoming edge                                                        *)
AlertUnreachable == st # "Alert"

Emit(rec) == Serialize(ToJson(rec) \o "\n", IOEnv.VERIF_OUT,
                       [format |-> "TXT", charset |-> "UTF-8", openOptions |-> <<"WRITE", "CREATE", "APPEND">>]).exitValue = 0
(* one line per reached state: the shortest message sequence reaching it and the row of the table there *)
CellSeq == SetToSeq(Kinds \X Dirs)
EmitRow ==
  Emit([state |-> st, path |-> [j \in 1..Len(hist) |-> [kind |-> hist[j][1], dir |-> hist[j][2]]],
        cells |-> [j \in 1..Len(CellSeq) |->
                    [kind |-> CellSeq[j][1], dir |-> CellSeq[j][2], res |-> ResultCode(Trans(st, CellSeq[j][1], CellSeq[j][2]))]]])
=============================================================================
