INIT Init
NEXT Next
CONSTANT RangeMode = TRUE
INVARIANT InDomain
INVARIANT ParseBack
INVARIANT ReSerializeStable
INVARIANT EmitCase
CHECK_DEADLOCK FALSE
