------------------------------- MODULE MC_C09 -------------------------------
(***************************************************************************)
(* C09 - serializer output parses back to the same value with consistent    *)
(* lengths.  TLC checks ParseBack, ReSerializeStable and strictness on the  *)
(* specification and emits the values; the harness serializes them with the *)
(* crate; Trace_C09 judges the produced bytes.                              *)
(***************************************************************************)
EXTENDS Serialize, Emit

R32 == Fill(13, 32)
MapSeq(ixs, F(_)) == [j \in 1..Len(ixs) |-> F(ixs[j])]
Sids == <<None, Some(<<7>>), Some(Fill(3, 32))>>
Exts == <<None, Some(<<>>), Some(<<0, 23, 0, 0>>), Some(Fill(2, 300))>>
Ciphs == <<<<>>, <<47>>, <<4865, 49199, 65535>>>>
Comps == <<<<>>, <<0>>, Fill(1, 255)>>
ChIx == SetToSeq({<<a, b, c, d, e>> : a \in 1..4, b \in 1..3, c \in 1..3, d \in 1..3, e \in 1..4})
MkCh(ix) == [t |-> "ClientHello", ver |-> <<768, 771, 772, 65277>>[ix[1]], random |-> R32, sid |-> Sids[ix[2]], ciphers |-> Ciphs[ix[3]],
             comp |-> Comps[ix[4]], ext |-> Exts[ix[5]]]
ShIx == SetToSeq({<<a, b, c>> : a \in 1..4, b \in 1..3, c \in 1..4})
MkSh(ix) == [t |-> "ServerHello", ver |-> <<768, 769, 770, 771>>[ix[1]], random |-> R32, sid |-> Sids[ix[2]], cipher |-> <<0, 49199, 65535, 47>>[ix[3]],
             comp |-> <<0, 1, 255>>[ix[2]], ext |-> IF ix[1] = 1 THEN None ELSE Exts[ix[3]]]
D18 == [k \in 1..4 |-> [t |-> "ServerHelloV13Draft18", ver |-> 32530, random |-> R32, cipher |-> <<4865, 0, 65535, 4866>>[k], ext |-> Exts[k]]]
Blobs == <<<<>>, <<1>>, Fill(2, 255), Fill(3, 256), Fill(4, 1000)>>
Cke == Concat([k \in 1..5 |-> << [t |-> "ClientKeyExchange", kind |-> "Unknown", data |-> Blobs[k]],
                                 [t |-> "ClientKeyExchange", kind |-> "Dh", data |-> Blobs[k]] >>])
       \o [k \in 1..3 |-> [t |-> "ClientKeyExchange", kind |-> "Ecdh", data |-> Blobs[k]]]
Fin == [k \in 1..5 |-> [t |-> "Finished", data |-> Blobs[k]]]
BigCh == << [t |-> "ClientHello", ver |-> 771, random |-> R32, sid |-> None, ciphers |-> Pairs(Fill(4, 65534), 0, 65534), comp |-> <<0>>, ext |-> None],
            [t |-> "ClientHello", ver |-> 771, random |-> R32, sid |-> Some(Fill(3, 32)), ciphers |-> <<47>>, comp |-> <<0>>, ext |-> Some(Fill(8, 65535))] >>
(* every body size from 979 to 1100 bytes (whatever buffer an implementation may pick by estimating sizes) *)
SizeCh == [n \in 1..46 |-> [t |-> "ClientHello", ver |-> 771, random |-> R32, sid |-> IF n % 2 = 0 THEN None ELSE Some(<<7>>),
                             ciphers |-> [k \in 1..(469 + n) |-> k], comp |-> <<0>>, ext |-> IF n % 3 = 0 THEN Some(<<>>) ELSE None]]
(* mid-sized hellos (250 .. 520 bytes) whose extension block is a WELL-FORMED list (what real clients send): the block is opaque to the serializer *)
WellFormedExts == << <<0, 23, 0, 0>>, <<0, 0, 0, 6, 0, 4, 0, 0, 1, 97, 0, 23, 0, 0>>, <<0, 10, 0, 4, 0, 2, 0, 23, 0, 11, 0, 2, 1, 0, 0, 35, 0, 0>>, <<0, 21, 0, 2, 0, 0>> >>
MidCh == Concat([n \in 1..6 |-> [x \in 1..4 |-> [t |-> "ClientHello", ver |-> 771, random |-> R32, sid |-> IF n % 2 = 0 THEN None ELSE Some(Fill(1, 32)),
                                                  ciphers |-> [k \in 1..(90 + 25 * n) |-> k], comp |-> <<0>>, ext |-> Some(WellFormedExts[x])]]])
(* hellos whose extension block is ONE extension of type T and total size T + 2 with an inner list length (ALPN with h2 + http/1.1 is *)
(* T = 16, supported_groups with three groups is T = 10): the block's first 16 bits equal the length of the rest, so it LOOKS like a   *)
(* block that already carries its length prefix - and is not: the serializer writes the length of whatever it is given                  *)
SelfLenBlock(T) == BE16(T) \o BE16(T - 2) \o BE16(T - 4) \o Fill(T, T - 4)
SelfLenCh == Concat([q \in 1..37 |-> LET T == q + 3 IN
  << [t |-> "ClientHello", ver |-> 771, random |-> R32, sid |-> None, ciphers |-> <<4865, 47>>, comp |-> <<0>>, ext |-> Some(SelfLenBlock(T))],
     [t |-> "ServerHello", ver |-> 771, random |-> R32, sid |-> Some(Fill(2, 32)), cipher |-> 47, comp |-> 0, ext |-> Some(SelfLenBlock(T))] >>])
  \o << [t |-> "ClientHello", ver |-> 771, random |-> R32, sid |-> None, ciphers |-> <<4865>>, comp |-> <<0>>,
          ext |-> Some(<<0, 16, 0, 14, 0, 12, 2, 104, 50, 8, 104, 116, 116, 112, 47, 49, 46, 49>>)],
        [t |-> "ClientHello", ver |-> 771, random |-> R32, sid |-> None, ciphers |-> <<4865>>, comp |-> <<0>>,
          ext |-> Some(<<0, 10, 0, 8, 0, 6, 0, 29, 0, 23, 0, 24>>)],
        [t |-> "ServerHelloV13Draft18", ver |-> 32530, random |-> R32, cipher |-> 4865, ext |-> Some(<<0, 10, 0, 8, 0, 6, 0, 29, 0, 23, 0, 24>>)] >>
ASSUME TLCSet(2, SelfLenCh \o MapSeq(ChIx, MkCh) \o MapSeq(ShIx, MkSh) \o D18 \o Cke \o Fin \o << [t |-> "HelloRequest"] >> \o SizeCh \o MidCh \o BigCh)
HsVals == TLCGet(2)
NH == Len(HsVals)

(* records made of serializable messages *)
Hs(j) == [t |-> "hs", m |-> HsVals[j]]
FinN(n) == [t |-> "hs", m |-> [t |-> "Finished", data |-> Fill(n % 251, n)]]
RecBase == << [ct |-> 22, ver |-> 771, msgs |-> <<Hs(1)>>], [ct |-> 22, ver |-> 769, msgs |-> <<Hs(NH - 2), Hs(5), Hs(500)>>],
              [ct |-> 20, ver |-> 771, msgs |-> <<[t |-> "ccs"]>>], [ct |-> 20, ver |-> 768, msgs |-> <<[t |-> "ccs"], [t |-> "ccs"]>>],
              [ct |-> 22, ver |-> 65277, msgs |-> <<Hs(440), Hs(470)>>], [ct |-> 22, ver |-> 771, msgs |-> <<Hs(490), Hs(477), Hs(NH - 2)>>],
              (* several messages whose total is around 2^14 and up to the record cap: one value is one record, whatever its size *)
              [ct |-> 22, ver |-> 771, msgs |-> <<FinN(16000), FinN(500)>>], [ct |-> 22, ver |-> 771, msgs |-> <<FinN(8188), FinN(8188)>>],
              [ct |-> 22, ver |-> 771, msgs |-> <<FinN(8188), FinN(8189)>>], [ct |-> 22, ver |-> 769, msgs |-> <<FinN(100), FinN(16000), FinN(520)>>],
              [ct |-> 22, ver |-> 771, msgs |-> <<FinN(16380)>>], [ct |-> 22, ver |-> 771, msgs |-> <<FinN(16381), [t |-> "hs", m |-> [t |-> "HelloRequest"]]>>],
              [ct |-> 22, ver |-> 771, msgs |-> <<FinN(8000), FinN(8000), FinN(620)>>] >>
(* thorough: every ordered pair of a 24-message stride of the pool in one record *)
PairBase == IF Thorough THEN Concat([x \in 1..24 |-> [y \in 1..24 |-> [ct |-> 22, ver |-> <<771, 769, 768>>[((x + y) % 3) + 1],
                                                                       msgs |-> <<Hs(((x * 21) % (NH - 2)) + 1), Hs(((y * 23 + 7) % (NH - 2)) + 1)>>]]])
            ELSE <<>>
(* the length field of the value handed to the serializer is whatever the caller left there: 0, stale, or huge *)
RecAll == RecBase \o PairBase
RecValsDef == Concat([q \in 1..Len(RecAll) |->
             [l \in 1..4 |-> [ct |-> RecAll[q].ct, ver |-> RecAll[q].ver, msgs |-> RecAll[q].msgs, len |-> <<0, 1, 47, 65535>>[l]]]])
ASSUME TLCSet(3, RecValsDef)
RecVals == TLCGet(3)
(* values obtained by parsing valid records (RFC encodings, e.g. without an extension block), then serialized *)
FromBytes == [q \in 1..8 |->
  LET ms == <<<<Hs(1)>>, <<Hs(2)>>, <<Hs(300), Hs(NH - 2)>>, <<Hs(433)>>, <<Hs(440)>>, <<Hs(481)>>, <<Hs(485), Hs(1)>>, <<Hs(NH - 2), Hs(499)>>>>[q] IN
  [bytes |-> EncRecordRaw(22, 771, Concat([j \in 1..Len(ms) |-> EncHs(ms[j].m)])), msgs |-> ms]]
(* extensions the serializer supports *)
ExtVals == << <<>>,
              << [t |-> "SNI", tag |-> 0, names |-> <<[nt |-> 0, name |-> <<97, 46, 98>>]>>] >>,
              << [t |-> "SNI", tag |-> 0, names |-> <<[nt |-> 0, name |-> <<>>], [nt |-> 255, name |-> Fill(1, 255)]>>],
                 [t |-> "MaxFragmentLength", tag |-> 1, v |-> 4], [t |-> "EllipticCurves", tag |-> 10, groups |-> <<23, 0, 65535>>] >>,
              << [t |-> "EllipticCurves", tag |-> 10, groups |-> <<>>], [t |-> "MaxFragmentLength", tag |-> 1, v |-> 255] >>,
              << [t |-> "SNI", tag |-> 0, names |-> <<>>] >>,
              (* names are bytes: trailing dots, NUL, non-UTF-8, upper case, 255 and 256 bytes, all kept as given *)
              << [t |-> "SNI", tag |-> 0, names |-> <<[nt |-> 0, name |-> <<97, 46>>], [nt |-> 0, name |-> <<46>>], [nt |-> 0, name |-> <<97, 46, 98, 46>>]>>] >>,
              << [t |-> "SNI", tag |-> 0, names |-> <<[nt |-> 0, name |-> <<65, 0, 255, 195>>], [nt |-> 1, name |-> <<32, 97, 32>>]>>],
                 [t |-> "SNI", tag |-> 0, names |-> <<[nt |-> 0, name |-> Fill(3, 256)]>>] >>,
              << [t |-> "EllipticCurves", tag |-> 10, groups |-> [k \in 1..300 |-> (k * 251) % 65536]], [t |-> "MaxFragmentLength", tag |-> 0 + 1, v |-> 0] >>,
              << [t |-> "EllipticCurves", tag |-> 10, groups |-> <<2570, 23, 6682, 64250, 29, 2570>>] >>,       \* GREASE values among the groups
              (* names that ARE text (valid UTF-8 with multi-byte characters): a length is a number of bytes *)
              << [t |-> "SNI", tag |-> 0, names |-> <<[nt |-> 0, name |-> <<98, 195, 188, 99, 104, 101, 114, 46, 101, 120, 97, 109, 112, 108, 101>>]>>] >>,
              << [t |-> "SNI", tag |-> 0, names |-> <<[nt |-> 0, name |-> <<226, 130, 172>>], [nt |-> 0, name |-> <<240, 159, 146, 169, 46, 99, 111, 109>>],
                                                     [nt |-> 0, name |-> <<195, 169>>]>>],
                 [t |-> "MaxFragmentLength", tag |-> 1, v |-> 2] >>,
              << [t |-> "SNI", tag |-> 0, names |-> <<[nt |-> 0, name |-> [k \in 1..200 |-> IF k % 2 = 1 THEN 195 ELSE 169]]>>] >> >>
(* values the serializer does not support *)
Unsupported == << [t |-> "hs", m |-> [t |-> "ServerDone", data |-> <<>>]], [t |-> "hs", m |-> [t |-> "Certificate", chain |-> <<>>]],
                  [t |-> "hs", m |-> [t |-> "KeyUpdate", v |-> 0]], [t |-> "hs", m |-> [t |-> "NewSessionTicket", hint |-> <<0, 0>>, ticket |-> <<>>]],
                  [t |-> "alert", sev |-> 1, code |-> 0], [t |-> "app", blob |-> <<1>>], [t |-> "hb", hbt |-> 1, plen |-> 0, payload |-> <<>>] >>
(* records whose single message the serializer does not support, under every record type (no shortcut may turn them into bytes) *)
UnsupportedRec == Concat([q \in 1..Len(Unsupported) |->
                    [c \in 1..4 |-> [ct |-> <<20, 21, 22, 23>>[c], ver |-> 771, len |-> 0, msgs |-> <<Unsupported[q]>>]]])
                  \o << [ct |-> 20, ver |-> 771, len |-> 0, msgs |-> <<[t |-> "ccs"], Unsupported[5]>>],
                        [ct |-> 22, ver |-> 771, len |-> 0, msgs |-> <<Hs(1), Unsupported[1]>>] >>
UnsupportedExt == << [t |-> "Padding", tag |-> 21, data |-> <<0>>], [t |-> "Heartbeat", tag |-> 15, v |-> 1], [t |-> "Unknown", tag |-> 99, ty |-> 99, data |-> <<>>] >>

NBase == NH + Len(RecVals) + Len(ExtVals) + Len(Unsupported) + Len(UnsupportedExt) + 1 + Len(FromBytes)
(* flights: records written one after the other through the same serializer (more than 64 KiB in total) *)
BigRec(k) == [ct |-> 22, ver |-> 771, len |-> 0,
              msgs |-> <<[t |-> "hs", m |-> [t |-> "ClientHello", ver |-> 771, random |-> R32, sid |-> None, ciphers |-> [c \in 1..(5000 + k) |-> c], comp |-> <<0>>, ext |-> None]]>>]
Flights == << [recs |-> <<RecAll[1], RecAll[3]>>], [recs |-> [k \in 1..8 |-> BigRec(k)] \o <<RecAll[3], RecAll[1]>>] >>
N == NBase + Len(UnsupportedRec) + Len(Flights)
Case(i) ==
  IF i <= NH THEN [kind |-> "hs", v |-> HsVals[i]]
  ELSE IF i <= NH + Len(RecVals) THEN [kind |-> "record", v |-> RecVals[i - NH]]
  ELSE IF i <= NH + Len(RecVals) + Len(ExtVals) THEN [kind |-> "exts", v |-> ExtVals[i - NH - Len(RecVals)]]
  ELSE IF i <= NH + Len(RecVals) + Len(ExtVals) + Len(Unsupported) THEN [kind |-> "unsupported_msg", v |-> Unsupported[i - NH - Len(RecVals) - Len(ExtVals)]]
  ELSE IF i <= NH + Len(RecVals) + Len(ExtVals) + Len(Unsupported) + Len(UnsupportedExt)
       THEN [kind |-> "unsupported_ext", v |-> UnsupportedExt[i - NH - Len(RecVals) - Len(ExtVals) - Len(Unsupported)]]
  ELSE IF i = NH + Len(RecVals) + Len(ExtVals) + Len(Unsupported) + Len(UnsupportedExt) + 1 THEN [kind |-> "ccs_msg", v |-> [t |-> "ccs"]]
  ELSE IF i <= NBase THEN [kind |-> "from_bytes", v |-> FromBytes[i - (NH + Len(RecVals) + Len(ExtVals) + Len(Unsupported) + Len(UnsupportedExt) + 1)]]
  ELSE IF i <= NBase + Len(UnsupportedRec) THEN [kind |-> "unsupported_record", v |-> UnsupportedRec[i - NBase]]
  ELSE [kind |-> "flight", v |-> Flights[i - NBase - Len(UnsupportedRec)]]

VARIABLE i
Init == i = Chunk + 1 /\ i <= N
Next == i + NChunks <= N /\ i' = i + NChunks

-----------------------------------------------------------------------------
InDomain == Case(i).kind = "hs" => Serializable(Case(i).v)
(* ParseBack: Dec(Ser(v)) = Normalize(v), consuming everything; strict (all lengths consistent) *)
ParseBack ==
  LET c == Case(i) IN
  /\ c.kind = "hs" => LET s == StrictHs(SerHs(c.v)) IN s.ok /\ s.v = Normalize(c.v)
  /\ c.kind = "record" => LET s == StrictRecord(SerRecord(c.v)) IN s.ok /\ s.v = [j \in 1..Len(c.v.msgs) |-> NormMsg(c.v.msgs[j])]
  /\ c.kind = "from_bytes" => RangeFalse!ParsePlaintext(c.v.bytes, 0, Len(c.v.bytes)).v.msg = c.v.msgs
  /\ c.kind = "exts" => LET b == BE16(Len(EncExtList(c.v))) \o EncExtList(c.v) s == StrictExtBlock(b) IN s.ok /\ s.v = c.v
(* re-serializing the parsed value reproduces the same bytes *)
ReSerializeStable ==
  LET c == Case(i) IN c.kind = "hs" => (Serializable(Normalize(c.v)) /\ SerHs(Normalize(c.v)) = SerHs(c.v) /\ Normalize(Normalize(c.v)) = Normalize(c.v))

Expect(c) ==
  CASE c.kind = "hs" -> [norm |-> <<Normalize(c.v)>>, ser |-> IF Len(SerHs(c.v)) > 3000 THEN <<>> ELSE SerHs(c.v)]
    [] c.kind = "record" -> [norm |-> [j \in 1..Len(c.v.msgs) |-> NormMsg(c.v.msgs[j])], ser |-> SerRecord(c.v)]
    [] c.kind = "exts" -> [norm |-> c.v, ser |-> BE16(Len(EncExtList(c.v))) \o EncExtList(c.v)]
    [] c.kind = "ccs_msg" -> [norm |-> <<[t |-> "ccs"]>>, ser |-> <<1>>]
    [] c.kind = "from_bytes" -> [norm |-> [j \in 1..Len(c.v.msgs) |-> NormMsg(c.v.msgs[j])], ser |-> SerRecord([ct |-> 22, ver |-> 771, msgs |-> c.v.msgs])]
    [] c.kind = "flight" -> [norm |-> <<>>, ser |-> SerFlight(c.v.recs)]
    [] OTHER -> [norm |-> <<>>, ser |-> <<>>]
EmitCase == LET c == Case(i) IN EmitLine([id |-> i, kind |-> c.kind, v |-> c.v, norm |-> Expect(c).norm, ser |-> Expect(c).ser])
=============================================================================
