INIT Init
NEXT Next
CONSTANT RangeMode = TRUE
INVARIANT HeaderExact
INVARIANT CapAlways
INVARIANT IncompleteIff
INVARIANT NeededExact
INVARIANT FragmentRule
INVARIANT BodiesRoundTrip
INVARIANT BigMessages
INVARIANT Unsupported
INVARIANT DatagramRecordByRecord
INVARIANT CompleteIsFinal
INVARIANT EmitCase
CHECK_DEADLOCK FALSE
