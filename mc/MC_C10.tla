------------------------------- MODULE MC_C10 -------------------------------
(***************************************************************************)
(* C10 - DTLS records and handshake fragments decode per RFC 6347.         *)
(***************************************************************************)
EXTENDS Calls, Emit

C == INSTANCE Calls WITH RangeMode <- FALSE

R32 == Fill(9, 32)
RecFn == "parse_dtls_plaintext_record"
Mk(kind, fn, a, parts, want, total, fed) ==
  [kind |-> kind, fn |-> fn, a |-> a, parts |-> parts, want |-> want, total |-> total, fed |-> fed]

(* ---- framing: header fields over a grid, every prefix cut, trailing bytes *)
Epochs == <<0, 1, 258, 65535>>
Seqs == <<<<0, 0, 0>>, <<0, 0, 1>>, <<258, 772, 1286>>, <<65535, 65535, 65535>>>>
Pay(ct) == CASE ct = 20 -> <<<<1>>, <<1, 1>>, <<2>>, <<>>>>
             [] ct = 21 -> <<<<1, 0>>, <<2, 40, 1, 0>>, <<1>>, <<>>>>
             [] ct = 22 -> << EncDtlsHs(14, 0, 0, 0, 0, <<>>), EncDtlsHs(14, 2, 7, 0, 2, <<5, 6>>) \o EncDtlsHs(16, 1, 8, 0, 1, <<9>>),
                              <<14, 0, 0>>, <<>> >>
             [] OTHER -> << <<1, 2>>, <<>>, <<1>>, <<0>> >>
HdrIdx == SetToSeq({<<c, e, p, t>> : c \in 1..5, e \in 1..4, p \in 1..4, t \in 1..2})
FrameCases ==
  Concat([q \in 1..Len(HdrIdx) |->
    LET ix == HdrIdx[q]  ct == <<20, 21, 22, 23, 99>>[ix[1]]  pl == Pay(ct)[ix[3]]
        hdr == [ct |-> ct, ver |-> <<65279, 65277, 771, 65279, 65277>>[ix[1]], epoch |-> Epochs[ix[2]], seq |-> Seqs[ix[2]], len |-> Len(pl)]
        wire == EncDtlsHeader(hdr) \o pl \o <<<<>>, <<22, 254>>>>[ix[4]]
        cuts == IF ix[2] = 1 \/ Thorough THEN 0..Len(wire) ELSE {13, Len(wire)} IN
    [k \in 1..Cardinality(cuts) |->
       LET cut == SetToSeq(cuts)[k] IN
       Mk("frame", RecFn, NoArgs, <<Lit(SubSeq(wire, 1, cut))>>, hdr, 13 + Len(pl), cut)]])
HeaderCases ==
  [q \in 1..16 |->
    LET hdr == [ct |-> <<22, 0, 255, 23>>[((q - 1) % 4) + 1], ver |-> 65277, epoch |-> Epochs[((q - 1) \div 4) + 1],
                seq |-> Seqs[((q - 1) % 4) + 1], len |-> <<0, 5, 16641, 65535>>[((q - 1) \div 4) + 1]] IN
    Mk("header", "parse_dtls_record_header", NoArgs, <<Lit(EncDtlsHeader(hdr) \o <<7>>)>>, hdr, 13, 14)]
(* the cap *)
CapCases ==
  Concat([q \in 1..3 |->
    LET dl == <<16640, 16641, 65535>>[q]
        hdr == [ct |-> 20, ver |-> 65277, epoch |-> 1, seq |-> <<0, 0, 9>>, len |-> dl] IN
    [k \in 1..3 |->
      LET cut == <<13, 13 + dl - 1, 13 + dl>>[k] IN
      Mk("cap", RecFn, NoArgs, CutParts(<<Lit(EncDtlsHeader(hdr)), RepPart(1, dl)>>, cut), hdr, 13 + dl, cut)]])

(* ---- handshake header grid: the fragment rule *)
FragIdx == SetToSeq({<<l, o, f, m>> : l \in 1..3, o \in 1..3, f \in 1..4, m \in 1..4})
HsFn == "parse_dtls_message_handshake"
FragCases ==
  Concat([q \in 1..Len(FragIdx) |->
    LET ix == FragIdx[q]  len == <<0, 1, 5>>[ix[1]]  off == <<0, 1, 16777215>>[ix[2]]
        flen == <<0, len - 1, len, len + 1>>[ix[3]]  mt == <<14, 99, 16, 11>>[ix[4]]  mseq == <<0, 65535, 258>>[ix[1]] IN
    IF flen < 0 THEN <<>>
    ELSE << Mk("frag", HsFn, NoArgs, <<Lit(EncDtlsHs(mt, len, mseq, off, flen, Fill(2, flen)) \o <<200>>)>>,
               [mt |-> mt, len |-> len, mseq |-> mseq, off |-> off, flen |-> flen], 12 + flen, 13 + flen) >>])

(* ---- the six supported bodies, unfragmented, inside a record *)
Sids == <<None, Some(<<7>>), Some(Fill(3, 32))>>
Cookies == <<<<>>, <<1>>, Fill(2, 255)>>
Exts == <<None, Some(<<>>), Some(<<0, 23, 0, 0>>)>>
BodyVals ==
  [k \in 1..27 |-> [t |-> "DClientHello", ver |-> <<65279, 65277, 771>>[(k % 3) + 1], random |-> R32, sid |-> Sids[((k - 1) % 3) + 1],
                    cookie |-> Cookies[(((k - 1) \div 3) % 3) + 1], ciphers |-> <<<<>>, <<47>>, <<49199, 255, 0>>>>[(k % 3) + 1],
                    comp |-> <<<<0>>, <<>>, <<1, 0>>>>[((k - 1) \div 9) + 1], ext |-> Exts[((k - 1) \div 9) + 1]]]
  \o [k \in 1..6 |-> [t |-> "HelloVerifyRequest", ver |-> <<65279, 65277>>[(k % 2) + 1], cookie |-> Cookies[(k % 3) + 1]]]
  \o [k \in 1..9 |-> [t |-> "ServerHello", ver |-> <<65277, 65279, 771>>[(k % 3) + 1], random |-> R32, sid |-> Sids[(k % 3) + 1],
                      cipher |-> 49199, comp |-> 0, ext |-> Exts[((k - 1) \div 3) + 1]]]
  (* the version field is a number, registered or not; the extension block does not depend on it *)
  \o [k \in 1..18 |-> [t |-> "ServerHello", ver |-> <<768, 769, 65276, 256, 65535, 0>>[((k - 1) % 6) + 1], random |-> R32, sid |-> Sids[(k % 3) + 1],
                       cipher |-> 47, comp |-> 0, ext |-> Exts[((k - 1) \div 6) + 1]]]
  \o [k \in 1..12 |-> [t |-> "DClientHello", ver |-> <<768, 769, 65276, 256, 65535, 0>>[((k - 1) % 6) + 1], random |-> R32, sid |-> Sids[(k % 3) + 1],
                       cookie |-> Cookies[(k % 3) + 1], ciphers |-> <<47>>, comp |-> <<0>>, ext |-> Exts[((k - 1) \div 6) + 2]]]
  \o [k \in 1..5 |-> [t |-> "HelloVerifyRequest", ver |-> <<768, 65276, 256, 65535, 0>>[k], cookie |-> Cookies[(k % 3) + 1]]]
  \o << [t |-> "Certificate", chain |-> <<>>], [t |-> "Certificate", chain |-> << <<48, 1>>, <<>> >>],
        [t |-> "ServerDone", data |-> <<>>], [t |-> "ServerDone", data |-> <<1, 2>>],
        [t |-> "ClientKeyExchange", kind |-> "Unknown", data |-> <<>>], [t |-> "ClientKeyExchange", kind |-> "Unknown", data |-> Fill(1, 66)] >>
MtOf(v) == CASE v.t = "DClientHello" -> 1 [] v.t = "HelloVerifyRequest" -> 3 [] v.t = "ServerHello" -> 2
             [] v.t = "Certificate" -> 11 [] v.t = "ServerDone" -> 14 [] v.t = "ClientKeyExchange" -> 16
ASSUME TLCSet(2, BodyVals)
Bodies == TLCGet(2)
BodyCases ==
  Concat([j \in 1..Len(Bodies) |->
    LET bb == EncDtlsBody(Bodies[j])  msg == EncDtlsHs(MtOf(Bodies[j]), Len(bb), j, 0, Len(bb), bb)
        rec == EncDtlsRecord(22, 65277, 0, <<0, 0, j>>, msg) IN
    << Mk("body", HsFn, NoArgs, <<Lit(msg \o <<22>>)>>, <<j>>, Len(msg), Len(msg) + 1),
       Mk("bodyrec", RecFn, NoArgs, <<Lit(rec)>>, <<j>>, Len(rec), Len(rec)) >>])
(* hello bodies whose trailing extension block LIES about its length (one more than is there, 65535, one less): the message is complete, *)
(* so the answer is final - the optional block is absent, or the bytes after a short block stay unread - never a request for more          *)
LieBodies ==
  LET ch == [t |-> "DClientHello", ver |-> 65277, random |-> R32, sid |-> Some(<<7>>), cookie |-> <<1, 2>>, ciphers |-> <<47, 49199>>, comp |-> <<0>>, ext |-> Some(<<0, 23, 0, 0, 0, 10, 0, 4, 0, 2, 0, 29>>)]
      sh == [t |-> "ServerHello", ver |-> 65277, random |-> R32, sid |-> None, cipher |-> 49199, comp |-> 0, ext |-> Some(<<0, 23, 0, 0, 255, 1, 0, 1, 0>>)]
      lie(v, n) == LET bb == EncDtlsBody(v)  k == Len(bb) - Len(v.ext[1]) - 1 IN [j \in 1..Len(bb) |-> IF j = k - 1 THEN n \div 256 ELSE IF j = k THEN n % 256 ELSE bb[j]] IN
  << <<1, lie(ch, 13)>>, <<1, lie(ch, 65535)>>, <<1, lie(ch, 11)>>, <<1, lie(ch, 0)>>, <<1, lie(ch, 256)>>,
     <<2, lie(sh, 10)>>, <<2, lie(sh, 65535)>>, <<2, lie(sh, 8)>>, <<2, lie(sh, 0)>> >>
BodyLieCases ==
  Concat([j \in 1..Len(LieBodies) |->
    LET bb == LieBodies[j][2]  msg == EncDtlsHs(LieBodies[j][1], Len(bb), j, 0, Len(bb), bb)
        rec == EncDtlsRecord(22, 65277, 0, <<0, 0, j>>, msg) IN
    << Mk("bodylie", HsFn, NoArgs, <<Lit(msg)>>, <<j>>, Len(msg), Len(msg)),
       Mk("bodylie", HsFn, NoArgs, <<Lit(msg \o <<22, 1, 2>>)>>, <<j>>, Len(msg), Len(msg) + 3),
       Mk("bodylie", RecFn, NoArgs, <<Lit(rec)>>, <<j>>, Len(rec), Len(rec)) >>])
(* a handshake message is bounded by its own u24 length, not by the record cap: whole messages above 16640 bytes, called directly *)
BigBodies == << [t |-> "ClientKeyExchange", kind |-> "Unknown", data |-> Fill(1, 16629)],
                [t |-> "ClientKeyExchange", kind |-> "Unknown", data |-> Fill(2, 20000)],
                [t |-> "ServerDone", data |-> Fill(3, 70000)],
                [t |-> "Certificate", chain |-> [j \in 1..3 |-> Fill(j, 9000)]] >>
BigBodyCases ==
  [j \in 1..Len(BigBodies) |->
    LET bb == EncDtlsBody(BigBodies[j])  msg == EncDtlsHs(MtOf(BigBodies[j]), Len(bb), j, 0, Len(bb), bb) IN
    Mk("bigbody", HsFn, NoArgs, <<Lit(msg \o <<22>>)>>, <<j>>, Len(msg), Len(msg) + 1)]
  \o << Mk("bigfrag", HsFn, NoArgs, <<Lit(EncDtlsHs(11, 100000, 3, 50, 20000, Fill(4, 20000)) \o <<1>>)>>,
            [mt |-> 11, len |-> 100000, mseq |-> 3, off |-> 50, flen |-> 20000], 20012, 20013) >>
(* unsupported message types, unfragmented: no value *)
UnsupportedCases ==
  [q \in 1..8 |-> Mk("unsupported", RecFn, NoArgs,
     <<Lit(EncDtlsRecord(22, 65277, 0, <<0, 0, 0>>, EncDtlsHs(<<0, 4, 12, 13, 15, 20, 22, 200>>[q], 2, 0, 0, 2, <<1, 2>>)))>>, <<>>, 0, 0)]
(* ... at every epoch (a record that does not decode is an error at epoch 1 as at epoch 0: nothing is "probably encrypted") *)
UnsupportedEpochCases ==
  Concat([q \in 1..4 |-> [ep \in 1..4 |-> Mk("unsupported", RecFn, NoArgs,
     <<Lit(EncDtlsRecord(22, 65277, <<1, 2, 258, 65535>>[ep], <<0, 0, q>>, EncDtlsHs(<<20, 4, 15, 200>>[q], 2, 0, 0, 2, <<1, 2>>)))>>, <<>>, 0, 0)]])
  \o [ep \in 1..3 |-> Mk("dgram", "parse_dtls_plaintext_records", NoArgs,
        <<Lit(EncDtlsRecord(20, 65277, 0, <<0, 0, 1>>, <<1>>) \o EncDtlsRecord(22, 65277, <<1, 2, 65535>>[ep], <<0, 0, 0>>, EncDtlsHs(20, 12, 3, 0, 12, Fill(ep, 12)))
              \o EncDtlsRecord(21, 65277, 1, <<0, 0, 1>>, <<1, 0>>))>>, <<1>>, 14, 0)]
(* an unfragmented message whose fragment_length is LARGER than its length: the body parser gets the fragment_length bytes it was sent *)
OverlongBodies ==
  << <<3, <<254, 253, 4, 9, 8, 7, 6>>, 3>>, <<3, <<254, 255, 0>>, 1>>,
     <<11, <<0, 0, 5, 0, 0, 2, 48, 1>>, 3>>, <<14, <<1, 2, 3, 4>>, 2>>, <<16, <<1, 2, 3, 4, 5>>, 0>>,
     <<2, <<254, 253>> \o R32 \o <<0, 192, 47, 0, 0, 4, 0, 23, 0, 0>>, 38>>,
     <<1, <<254, 253>> \o R32 \o <<0, 0, 0, 2, 0, 47, 1, 0, 0, 4, 0, 23, 0, 0>>, 41>> >>
OverlongCases ==
  Concat([j \in 1..Len(OverlongBodies) |->
    LET o == OverlongBodies[j]  msg == EncDtlsHs(o[1], o[3], j, 0, Len(o[2]), o[2])  rec == EncDtlsRecord(22, 65277, 0, <<0, 0, j>>, msg) IN
    << Mk("overlong", HsFn, NoArgs, <<Lit(msg \o <<22>>)>>, <<j>>, Len(msg), Len(msg) + 1), Mk("overlong", RecFn, NoArgs, <<Lit(rec)>>, <<j>>, Len(rec), Len(rec)) >>])
(* several records in one datagram *)
Dgram ==
  LET r1 == EncDtlsRecord(22, 65277, 0, <<0, 0, 1>>, EncDtlsHs(14, 0, 1, 0, 0, <<>>))
      r2 == EncDtlsRecord(20, 65277, 0, <<0, 0, 2>>, <<1>>)
      r3 == EncDtlsRecord(21, 65277, 1, <<0, 0, 0>>, <<2, 40>>)
      r4 == EncDtlsRecord(22, 65277, 1, <<0, 0, 1>>, EncDtlsHs(11, 300, 2, 100, 3, <<7, 8, 9>>)) IN
  << Mk("dgram", "parse_dtls_plaintext_records", NoArgs, <<Lit(r1 \o r2 \o r3 \o r4)>>, <<4>>, 0, 0),
     Mk("dgram", "parse_dtls_plaintext_records", NoArgs, <<Lit(r1 \o r2 \o SubSeq(r3, 1, 14))>>, <<2>>, Len(r1) + Len(r2), 0),
     Mk("dgram", "parse_dtls_plaintext_records", NoArgs, <<Lit(r4 \o r1 \o <<23, 254, 253, 0, 0, 0, 0, 0, 0, 0, 0, 0, 1, 5>>)>>, <<2>>, Len(r4) + Len(r1), 0),
     Mk("dgramfail", "parse_dtls_plaintext_records", NoArgs, <<Lit(SubSeq(r1, 1, 20) \o r2)>>, <<>>, 0, 0),
     Mk("dgramfail", "parse_dtls_plaintext_records", NoArgs, <<Lit(<<>>)>>, <<>>, 0, 0) >>
(* record payloads through the with-header entry point *)
WithHdrCases ==
  [q \in 1..5 |->
    LET ct == <<20, 21, 22, 23, 24>>[q] IN
    Mk("withhdr", "parse_dtls_record_with_header", [NoArgs EXCEPT !.ct = ct, !.ver = 65277, !.len = Len(Pay(ct)[1])],
       <<Lit(Pay(ct)[1])>>, <<>>, 0, 0)]

ASSUME TLCSet(1, FrameCases \o HeaderCases \o CapCases \o FragCases \o BodyCases \o BodyLieCases \o BigBodyCases \o UnsupportedCases \o UnsupportedEpochCases \o OverlongCases \o Dgram \o WithHdrCases)
Cases == TLCGet(1)
N == Len(Cases)

VARIABLES i, res, cres
Bytes(c) == Flatten(c.parts)
Init == i = Chunk + 1 /\ i <= N /\ res = Apply(Cases[i].fn, Cases[i].a, Bytes(Cases[i]))
        /\ cres = IF Cases[i].kind = "cap" THEN Ok(0, <<>>) ELSE C!Apply(Cases[i].fn, Cases[i].a, Bytes(Cases[i]))
Next == i + NChunks <= N /\ i' = i + NChunks /\ res' = Apply(Cases[i'].fn, Cases[i'].a, Bytes(Cases[i']))
        /\ cres' = IF Cases[i'].kind = "cap" THEN Ok(0, <<>>) ELSE C!Apply(Cases[i'].fn, Cases[i'].a, Bytes(Cases[i']))

-----------------------------------------------------------------------------
(* the 13-byte header is returned verbatim; exact consumption *)
HeaderExact ==
  LET c == Cases[i] IN
  /\ (c.kind \in {"frame", "cap"} /\ res.k = "ok") => (res.v.hdr = c.want /\ res.p = c.total)
  /\ c.kind = "header" => (res.k = "ok" /\ res.v = c.want /\ res.p = 13)
(* the same cap and Incomplete contract as TLS *)
CapAlways ==
  LET c == Cases[i] IN
  (c.kind \in {"frame", "cap"} /\ c.fed >= 13 /\ c.want.len > MaxRecordLen) => (res.k = "err" /\ res.e = "TooLarge")
IncompleteIff ==
  LET c == Cases[i] IN
  (c.kind \in {"frame", "cap"} /\ (c.fed < 13 \/ c.want.len <= MaxRecordLen)) => (res.k = "inc" <=> c.fed < c.total)
NeededExact ==
  LET c == Cases[i] IN
  (c.kind \in {"frame", "cap"} /\ res.k = "inc" /\ c.fed >= 13) => res.n = c.total - c.fed
(* FragmentRule + HeadersVerbatim *)
FragmentRule ==
  LET c == Cases[i] IN
  c.kind = "frag" =>
    LET h == c.want  isf == h.off > 0 \/ h.flen < h.len IN
    IF h.mt = 11 /\ ~isf THEN TRUE      \* an unfragmented Certificate made of filler bytes: whatever the certificate-list decoder says (pinned by the replay)
    ELSE IF isf \/ h.mt \in {14, 16}
    THEN /\ cres.k = "ok" /\ cres.p = 12 + h.flen
         /\ cres.v.mt = h.mt /\ cres.v.len = h.len /\ cres.v.mseq = h.mseq /\ cres.v.off = h.off /\ cres.v.flen = h.flen
         /\ cres.v.frag = isf
         /\ isf => cres.v.body = [t |-> "Fragment", data |-> Fill(2, h.flen)]
         /\ (~isf /\ h.mt = 14) => cres.v.body.t = "ServerDone"
         (* the body of an unfragmented message is its declared `length' bytes, also when fragment_length says more *)
         /\ (~isf /\ h.mt = 16) => cres.v.body = [t |-> "ClientKeyExchange", kind |-> "Unknown", data |-> SubSeq(Fill(2, h.flen), 1, h.len)]
    ELSE cres.k # "ok"
BodiesRoundTrip ==
  LET c == Cases[i] IN
  /\ c.kind = "body" => (cres.k = "ok" /\ cres.v.body = Bodies[c.want[1]] /\ ~cres.v.frag /\ cres.p = c.total)
  /\ c.kind = "bodyrec" => (cres.k = "ok" /\ cres.v.msgs[1].body = Bodies[c.want[1]] /\ cres.p = c.total)
BigMessages ==
  LET c == Cases[i] IN
  /\ c.kind = "bigbody" => (cres.k = "ok" /\ cres.v.body = BigBodies[c.want[1]] /\ ~cres.v.frag /\ cres.p = c.total)
  /\ c.kind = "bigfrag" => (cres.k = "ok" /\ cres.v.frag /\ cres.p = c.total /\ cres.v.body = [t |-> "Fragment", data |-> Fill(4, 20000)])
Unsupported == Cases[i].kind \in {"unsupported", "dgramfail"} => res.k # "ok"
DatagramRecordByRecord ==
  LET c == Cases[i] IN
  c.kind = "dgram" => (res.k = "ok" /\ Len(res.v) = c.want[1] /\ (c.total > 0 => res.p = c.total))

(* a complete message never asks for more bytes *)
CompleteIsFinal == Cases[i].kind = "bodylie" => res.k # "inc"
Pin ==
  LET c == Cases[i] IN
  IF c.kind \in {"frame", "cap"} THEN
     (IF c.fed < 13 THEN "inc" ELSE IF c.want.len > MaxRecordLen THEN "err_kind"
      ELSE IF c.fed < c.total THEN "inc_n" ELSE IF res.k = "ok" THEN "full" ELSE "reject")
  ELSE IF res.k = "ok" THEN "full" ELSE IF res.k \in {"err", "fail"} THEN "reject" ELSE "novalue"
EmitCase ==
  LET c == Cases[i] IN EmitLine(CaseLine(i, c.fn, c.a, c.parts, res, Pin, [kind |-> c.kind, fed |-> c.fed]))
=============================================================================
