INIT Init
NEXT Next
CONSTANT RangeMode = TRUE
INVARIANT RandRoundTrip
INVARIANT EmitCase
CHECK_DEADLOCK FALSE
