----------------------------- MODULE MC_C10_Rand -----------------------------
(***************************************************************************)
(* Seeded, structurally random DTLS handshake messages and records: every  *)
(* header field from its whole domain (type, 24-bit length, message        *)
(* sequence, fragment offset / length, epoch, 48-bit sequence number,      *)
(* version), unfragmented bodies of the six supported types built from     *)
(* random values, fragments of any type at any offset, 1..3 messages per   *)
(* record, 1..3 records per datagram.  RandRoundTrip (header fields exact, *)
(* FragmentRule, bodies decode to the encoded value, exact consumption) on *)
(* the specification; replayed and compared in full.                       *)
(***************************************************************************)
EXTENDS Calls, Emit
C == INSTANCE Calls WITH RangeMode <- FALSE
Seed == IF "VERIF_SEED" \in DOMAIN IOEnv THEN atoi(IOEnv.VERIF_SEED) ELSE 1
N == IF Thorough THEN 18000 ELSE 1500
H(s, k) == ((((s % 30011) * 211 + (k % 5000) * 7919 + 13) % 65521) * 31 + (s \div 30011) * 17 + (k \div 5000)) % 65521
Bs(s, k, n) == [j \in 1..n |-> H(s, k + 3 * j) % 256]
W16(s, k) == (H(s, k) * 7 + H(s, k + 1)) % 65536
Size(s, k) == LET r == H(s, k) % 16 IN IF r < 9 THEN H(s, k + 1) % 8 ELSE IF r < 13 THEN H(s, k + 1) % 70 ELSE IF r < 15 THEN H(s, k + 1) % 500 ELSE H(s, k + 1) % 3000
Sid(s, k) == IF H(s, k) % 3 = 0 THEN None ELSE Some(Bs(s, k + 1, 1 + (H(s, k + 2) % 32)))
Ext(s, k) == LET r == H(s, k) % 3 IN IF r = 0 THEN None ELSE IF r = 1 THEN Some(<<0, 23, 0, 0, 0, 10, 0, 4, 0, 2, 0, 29>>) ELSE Some(Bs(s, k + 1, Size(s, k + 2) % 200))
(* the body value of an unfragmented message of a supported type *)
Body(s) ==
  LET kind == H(s, 1) % 6 IN
  CASE kind = 0 -> [t |-> "DClientHello", ver |-> W16(s, 2), random |-> Bs(s, 3, 32), sid |-> Sid(s, 4), cookie |-> Bs(s, 5, IF H(s, 6) % 3 = 0 THEN 0 ELSE H(s, 7) % 256),
                    ciphers |-> [j \in 1..(Size(s, 8) % 100) |-> W16(s, 30 + 2 * j)], comp |-> Bs(s, 9, H(s, 10) % 4), ext |-> Ext(s, 11)]
    [] kind = 1 -> [t |-> "HelloVerifyRequest", ver |-> W16(s, 2), cookie |-> Bs(s, 3, H(s, 4) % 256)]
    [] kind = 2 -> [t |-> "ServerHello", ver |-> <<769, 770, 771>>[(H(s, 2) % 3) + 1], random |-> Bs(s, 3, 32), sid |-> Sid(s, 4), cipher |-> W16(s, 5),
                    comp |-> H(s, 6) % 256, ext |-> Ext(s, 11)]
    [] kind = 3 -> [t |-> "ServerDone", data |-> Bs(s, 2, IF H(s, 3) % 2 = 0 THEN 0 ELSE Size(s, 4))]
    [] kind = 4 -> [t |-> "ClientKeyExchange", kind |-> "Unknown", data |-> Bs(s, 2, Size(s, 3))]
    [] OTHER -> [t |-> "Certificate", chain |-> [j \in 1..(H(s, 2) % 5) |-> Bs(s, 10 * j, Size(s, 3 + j) % 700)]]
TypeOf(v) == CASE v.t = "DClientHello" -> 1 [] v.t = "HelloVerifyRequest" -> 3 [] v.t = "ServerHello" -> 2 [] v.t = "ServerDone" -> 14
               [] v.t = "ClientKeyExchange" -> 16 [] OTHER -> 11
(* one message: [bytes, want] *)
MsgQ(s, q) ==
  LET ms == IF q >= 0 THEN q ELSE W16(s, 41) IN
  IF H(s, 40) % 5 < 3
  THEN LET v == Body(s)  b == EncDtlsBody(v) IN      \* unfragmented
       [bytes |-> EncDtlsHs(TypeOf(v), Len(b), ms, 0, Len(b), b),
        want |-> [t |-> "hs", mt |-> TypeOf(v), len |-> Len(b), mseq |-> ms, off |-> 0, flen |-> Len(b), body |-> v, frag |-> FALSE]]
  ELSE LET mt == IF H(s, 42) % 2 = 0 THEN <<1, 2, 3, 11, 14, 16>>[(H(s, 43) % 6) + 1] ELSE H(s, 43) % 256     \* a fragment of a message of any type
           L == 1 + Size(s, 44) + (IF H(s, 45) % 7 = 0 THEN 65536 * (H(s, 46) % 200) ELSE 0)
           off == IF H(s, 47) % 3 = 0 THEN 0 ELSE H(s, 48) % L
           room == L - off
           fl == IF off = 0 THEN (H(s, 49) % Min2(room, 3000))                                           \* off = 0: strictly less than the length
                 ELSE IF H(s, 51) % 4 = 0 /\ room <= 3000 THEN room + 1 + (H(s, 52) % 40)                               \* a later fragment reaching PAST the end of the message: still fragment-length bytes
                 ELSE (H(s, 49) % (Min2(room, 3000) + 1))
           d == Bs(s, 50, fl) IN
       [bytes |-> EncDtlsHs(mt, L, ms, off, fl, d),
        want |-> [t |-> "hs", mt |-> mt, len |-> L, mseq |-> ms, off |-> off, flen |-> fl, body |-> [t |-> "Fragment", data |-> d], frag |-> TRUE]]
Msg(s) == MsgQ(s, -1)
(* in every other record all messages carry the SAME message_seq (fragments of different types and lengths side by side: each is returned as it is) *)
Shared(s) == IF H(s, 77) % 2 = 0 THEN W16(s, 78) ELSE -1
Base(c) == (Seed % 1000) * 100003 + c
Level(c) == c % 3           \* 0: message, 1: one record, 2: datagram of 1..3 records
MsgsOf(c) == [j \in 1..(IF Level(c) = 0 THEN 1 ELSE 1 + (H(Base(c), 60) % 3)) |-> MsgQ(Base(c) + 11 * j, IF Level(c) = 0 THEN -1 ELSE Shared(Base(c)))]
Payload(ms) == FoldLeft(LAMBDA acc, m : acc \o m.bytes, <<>>, ms)
Hdr(s, n) == [ct |-> 22, ver |-> IF H(s, 61) % 4 = 0 THEN W16(s, 62) ELSE <<65279, 65277>>[(H(s, 62) % 2) + 1], epoch |-> W16(s, 63), seq |-> <<W16(s, 64), W16(s, 66), W16(s, 68)>>, len |-> n]
RecOf(s, ms) == [hdr |-> Hdr(s, Len(Payload(ms))), msgs |-> [j \in 1..Len(ms) |-> ms[j].want]]
Small(ms) == Len(Payload(ms)) <= 16384
NRec(c) == IF Level(c) = 2 THEN 1 + (H(Base(c), 70) % 3) ELSE 1
RecMsgs(c, r) == [j \in 1..(1 + (H(Base(c) + 97 * r, 60) % 2)) |-> MsgQ(Base(c) + 97 * r + 11 * j, Shared(Base(c) + 97 * r))]
Sfx(c) == <<<<>>, <<0>>, <<22, 254, 253>>, <<1, 0, 0, 0, 0, 0, 0, 0, 0, 0, 0, 0>>>>[(H(c, 5) % 4) + 1]
Usable(c) == IF Level(c) = 1 THEN Small(MsgsOf(c)) ELSE IF Level(c) = 2 THEN \A r \in 1..NRec(c) : Small(RecMsgs(c, r)) ELSE TRUE
Lvl(c) == IF Usable(c) THEN Level(c) ELSE 0
FnOf(c) == <<"parse_dtls_message_handshake", "parse_dtls_plaintext_record", "parse_dtls_plaintext_records">>[Lvl(c) + 1]
RecBytes(s, ms) == EncDtlsHeader(Hdr(s, Len(Payload(ms)))) \o Payload(ms)
BytesOf(c) ==
  CASE Lvl(c) = 0 -> MsgsOf(c)[1].bytes \o Sfx(c)
    [] Lvl(c) = 1 -> RecBytes(Base(c), MsgsOf(c)) \o Sfx(c)
    [] OTHER -> FoldLeft(LAMBDA acc, r : acc \o RecBytes(Base(c) + 97 * r, RecMsgs(c, r)), <<>>, [r \in 1..NRec(c) |-> r])
WantOf(c) ==
  CASE Lvl(c) = 0 -> MsgsOf(c)[1].want
    [] Lvl(c) = 1 -> RecOf(Base(c), MsgsOf(c))
    [] OTHER -> [r \in 1..NRec(c) |-> RecOf(Base(c) + 97 * r, RecMsgs(c, r))]
TailLen(c) == IF Lvl(c) = 2 THEN 0 ELSE Len(Sfx(c))
VARIABLES i, res
Init == i = Chunk + 1 /\ i <= N /\ res = Apply(FnOf(i), NoArgs, BytesOf(i))
Next == i + NChunks <= N /\ i' = i + NChunks /\ res' = Apply(FnOf(i'), NoArgs, BytesOf(i'))
RandRoundTrip ==
  LET r == C!Apply(FnOf(i), NoArgs, BytesOf(i))  n == Len(BytesOf(i)) - TailLen(i) IN
  /\ r.k = "ok" /\ r.p = n /\ r.v = WantOf(i)
  /\ res.k = "ok" /\ res.p = n /\ res = Apply(FnOf(i), NoArgs, SubSeq(BytesOf(i), 1, n))
EmitCase == EmitLine(CaseLine(i, FnOf(i), NoArgs, <<Lit(BytesOf(i))>>, res, "full", [kind |-> "rand", t |-> Lvl(i)]))
=============================================================================
