INIT Init
NEXT Next
CONSTANT RangeMode = TRUE
INVARIANT Preserved
INVARIANT EmitSite
CHECK_DEADLOCK FALSE
