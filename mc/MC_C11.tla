------------------------------- MODULE MC_C11 -------------------------------
(***************************************************************************)
(* C11 - unknown enumerated code points are accepted and preserved.        *)
(* Sites: (enclosing template, field) for every enumerated field that does *)
(* not select the structure being parsed.  TLC checks Preserved(site) on   *)
(* the specification for every u8 value and a boundary-rich stride of the  *)
(* u16 values, and emits the templates; the harness sweeps the WHOLE       *)
(* domain of every site on the compiled crate.                             *)
(* Excluded by the statement (selectors): plaintext content type,          *)
(* handshake type, EC curve type, ServerHello legacy version.              *)
(***************************************************************************)
EXTENDS Calls, Emit

C == INSTANCE Calls WITH RangeMode <- FALSE
R32 == Fill(2, 32)

(* [site, fn, a, pre, w, suf, path]: input = pre ++ BE_w(x) ++ suf; path = where x must come back *)
S(site, fn, a, pre, w, suf, path) == [site |-> site, fn |-> fn, a |-> a, pre |-> pre, w |-> w, suf |-> suf, path |-> path]
Hs(ty, body) == <<ty>> \o BE24(Len(body)) \o body
Wrap(ty, pre, w, suf) == [pre |-> <<ty>> \o BE24(Len(pre) + w + Len(suf)) \o pre, suf |-> suf]
ExtOf(ty, pre, w, suf) == [pre |-> BE16(ty) \o BE16(Len(pre) + w + Len(suf)) \o pre, suf |-> suf]
ChPre == BE16(771) \o R32 \o <<0>>
HsS(site, ty, pre, w, suf, path) ==      \* a handshake message around the field
  S(site, "parse_tls_message_handshake", NoArgs, <<ty>> \o BE24(Len(pre) + w + Len(suf)) \o pre, w, suf, path)
ExS(site, ty, pre, w, suf, path) ==      \* a generic extension around the field
  S(site, "parse_tls_extension", NoArgs, BE16(ty) \o BE16(Len(pre) + w + Len(suf)) \o pre, w, suf, path)
RecS(site, ct, pre, w, suf, path) ==     \* a plaintext record around the field
  S(site, "parse_tls_plaintext", NoArgs, <<ct, 3, 3>> \o BE16(Len(pre) + w + Len(suf)) \o pre, w, suf, path)
Hist(h) == [NoArgs EXCEPT !.sub = h]
Cut(c1, c2) == [NoArgs EXCEPT !.len = c1, !.ct = c2]
Sites == <<
  S("record_version_raw", "parse_tls_raw_record", NoArgs, <<23>>, 2, <<0, 1, 9>>, "hdr.ver"),
  S("record_version_plaintext", "parse_tls_plaintext", NoArgs, <<21>>, 2, <<0, 2, 1, 0>>, "hdr.ver"),
  S("record_version_encrypted", "parse_tls_encrypted", NoArgs, <<23>>, 2, <<0, 0>>, "hdr.ver"),
  S("record_type_raw", "parse_tls_raw_record", NoArgs, <<>>, 1, <<3, 3, 0, 1, 9>>, "hdr.ct"),
  S("record_type_encrypted", "parse_tls_encrypted", NoArgs, <<>>, 1, <<3, 3, 0, 1, 9>>, "hdr.ct"),
  S("record_type_header", "parse_tls_record_header", NoArgs, <<>>, 1, <<3, 3, 0, 1>>, "ct"),
  S("dtls_record_version", "parse_dtls_record_header", NoArgs, <<22>>, 2, <<0, 0, 0, 0, 0, 0, 0, 0, 0, 0>>, "ver"),
  S("dtls_record_type", "parse_dtls_record_header", NoArgs, <<>>, 1, <<254, 253, 0, 0, 0, 0, 0, 0, 0, 0, 0, 0>>, "ct"),
  HsS("client_hello_version", 1, <<>>, 2, R32 \o <<0, 0, 0, 1, 0>>, "m.ver"),
  HsS("hello_retry_version", 6, <<>>, 2, <<19, 1>>, "m.ver"),
  HsS("draft18_cipher", 2, <<127, 18>> \o R32, 2, <<>>, "m.cipher"),
  HsS("client_hello_cipher", 1, ChPre \o <<0, 4, 0, 47>>, 2, <<1, 0>>, "m.ciphers.1"),
  HsS("server_hello_cipher", 2, <<3, 3>> \o R32 \o <<0>>, 2, <<0>>, "m.cipher"),
  HsS("client_hello_compression", 1, ChPre \o <<0, 2, 0, 47, 2, 0>>, 1, <<>>, "m.comp.1"),
  HsS("server_hello_compression", 2, <<3, 1>> \o R32 \o <<0, 0, 47>>, 1, <<>>, "m.comp"),
  S("alert_level", "parse_tls_message_alert", NoArgs, <<>>, 1, <<40>>, "sev"),
  S("alert_description", "parse_tls_message_alert", NoArgs, <<2>>, 1, <<>>, "code"),
  RecS("alert_level_in_record", 21, <<>>, 1, <<0>>, "msg.0.sev"),
  RecS("alert_description_in_record", 21, <<1, 0, 2>>, 1, <<>>, "msg.1.code"),
  RecS("heartbeat_type", 24, <<>>, 1, <<0, 1, 7>>, "msg.0.hbt"),
  S("extension_type_unknown_parser", "parse_tls_extension_unknown", NoArgs, <<>>, 2, <<0, 1, 5>>, "ty"),
  ExS("named_group_in_extension", 10, <<0, 4, 0, 23>>, 2, <<>>, "groups.1"),
  S("named_group_ec_parameters", "parse_ec_parameters", NoArgs, <<3>>, 2, <<>>, "content.g"),
  S("named_group_esni", "parse_tls_extension_encrypted_server_name", NoArgs, <<19, 1>>, 2, <<0, 0, 0, 0, 0, 0>>, "group"),
  S("esni_cipher", "parse_tls_extension_encrypted_server_name", NoArgs, <<>>, 2, <<0, 29, 0, 0, 0, 0, 0, 0>>, "cipher"),
  ExS("signature_scheme_in_extension", 13, <<0, 2>>, 2, <<>>, "algs.0"),
  HsS("signature_algorithm_cert_request", 13, <<1, 1, 0, 2>>, 2, <<0, 0>>, "m.sigalgs.0.0"),
  S("hash_algorithm", "parse_digitally_signed", NoArgs, <<>>, 1, <<3, 0, 0>>, "alg.0.hash"),
  S("sign_algorithm", "parse_digitally_signed", NoArgs, <<4>>, 1, <<0, 1, 7>>, "alg.0.sign"),
  ExS("sni_name_type", 0, <<0, 4>>, 1, <<0, 1, 97>>, "names.0.nt"),
  ExS("status_type_in_extension", 5, <<>>, 1, <<0, 0>>, "req.0.st"),
  HsS("status_type_in_message", 22, <<>>, 1, <<0, 0, 0>>, "m.st"),
  HsS("certificate_type", 13, <<2, 1>>, 1, <<0, 0>>, "m.types.1"),
  ExS("psk_mode", 45, <<2, 1>>, 1, <<>>, "modes.1"),
  S("ct_version", "parse_ct_signed_certificate_timestamp", NoArgs, <<0, 47>>, 1, R32 \o <<0, 0, 0, 0, 0, 0, 0, 1, 0, 0, 4, 3, 0, 0>>, "ver"),
  HsS("key_update", 24, <<>>, 1, <<>>, "m.v"),
  ExS("supported_version", 43, <<4, 3, 4>>, 2, <<>>, "vers.1"),
  ExS("selected_version", 43, <<>>, 2, <<>>, "vers.0"),
  ExS("max_fragment_length", 1, <<>>, 1, <<>>, "v"),
  ExS("heartbeat_mode", 15, <<>>, 1, <<>>, "v"),
  S("dtls_fragment_type", "parse_dtls_message_handshake", NoArgs, <<>>, 1, <<0, 0, 9, 0, 1, 0, 0, 3, 0, 0, 2, 7, 7>>, "mt"),
  S("dtls_hello_verify_version", "parse_dtls_message_handshake", NoArgs, <<3, 0, 0, 3, 0, 0, 0, 0, 0, 0, 0, 3>>, 2, <<0>>, "body.ver"),
  (* ServerHello.version is not a site: it selects the structure (SSLv3 without extensions, draft-18 layout) *)
  HsS("client_hello_version_with_extensions", 1, <<>>, 2, R32 \o <<0, 0, 2, 19, 1, 1, 0, 0, 4, 0, 23, 0, 0>>, "m.ver"),
  (* a record whose bytes 2..4 look like an SSLv2 hello (message type 1, version 3.x): still a record of the given type *)
  S("record_type_raw_sslv2_lookalike", "parse_tls_raw_record", NoArgs, <<>>, 1, <<3, 1, 3, 3>> \o Fill(5, 771), "hdr.ct"),
  S("record_type_encrypted_sslv2_lookalike", "parse_tls_encrypted", NoArgs, <<>>, 1, <<2, 1, 3, 0>> \o Fill(6, 768) \o <<1>>, "hdr.ct"),
  (* the (hash, signature) pair as ONE 16-bit code point: all 65536 pairs, through every structure that carries it *)
  S("signature_pair", "parse_digitally_signed", NoArgs, <<>>, 2, <<0, 1, 7>>, "alg.0.hash+alg.0.sign"),
  S("signature_pair_in_sct", "parse_ct_signed_certificate_timestamp", NoArgs, <<0, 47, 0>> \o R32 \o <<0, 0, 0, 0, 0, 0, 0, 1, 0, 0>>, 2, <<0, 0>>,
    "sig.alg.0.hash+sig.alg.0.sign"),
  S("signature_pair_in_key_exchange", "parse_content_and_signature", [NoArgs EXCEPT !.sub = "ecdh", !.ext = 1], <<3, 0, 23, 1, 4>>, 2, <<0, 1, 9>>,
    "sig.alg.0.hash+sig.alg.0.sign"),
  (* alert fields through the stateful parser, several alerts in one record *)
  S("alert_level_stateful_two_alerts", "fresh_parse_record", NoArgs, <<21, 3, 3, 0, 4>>, 1, <<0, 2, 40>>, "0.sev"),
  S("alert_level_stateful_second_alert", "fresh_parse_record", NoArgs, <<21, 3, 1, 0, 6, 1, 0>>, 1, <<90, 2, 40>>, "1.sev"),
  S("alert_description_stateful", "fresh_parse_record", NoArgs, <<21, 3, 3, 0, 4, 7>>, 1, <<1, 0>>, "0.code"),
  S("heartbeat_type_stateful", "fresh_parse_record", NoArgs, <<24, 3, 3, 0, 4>>, 1, <<0, 1, 7>>, "0.hbt"),
  (* the typed contents through the ClientHello / ServerHello dispatchers too *)
  S("status_type_server", "parse_tls_server_hello_extension", NoArgs, <<0, 5, 0, 5>>, 1, <<0, 0, 0, 0>>, "req.0.st"),
  S("status_type_client", "parse_tls_client_hello_extension", NoArgs, <<0, 5, 0, 5>>, 1, <<0, 0, 0, 0>>, "req.0.st"),
  S("sni_name_type_client", "parse_tls_client_hello_extension", NoArgs, <<0, 0, 0, 6, 0, 4>>, 1, <<0, 1, 97>>, "names.0.nt"),
  S("named_group_client", "parse_tls_client_hello_extension", NoArgs, <<0, 10, 0, 6, 0, 4, 0, 23>>, 2, <<>>, "groups.1"),
  S("signature_scheme_client", "parse_tls_client_hello_extension", NoArgs, <<0, 13, 0, 4, 0, 2>>, 2, <<>>, "algs.0"),
  S("psk_mode_client", "parse_tls_client_hello_extension", NoArgs, <<0, 45, 0, 3, 2, 1>>, 1, <<>>, "modes.1"),
  S("supported_version_client", "parse_tls_client_hello_extension", NoArgs, <<0, 43, 0, 5, 4, 3, 4>>, 2, <<>>, "vers.1"),
  S("selected_version_server", "parse_tls_server_hello_extension", NoArgs, <<0, 43, 0, 2>>, 2, <<>>, "vers.0"),
  S("max_fragment_length_server", "parse_tls_server_hello_extension", NoArgs, <<0, 1, 0, 1>>, 1, <<>>, "v"),
  S("heartbeat_mode_client", "parse_tls_client_hello_extension", NoArgs, <<0, 15, 0, 1>>, 1, <<>>, "v"),
  S("heartbeat_mode_server", "parse_tls_server_hello_extension", NoArgs, <<0, 15, 0, 1>>, 1, <<>>, "v"),
  (* the content type of a raw / encrypted record of the maximum length *)
  S("record_type_encrypted_len_16640", "parse_tls_encrypted", NoArgs, <<>>, 1, <<3, 3, 65, 0>> \o Fill(7, 16640), "hdr.ct"),
  S("record_type_raw_len_16640", "parse_tls_raw_record", NoArgs, <<>>, 1, <<3, 4, 65, 0>> \o Fill(8, 16640) \o <<22, 3>>, "hdr.ct"),
  S("record_type_encrypted_len_16385", "parse_tls_encrypted", NoArgs, <<>>, 1, <<3, 1, 64, 1>> \o Fill(9, 16385), "hdr.ct"),
  (* sibling fields: a field's value is preserved whatever its neighbours say *)
  HsS("server_hello_compression_tls13_cipher", 2, <<3, 3>> \o R32 \o <<0, 19, 1>>, 1, <<>>, "m.comp"),
  HsS("server_hello_compression_unlisted_cipher", 2, <<3, 3>> \o R32 \o <<0, 255, 255>>, 1, <<>>, "m.comp"),
  HsS("server_hello_cipher_compression_255", 2, <<3, 3>> \o R32 \o <<0>>, 2, <<255>>, "m.cipher"),
  HsS("client_hello_cipher_after_tls13_cipher", 1, ChPre \o <<0, 4, 19, 1>>, 2, <<2, 0, 1>>, "m.ciphers.1"),
  S("dtls_server_hello_compression_tls13_cipher", "parse_dtls_message_handshake", NoArgs,
    <<2, 0, 0, 38, 0, 1, 0, 0, 0, 0, 0, 38, 254, 253>> \o R32 \o <<0, 19, 2>>, 1, <<>>, "body.comp"),
  S("record_version_handshake", "parse_tls_plaintext", NoArgs, <<22>>, 2, <<0, 4, 14, 0, 0, 0>>, "hdr.ver"),
  S("record_version_ccs", "tls_parser", NoArgs, <<20>>, 2, <<0, 1, 1>>, "hdr.ver"),
  S("dtls_server_hello_version", "parse_dtls_message_handshake", NoArgs, <<2, 0, 0, 44, 0, 1, 0, 0, 0, 0, 0, 44>>, 2,
    R32 \o <<0, 0, 47, 0, 0, 4, 0, 23, 0, 0>>, "body.ver"),
  S("dtls_server_hello_cipher", "parse_dtls_message_handshake", NoArgs, <<2, 0, 0, 38, 0, 1, 0, 0, 0, 0, 0, 38, 254, 253>> \o R32 \o <<0>>, 2,
    <<0>>, "body.cipher"),
  S("dtls_client_hello_version", "parse_dtls_message_handshake", NoArgs, <<1, 0, 0, 42, 0, 0, 0, 0, 0, 0, 0, 42>>, 2,
    R32 \o <<0, 0, 0, 2, 0, 47, 1, 0>>, "body.ver"),
  S("dtls_client_hello_cipher", "parse_dtls_message_handshake", NoArgs, <<1, 0, 0, 44, 0, 0, 0, 0, 0, 0, 0, 44, 254, 253>> \o R32 \o <<0, 0, 0, 4, 0, 47>>, 2,
    <<1, 0>>, "body.ciphers.1"),
  S("dtls_record_version_in_record", "parse_dtls_plaintext_record", NoArgs, <<21>>, 2, <<0, 0, 0, 0, 0, 0, 0, 0, 0, 2, 1, 0>>, "hdr.ver"),
  (* a code point alone in its list, or among neighbours that are all unregistered: it is not accepted "because" a registered one is present *)
  HsS("client_hello_compression_alone", 1, ChPre \o <<0, 2, 0, 47, 1>>, 1, <<>>, "m.comp.0"),
  HsS("client_hello_compression_among_unregistered", 1, ChPre \o <<0, 2, 0, 47, 3, 64, 255>>, 1, <<>>, "m.comp.2"),
  HsS("client_hello_cipher_alone", 1, ChPre \o <<0, 2>>, 2, <<1, 0>>, "m.ciphers.0"),
  S("dtls_client_hello_compression_alone", "parse_dtls_message_handshake", NoArgs, <<1, 0, 0, 42, 0, 0, 0, 0, 0, 0, 0, 42, 254, 253>> \o R32 \o <<0, 0, 0, 2, 0, 47, 1>>, 1, <<>>, "body.comp.0"),
  (* every alert of a DTLS record, not only the first *)
  S("dtls_alert_level_second", "parse_dtls_plaintext_record", NoArgs, <<21, 254, 253, 0, 0, 0, 0, 0, 0, 0, 1, 0, 4, 1, 0>>, 1, <<40>>, "msgs.1.sev"),
  S("dtls_alert_description_third", "parse_dtls_plaintext_record", NoArgs, <<21, 254, 253, 0, 1, 0, 0, 0, 0, 0, 2, 0, 6, 1, 0, 2, 40, 1>>, 1, <<>>, "msgs.2.code"),
  S("dtls_alert_level_with_header", "parse_dtls_record_with_header", [NoArgs EXCEPT !.ct = 21, !.ver = 65277, !.len = 4], <<1, 90>>, 1, <<0>>, "1.sev"),
  (* the named group through every structure that carries it (all 65536 groups are one opaque number, elliptic or not) *)
  S("named_group_ecdh_params", "parse_ecdh_params", NoArgs, <<3>>, 2, <<1, 4>>, "params.content.g"),
  S("named_group_ecdh_params_long_point", "parse_ecdh_params", NoArgs, <<3>>, 2, <<65>> \o Fill(3, 65) \o <<4, 3>>, "params.content.g"),
  S("named_group_content_and_signature", "parse_content_and_signature", [NoArgs EXCEPT !.sub = "ecdh", !.ext = 1], <<3>>, 2, <<2, 4, 5, 4, 3, 0, 1, 7>>, "content.params.content.g"),
  S("named_group_content_and_signature_old", "parse_content_and_signature", [NoArgs EXCEPT !.sub = "ecdh", !.ext = 0], <<3>>, 2, <<1, 4, 0, 2, 7, 7>>, "content.params.content.g"),
  S("named_group_content_selector", "ECParametersContent::parse", [NoArgs EXCEPT !.ct = 3], <<>>, 2, <<9>>, "g"),
  S("named_group_in_server_key_exchange", "deep_server_key_exchange", [NoArgs EXCEPT !.sub = "ecdh", !.ext = 1], <<12, 0, 0, 10, 3>>, 2, <<1, 4, 4, 3, 0, 1, 7>>, "params.content.params.content.g"),
  (* through a stateful parser WITH A HISTORY (what preceded on the connection does not touch a code point) ... *)
  S("alert_level_after_ccs", "hist_parse_record", Hist("ccs"), <<21, 3, 3, 0, 2>>, 1, <<40>>, "0.sev"),
  S("alert_description_after_ccs_app", "hist_parse_record", Hist("ccs+app"), <<21, 3, 3, 0, 2, 2>>, 1, <<>>, "0.code"),
  S("client_hello_cipher_after_ccs", "hist_parse_record", Hist("ccs"), <<22, 3, 3>> \o BE16(4 + Len(ChPre) + 8) \o <<1>> \o BE24(Len(ChPre) + 8) \o ChPre \o <<0, 4, 0, 47>>, 2, <<1, 0>>, "0.m.ciphers.1"),
  S("client_hello_compression_after_alert", "hist_parse_record", Hist("alert"), <<22, 3, 3>> \o BE16(4 + Len(ChPre) + 7) \o <<1>> \o BE24(Len(ChPre) + 7) \o ChPre \o <<0, 2, 0, 47, 2, 0>>, 1, <<>>, "0.m.comp.1"),
  S("server_hello_cipher_after_defrag", "hist_parse_record", Hist("defrag"), <<22, 3, 3>> \o BE16(42) \o <<2, 0, 0, 38, 3, 3>> \o R32 \o <<0>>, 2, <<0>>, "0.m.cipher"),
  S("heartbeat_type_after_reset", "hist_parse_record", Hist("reset"), <<24, 3, 3, 0, 4>>, 1, <<0, 1, 7>>, "0.hbt"),
  S("alert_level_after_hs", "hist_parse_record", Hist("hs"), <<21, 3, 1, 0, 2>>, 1, <<0>>, "0.sev"),
  S("alert_level_after_app", "hist_parse_record", Hist("app"), <<21, 3, 3, 0, 4, 1, 0>>, 1, <<90>>, "1.sev"),
  S("alert_level_after_refused_cipher_list", "hist_parse_record", Hist("badlen"), <<21, 3, 3, 0, 2>>, 1, <<40>>, "0.sev"),
  S("alert_description_after_nocopy_fragment", "hist_parse_record", Hist("nocopyfrag"), <<21, 3, 3, 0, 2, 2>>, 1, <<>>, "0.code"),
  S("alert_level_after_refused_handshake", "hist_parse_record", Hist("badhs"), <<21, 3, 3, 0, 2>>, 1, <<40>>, "0.sev"),
  S("client_hello_cipher_after_refused_type", "hist_parse_record", Hist("badct"), <<22, 3, 3>> \o BE16(4 + Len(ChPre) + 8) \o <<1>> \o BE24(Len(ChPre) + 8) \o ChPre \o <<0, 4, 0, 47>>, 2, <<1, 0>>, "0.m.ciphers.1"),
  S("heartbeat_type_after_refused_hello", "hist_parse_record", Hist("defrag+badhs"), <<24, 3, 3, 0, 4>>, 1, <<0, 1, 7>>, "0.hbt"),
  S("server_hello_compression_after_refused_handshake", "hist_parse_record", Hist("badhs"), <<22, 3, 3>> \o BE16(42) \o <<2, 0, 0, 38, 3, 3>> \o R32 \o <<0, 0, 47>>, 1, <<>>, "0.m.comp"),
  (* ... and when the message arrives in several records (cuts after a.len and a.len + a.ct payload bytes) *)
  S("heartbeat_type_split_3_1", "split_parse_record", Cut(3, 1), <<24, 3, 3, 0, 7>>, 1, <<0, 4, 1, 2, 3, 4>>, "0.hbt"),
  S("heartbeat_type_split_1_2", "split_parse_record", Cut(1, 2), <<24, 3, 3, 0, 23>>, 1, <<0, 4, 1, 2, 3, 4>> \o Fill(1, 16), "0.hbt"),
  S("heartbeat_type_split_4_2", "split_parse_record", Cut(4, 2), <<24, 3, 3, 0, 9>>, 1, <<0, 6, 1, 2, 3, 4, 5, 6>>, "0.hbt"),
  S("client_hello_cipher_split_header", "split_parse_record", Cut(2, 2), <<22, 3, 3>> \o BE16(4 + Len(ChPre) + 8) \o <<1>> \o BE24(Len(ChPre) + 8) \o ChPre \o <<0, 4, 0, 47>>, 2, <<1, 0>>, "0.m.ciphers.1"),
  S("client_hello_cipher_split_inside_field", "split_parse_record", Cut(4 + Len(ChPre) + 5, 1), <<22, 3, 3>> \o BE16(4 + Len(ChPre) + 8) \o <<1>> \o BE24(Len(ChPre) + 8) \o ChPre \o <<0, 4, 0, 47>>, 2, <<1, 0>>, "0.m.ciphers.1"),
  S("server_hello_compression_split", "split_parse_record", Cut(10, 31), <<22, 3, 3>> \o BE16(42) \o <<2, 0, 0, 38, 3, 3>> \o R32 \o <<0, 0, 47>>, 1, <<>>, "0.m.comp")
  >>
NSites == Len(Sites)

(* the accessor of each site on the specification's (content-mode) value *)
Acc(site, v) ==
  CASE site \in {"record_version_raw", "record_version_plaintext", "record_version_encrypted"} -> v.hdr.ver
    [] site \in {"record_type_raw", "record_type_encrypted", "record_type_raw_sslv2_lookalike", "record_type_encrypted_sslv2_lookalike",
                 "record_type_encrypted_len_16640", "record_type_raw_len_16640", "record_type_encrypted_len_16385"} -> v.hdr.ct
    [] site \in {"record_type_header", "dtls_record_type"} -> v.ct
    [] site = "dtls_record_version" -> v.ver
    [] site \in {"client_hello_version", "hello_retry_version", "client_hello_version_with_extensions"} -> v.m.ver
    [] site \in {"record_version_handshake", "record_version_ccs", "dtls_record_version_in_record"} -> v.hdr.ver
    [] site \in {"dtls_server_hello_version", "dtls_client_hello_version"} -> v.body.ver
    [] site = "dtls_server_hello_cipher" -> v.body.cipher
    [] site = "dtls_client_hello_cipher" -> v.body.ciphers[2]
    [] site \in {"draft18_cipher", "server_hello_cipher"} -> v.m.cipher
    [] site = "client_hello_cipher" -> v.m.ciphers[2]
    [] site = "client_hello_compression" -> v.m.comp[2]
    [] site = "client_hello_compression_alone" -> v.m.comp[1] [] site = "client_hello_compression_among_unregistered" -> v.m.comp[3]
    [] site = "client_hello_cipher_alone" -> v.m.ciphers[1] [] site = "dtls_client_hello_compression_alone" -> v.body.comp[1]
    [] site = "dtls_alert_level_second" -> v.msgs[2].sev [] site = "dtls_alert_description_third" -> v.msgs[3].code
    [] site = "dtls_alert_level_with_header" -> v[2].sev
    [] site \in {"server_hello_compression", "server_hello_compression_tls13_cipher", "server_hello_compression_unlisted_cipher"} -> v.m.comp
    [] site = "server_hello_cipher_compression_255" -> v.m.cipher
    [] site = "client_hello_cipher_after_tls13_cipher" -> v.m.ciphers[2]
    [] site = "dtls_server_hello_compression_tls13_cipher" -> v.body.comp
    [] site = "alert_level" -> v.sev [] site = "alert_description" -> v.code
    [] site = "alert_level_stateful_two_alerts" -> v[1].sev [] site = "alert_level_stateful_second_alert" -> v[2].sev
    [] site = "alert_description_stateful" -> v[1].code [] site = "heartbeat_type_stateful" -> v[1].hbt
    [] site \in {"alert_level_after_ccs", "alert_level_after_hs", "alert_level_after_refused_handshake", "alert_level_after_refused_cipher_list"} -> v[1].sev
    [] site = "alert_level_after_app" -> v[2].sev
    [] site \in {"alert_description_after_ccs_app", "alert_description_after_nocopy_fragment"} -> v[1].code
    [] site \in {"client_hello_cipher_after_ccs", "client_hello_cipher_split_header", "client_hello_cipher_split_inside_field", "client_hello_cipher_after_refused_type"} -> v[1].m.ciphers[2]
    [] site = "client_hello_compression_after_alert" -> v[1].m.comp[2]
    [] site = "server_hello_cipher_after_defrag" -> v[1].m.cipher
    [] site \in {"server_hello_compression_split", "server_hello_compression_after_refused_handshake"} -> v[1].m.comp
    [] site \in {"heartbeat_type_after_reset", "heartbeat_type_after_refused_hello", "heartbeat_type_split_3_1", "heartbeat_type_split_1_2", "heartbeat_type_split_4_2"} -> v[1].hbt
    [] site \in {"status_type_server", "status_type_client"} -> v.req[1].st
    [] site = "sni_name_type_client" -> v.names[1].nt [] site = "named_group_client" -> v.groups[2]
    [] site = "signature_scheme_client" -> v.algs[1] [] site = "psk_mode_client" -> v.modes[2]
    [] site = "supported_version_client" -> v.vers[2] [] site = "selected_version_server" -> v.vers[1]
    [] site \in {"max_fragment_length_server", "heartbeat_mode_client", "heartbeat_mode_server"} -> v.v
    [] site = "alert_level_in_record" -> v.msg[1].sev [] site = "alert_description_in_record" -> v.msg[2].code
    [] site = "heartbeat_type" -> v.msg[1].hbt
    [] site = "extension_type_unknown_parser" -> v.ty
    [] site = "named_group_in_extension" -> v.groups[2]
    [] site = "named_group_ec_parameters" -> v.content.g
    [] site \in {"named_group_ecdh_params", "named_group_ecdh_params_long_point"} -> v.params.content.g
    [] site \in {"named_group_content_and_signature", "named_group_content_and_signature_old"} -> v.content.params.content.g
    [] site = "named_group_content_selector" -> v.g
    [] site = "named_group_in_server_key_exchange" -> v.params.content.params.content.g
    [] site = "named_group_esni" -> v.group [] site = "esni_cipher" -> v.cipher
    [] site = "signature_scheme_in_extension" -> v.algs[1]
    [] site = "signature_algorithm_cert_request" -> v.m.sigalgs[1][1]
    [] site = "signature_pair" -> v.alg[1].hash * 256 + v.alg[1].sign
    [] site \in {"signature_pair_in_sct", "signature_pair_in_key_exchange"} -> v.sig.alg[1].hash * 256 + v.sig.alg[1].sign
    [] site = "hash_algorithm" -> v.alg[1].hash [] site = "sign_algorithm" -> v.alg[1].sign
    [] site = "sni_name_type" -> v.names[1].nt
    [] site = "status_type_in_extension" -> v.req[1].st
    [] site = "status_type_in_message" -> v.m.st
    [] site = "certificate_type" -> v.m.types[2]
    [] site = "psk_mode" -> v.modes[2]
    [] site = "ct_version" -> v.ver
    [] site = "key_update" -> v.m.v
    [] site = "supported_version" -> v.vers[2]
    [] site = "selected_version" -> v.vers[1]
    [] site \in {"max_fragment_length", "heartbeat_mode"} -> v.v
    [] site = "dtls_fragment_type" -> v.mt
    [] site = "dtls_hello_verify_version" -> v.body.ver

BEw(w, x) == IF w = 1 THEN <<x>> ELSE BE16(x)
Input(s, x) == s.pre \o BEw(s.w, x) \o s.suf
Stride16 == {0, 1, 2, 255, 256, 257, 768, 769, 770, 771, 772, 2570, 2571, 6682, 32530, 64250, 65277, 65279, 65280, 65281, 65534, 65535}
            \cup {257 * k + 3 : k \in 0..254} \cup {4096 * k : k \in 0..15}
Domain(s) == IF s.w = 1 THEN 0..255 ELSE Stride16

VARIABLES i
Init == i = Chunk + 1 /\ i <= NSites
Next == i + NChunks <= NSites /\ i' = i + NChunks

(* Preserved(site): every explored value is accepted and comes back unchanged, the whole input consumed up to the suffix rule *)
Preserved ==
  LET s == Sites[i] IN
  \A x \in Domain(s) :
    LET r == C!Apply(s.fn, s.a, Input(s, x)) IN r.k = "ok" /\ Acc(s.site, r.v) = x

(* emit the template, and three full inputs with their expected results so that the template's bytes are cross-checked *)
EmitSite ==
  LET s == Sites[i]  xs == IF s.w = 1 THEN <<0, 77, 255>> ELSE <<0, 4660, 65535>> IN
  EmitLine([site |-> s.site, fn |-> s.fn, a |-> s.a, pre |-> s.pre, w |-> s.w, suf |-> s.suf, path |-> s.path,
            samples |-> [q \in 1..3 |-> [x |-> xs[q], input |-> <<Lit(Input(s, xs[q]))>>,
                                         expect |-> Apply(s.fn, s.a, Input(s, xs[q]))]]])
=============================================================================
