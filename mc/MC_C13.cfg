INIT Init
NEXT Next
CONSTANT RangeMode = TRUE
INVARIANT RoundTrip
INVARIANT BoundedRule
INVARIANT Truncated
INVARIANT CurveTypeRule
INVARIANT CurveLayoutRule
INVARIANT SignatureFormIffFlag
INVARIANT EmitCase
CHECK_DEADLOCK FALSE
