------------------------------- MODULE MC_C13 -------------------------------
(***************************************************************************)
(* C13 - key-exchange parameters and signatures decode exactly and          *)
(* self-delimit.                                                           *)
(***************************************************************************)
EXTENDS Calls, Emit

C == INSTANCE Calls WITH RangeMode <- FALSE

MapSeq(ixs, F(_)) == [j \in 1..Len(ixs) |-> F(ixs[j])]
Lens4 == <<<<>>, <<1>>, Fill(1, 255), Fill(2, 256)>>
Lens3 == <<<<>>, <<9>>, Fill(3, 255)>>
Big == Fill(5, 65535)
RepZero(n) == [j \in 1..n |-> 0]

DhVals == MapSeq(SetToSeq({<<a, b, c>> : a \in 1..4, b \in 1..4, c \in 1..4}),
                 LAMBDA ix : [p |-> Lens4[ix[1]], g |-> Lens4[ix[2]], ys |-> Lens4[ix[3]]])
          \o << [p |-> Big, g |-> <<2>>, ys |-> <<>>], [p |-> <<>>, g |-> <<>>, ys |-> Big], [p |-> Big, g |-> Big, ys |-> Big],
                [p |-> <<0>>, g |-> <<0>>, ys |-> <<0>>], [p |-> <<0, 0, 0>>, g |-> <<>>, ys |-> <<0, 1>>], [p |-> RepZero(300), g |-> <<255>>, ys |-> <<>>] >>
          \o [k \in 1..12 |-> [p |-> Fill(k, 256 * <<1, 2, 3, 4, 7, 8, 16, 32, 64, 100, 128, 200>>[k] + (k % 2)), g |-> <<2>>, ys |-> <<k>>]]
          (* the three integers are independent byte strings: a public value longer (sign octet, or a peer's mistake) or shorter than the *)
          (* modulus, at the standard modulus sizes and beside them                                                                       *)
          \o Concat([k \in 1..9 |-> LET n == <<128, 192, 256, 384, 512, 768, 1024, 2048, 255>>[k] IN
                << [p |-> Fill(k, n), g |-> <<2>>, ys |-> Fill(k + 1, n + 1)], [p |-> Fill(k, n), g |-> <<0, 5>>, ys |-> Fill(k + 2, n - 1)],
                   [p |-> Fill(k, n), g |-> Fill(3, n), ys |-> Fill(k + 3, 2 * n)] >>])
(* integers with sign octets, leading zeros and high bits: opaque bytes, kept as sent (len(ys) = len(p) + 1 included) *)
DhSignVals == << [p |-> <<200, 1>>, g |-> <<2>>, ys |-> <<0, 200, 7>>], [p |-> <<0, 200, 1>>, g |-> <<0, 2>>, ys |-> <<0, 0, 129>>],
                 [p |-> Fill(1, 128), g |-> <<5>>, ys |-> <<0>> \o [j \in 1..128 |-> 255]], [p |-> <<127>>, g |-> <<0>>, ys |-> <<0, 128>>],
                 [p |-> <<255>>, g |-> <<255>>, ys |-> <<255, 255>>], [p |-> <<1>>, g |-> <<>>, ys |-> <<0, 255>>],
                 [p |-> <<0, 200>> \o Fill(1, 7), g |-> <<2>>, ys |-> <<0, 129>> \o Fill(2, 7)],           \* 9 bytes = sign octet + 64 bits
                 [p |-> <<0, 255>> \o Fill(3, 15), g |-> <<0, 128>> \o Fill(4, 15), ys |-> Fill(5, 16)],   \* 17 bytes
                 [p |-> <<0, 128>> \o Fill(6, 255), g |-> <<5>>, ys |-> <<0, 255>> \o Fill(7, 255)],       \* 257 bytes = sign octet + 2048 bits
                 [p |-> <<0, 0, 200>> \o Fill(8, 6), g |-> <<0>>, ys |-> <<0>>] >>
PointVals == [k \in 1..3 |-> [point |-> Lens3[k]]] \o << [point |-> <<0>>], [point |-> <<0, 0, 0, 0>>],
               (* format bytes of SEC1 points with too little or odd-sized coordinate data: opaque all the same *)
               [point |-> <<4>>], [point |-> <<4, 1>>], [point |-> <<4, 1, 2>>], [point |-> <<2>>], [point |-> <<3, 7>>], [point |-> <<0, 4>>] >>
Named(g) == [ct |-> 3, content |-> [t |-> "NamedGroup", g |-> g]]
Expl(k) == [ct |-> 1, content |-> [t |-> "ExplicitPrime", p |-> Lens3[k], a |-> Lens3[(k % 3) + 1], b |-> Lens3[((k + 1) % 3) + 1],
                                    base |-> Lens3[k], order |-> Lens3[(k % 3) + 1], cofactor |-> Lens3[((k + 1) % 3) + 1]]]
EcVals == [k \in 1..6 |-> Named(<<0, 23, 258, 65535, 29, 30>>[k])] \o [k \in 1..3 |-> Expl(k)]
          \o << [ct |-> 1, content |-> [t |-> "ExplicitPrime", p |-> <<>>, a |-> <<>>, b |-> <<>>, base |-> <<>>, order |-> <<>>, cofactor |-> <<>>]],
                [ct |-> 1, content |-> [t |-> "ExplicitPrime", p |-> Lens3[3], a |-> Lens3[3], b |-> Lens3[3], base |-> Lens3[3], order |-> Lens3[3], cofactor |-> Lens3[3]]] >>
EcdhVals == Concat([j \in 1..Len(EcVals) |-> [k \in 1..3 |-> [params |-> EcVals[j], public |-> Lens3[k]]]])
Algs == <<<<0, 0>>, <<4, 3>>, <<255, 255>>>>
SigData == <<<<>>, <<1>>, Fill(7, 300)>>
SignedNew == Concat([a \in 1..3 |-> [d \in 1..3 |-> [alg |-> Some([hash |-> Algs[a][1], sign |-> Algs[a][2]]), data |-> SigData[d]]]])
             \o << [alg |-> Some([hash |-> 4, sign |-> 1]), data |-> Big] >>
SignedOld == [d \in 1..3 |-> [alg |-> None, data |-> SigData[d]]] \o << [alg |-> None, data |-> Big] >>

Sfx == << <<>>, <<0>>, <<0, 1, 7, 3, 0, 23, 1, 4>> >>
(* [kind, fn, sub, ext, bytes, want (abstract value), extra] *)
Mk(kind, fn, sub, ext, bytes, want, extra) ==
  [kind |-> kind, fn |-> fn, sub |-> sub, ext |-> ext, bytes |-> bytes, want |-> want, extra |-> extra]
EncCases(vals, Enc(_), fn) ==
  Concat([j \in 1..Len(vals) |->
    LET e == Enc(vals[j]) IN
    [s \in 1..(IF Len(e) > 2000 THEN 1 ELSE 3) |-> Mk("enc", fn, "", 0, e \o Sfx[s], vals[j], Len(Sfx[s]))]])
(* every strict prefix of the small encodings yields no value *)
CutCases(vals, Enc(_), fn) ==
  Concat([j \in 1..Len(vals) |->
    LET e == Enc(vals[j]) IN
    IF Len(e) > (IF Thorough THEN 600 ELSE 24) \/ (~Thorough /\ j % 2 = 0) THEN <<>>
    ELSE [k1 \in 1..Len(e) |-> Mk("cut", fn, "", 0, SubSeq(e, 1, k1 - 1), <<>>, 0)]])

(* all 256 curve types: only explicit-prime (1) and named-curve (3) are accepted *)
CurveTypeCases ==
  [ct1 \in 1..256 |-> Mk("curvetype", "parse_ec_parameters", "", 0, <<ct1 - 1, 0, 0, 0, 0, 0, 0, 0, 0, 0>>, <<>>, 0)]
  \o [ct1 \in 1..256 |-> Mk("curvetype", "parse_ecdh_params", "", 0, <<ct1 - 1, 0, 0, 0, 0, 0, 0, 0, 0, 0, 0>>, <<>>, 0)]

(* every curve type over bodies that are well formed under each RFC 4492 layout (explicit prime, explicit char2 with a *)
(* trinomial / pentanomial basis, named curve): whatever the body looks like, only types 1 and 3 are accepted          *)
O(x) == <<Len(x)>> \o x
FiveOpaque == O(<<1>>) \o O(<<2, 3>>) \o O(<<4, 5, 6>>) \o O(<<7>>) \o O(<<1>>)      \* a, b, base, order, cofactor
Layouts == << O(<<23, 1>>) \o FiveOpaque,                                               \* explicit_prime: p, a, b, base, order, cofactor
              <<0, 163, 1>> \o O(<<7>>) \o FiveOpaque,                                   \* explicit_char2: m, basis = trinomial, k
              <<0, 163, 2>> \o O(<<3>>) \o O(<<6>>) \o O(<<7>>) \o FiveOpaque,            \* explicit_char2: m, basis = pentanomial, k1 k2 k3
              <<0, 163, 1, 0>> \o FiveOpaque, <<0, 163, 2, 1, 3, 1, 6, 1, 7>> \o FiveOpaque,
              <<0, 23>> >>                                                                 \* named_curve
CurveLayoutCases ==
  Concat([ct1 \in 1..256 |->
    Concat([l \in 1..Len(Layouts) |->
      << Mk("curvelayout", "parse_ec_parameters", "", 0, <<ct1 - 1>> \o Layouts[l] \o <<9, 9, 9>>, <<>>, 0),
         [kind |-> "curvesel", fn |-> "ECParametersContent::parse", sub |-> "", ext |-> 0, ct |-> ct1 - 1, bytes |-> Layouts[l] \o <<9, 9, 9>>, want |-> <<>>, extra |-> 0],
         Mk("curvelayout", "parse_ecdh_params", "", 0, <<ct1 - 1>> \o Layouts[l] \o <<2, 4, 4, 9>>, <<>>, 0) >>])])

(* content + signature under both values of the negotiation flag *)
SubVals(sub) == IF sub = "dh" THEN SubSeq(DhVals, 1, 6) \o SubSeq(DhVals, 68, Len(DhVals)) ELSE IF sub = "ecdh" THEN SubSeq(EcdhVals, 1, 9) ELSE EcVals
SubEnc(sub, v) == IF sub = "dh" THEN EncDhParams(v) ELSE IF sub = "ecdh" THEN EncEcdhParams(v) ELSE EncEcParameters(v)
Subs == <<"dh", "ecdh", "ec">>
CasCases ==
  Concat([q \in 1..3 |->
    LET sub == Subs[q] vals == SubVals(sub) IN
    Concat([j \in 1..Len(vals) |->
      Concat([g \in 1..4 |->
        LET sg == (SubSeq(SignedNew, 1, 4) \o SubSeq(SignedOld, 1, 2))[((j + g) % 6) + 1]
            enc == SubEnc(sub, vals[j]) \o EncSigned(sg)
            flag == IF sg.alg = None THEN 0 ELSE 1 IN
        << Mk("cas", "parse_content_and_signature", sub, flag, enc \o Sfx[(g % 3) + 1], [content |-> vals[j], sig |-> sg], Len(Sfx[(g % 3) + 1])),
           Mk("casflip", "parse_content_and_signature", sub, 1 - flag, enc \o Sfx[(g % 3) + 1], <<>>, 0) >>])])])

(* the two signature structures are told apart by the flag only: inputs that are well formed under BOTH readings *)
(* (<<h, s>> \o BE16(256h + s - 2) \o data is also a legacy signature of 256h + s bytes), under both flags        *)
AmbPairs == <<<<1, 0>>, <<2, 0>>, <<4, 0>>, <<0, 2>>, <<0, 4>>, <<1, 1>>, <<4, 3>>, <<2, 1>>>>
AmbCases ==
  Concat([q \in 1..Len(AmbPairs) |->
    LET h == AmbPairs[q][1]  sg == AmbPairs[q][2]  n == 256 * h + sg - 2
        sig == <<h, sg>> \o BE16(n) \o Fill(q, n)
        newv == [alg |-> Some([hash |-> h, sign |-> sg]), data |-> Fill(q, n)]
        oldv == [alg |-> None, data |-> BE16(n) \o Fill(q, n)] IN
    Concat([w \in 1..2 |->
      LET sub == <<"dh", "ecdh">>[w]  v == IF w = 1 THEN DhSignVals[((q - 1) % 6) + 1] ELSE EcdhVals[q]
          enc == SubEnc(sub, v) \o sig IN
      << Mk("cas", "parse_content_and_signature", sub, 1, enc, [content |-> v, sig |-> newv], 0),
         Mk("cas", "parse_content_and_signature", sub, 0, enc, [content |-> v, sig |-> oldv], 0),
         Mk("cas", "parse_content_and_signature", sub, 1, enc \o <<0>>, [content |-> v, sig |-> newv], 1),
         Mk("enc", "parse_digitally_signed", "", 0, sig, newv, 0),
         Mk("enc", "parse_digitally_signed_old", "", 0, sig, oldv, 0) >>])])

(* structures followed by 2^16 - 1 .. 2^17 - 1 more bytes *)
LongTailCases ==
  Concat([t \in 1..Len(LongTails) |->
    LET tail == [h \in 1..LongTails[t] |-> 171] IN
    << Mk("enc", "parse_dh_params", "", 0, EncDhParams(DhSignVals[1]) \o tail, DhSignVals[1], LongTails[t]),
       Mk("enc", "parse_ecdh_params", "", 0, EncEcdhParams(EcdhVals[2]) \o tail, EcdhVals[2], LongTails[t]),
       Mk("enc", "parse_digitally_signed", "", 0, EncSigned(SignedNew[5]) \o tail, SignedNew[5], LongTails[t]),
       Mk("cas", "parse_content_and_signature", "ecdh", 1, EncEcdhParams(EcdhVals[2]) \o EncSigned(SignedNew[5]) \o tail,
          [content |-> EcdhVals[2], sig |-> SignedNew[5]], LongTails[t]) >>])
(* all 65536 (hash, signature) pairs are opaque numbers to parse_content_and_signature: a stride over the pair, both sub-parsers *)
PairSweep ==
  Concat([q \in 1..512 |->
    LET x == IF q <= 256 THEN 2048 + (q - 1) ELSE ((q * 251) % 65536)  h == x \div 256  sg == x % 256
        sv == [alg |-> Some([hash |-> h, sign |-> sg]), data |-> <<q % 256>>]  v == EcdhVals[2] IN
    << Mk("cas", "parse_content_and_signature", "ecdh", 1, EncEcdhParams(v) \o EncSigned(sv), [content |-> v, sig |-> sv], 0) >>])
(* every truncation of content ++ signature, under both flags (in particular the cut exactly between the two) *)
CasCutCases ==
  Concat([q \in 1..4 |->
    LET sub == <<"dh", "ecdh", "dh", "ecdh">>[q]  flag == <<0, 0, 1, 1>>[q]
        v == IF sub = "dh" THEN DhSignVals[1] ELSE EcdhVals[2]
        sg == IF flag = 1 THEN SignedNew[2] ELSE SignedOld[2]
        e == SubEnc(sub, v) \o EncSigned(sg) IN
    [k1 \in 1..Len(e) |-> Mk("cut", "parse_content_and_signature", sub, flag, SubSeq(e, 1, k1 - 1), <<>>, 0)]])
(* the generic function with a content parser of the caller's that looks one byte ahead *)
PeekCases ==
  Concat([q \in 1..4 |->
    LET flag == <<0, 1, 0, 1>>[q]  sg == IF flag = 1 THEN SignedNew[(q % 4) + 1] ELSE SignedOld[(q % 2) + 1]
        e == <<40 + q>> \o EncSigned(sg) IN
    << [kind |-> "cas", fn |-> "parse_content_and_signature", sub |-> "peek", ext |-> flag, bytes |-> e \o Sfx[(q % 3) + 1],
        want |-> [content |-> [first |-> 40 + q, next |-> EncSigned(sg)[1]], sig |-> sg], extra |-> Len(Sfx[(q % 3) + 1])] >>
    \o [k1 \in 1..3 |-> Mk("cut", "parse_content_and_signature", "peek", flag, SubSeq(e, 1, k1 - 1), <<>>, 0)]])
(* ... and with a content parser of the caller's that BOUNDS itself to the ServerKeyExchange body (the first blen bytes): the signature *)
(* is read where that parser stopped, inside the body, whatever follows the body in the buffer (the next handshake message)           *)
BoundedCases ==
  Concat([q \in 1..8 |->
    LET flag == q % 2  sg == IF flag = 1 THEN SignedNew[(q % 4) + 1] ELSE SignedOld[(q % 2) + 1]
        v == EcdhVals[(q % Len(EcdhVals)) + 1]
        body == EncEcdhParams(v) \o EncSigned(sg)
        pad == << <<>>, <<9>> >>[((q \div 2) % 2) + 1]
        follow == << <<14, 0, 0, 0>>, <<4, 3, 0, 1, 7>>, <<0, 1, 7, 9>>, <<>> >>[(q % 4) + 1] IN
    << [kind |-> "bounded", fn |-> "parse_content_and_signature", sub |-> "bounded", ext |-> flag, blen |-> Len(body) + Len(pad),
        bytes |-> body \o pad \o follow, want |-> [content |-> v, sig |-> sg], extra |-> Len(pad) + Len(follow)] >>])
ASSUME TLCSet(1, LongTailCases \o PeekCases \o BoundedCases \o CasCutCases \o PairSweep \o EncCases(DhSignVals, EncDhParams, "parse_dh_params") \o AmbCases \o EncCases(DhVals, EncDhParams, "parse_dh_params") \o EncCases(PointVals, EncEcPoint, "ECPoint::parse")
                 \o EncCases(EcVals, EncEcParameters, "parse_ec_parameters") \o EncCases(EcdhVals, EncEcdhParams, "parse_ecdh_params")
                 \o EncCases(SignedNew, EncSigned, "parse_digitally_signed") \o EncCases(SignedOld, EncSigned, "parse_digitally_signed_old")
                 \o CutCases(DhVals, EncDhParams, "parse_dh_params") \o CutCases(EcVals, EncEcParameters, "parse_ec_parameters")
                 \o CutCases(EcdhVals, EncEcdhParams, "parse_ecdh_params") \o CutCases(SignedNew, EncSigned, "parse_digitally_signed")
                 \o CutCases(SignedOld, EncSigned, "parse_digitally_signed_old") \o CutCases(PointVals, EncEcPoint, "ECPoint::parse")
                 \o CurveTypeCases \o CurveLayoutCases \o CasCases)
Cases == TLCGet(1)
N == Len(Cases)
ArgsOf(c) == [NoArgs EXCEPT !.sub = c.sub, !.ext = c.ext, !.ct = IF c.kind = "curvesel" THEN c.ct ELSE 0, !.len = IF "blen" \in DOMAIN c THEN c.blen ELSE 0]

VARIABLES i, res, cres
Init == i = Chunk + 1 /\ i <= N /\ res = Apply(Cases[i].fn, ArgsOf(Cases[i]), Cases[i].bytes)
        /\ cres = C!Apply(Cases[i].fn, ArgsOf(Cases[i]), Cases[i].bytes)
Next == i + NChunks <= N /\ i' = i + NChunks /\ res' = Apply(Cases[i'].fn, ArgsOf(Cases[i']), Cases[i'].bytes)
        /\ cres' = C!Apply(Cases[i'].fn, ArgsOf(Cases[i']), Cases[i'].bytes)

-----------------------------------------------------------------------------
(* RoundTrip + SelfDelimiting: exact value, exact consumption, the suffix untouched and irrelevant *)
RoundTrip ==
  LET c == Cases[i] IN
  c.kind \in {"enc", "cas"} =>
    /\ cres.k = "ok" /\ cres.v = c.want /\ cres.p = Len(c.bytes) - c.extra
    /\ res = Apply(c.fn, ArgsOf(c), SubSeq(c.bytes, 1, Len(c.bytes) - c.extra))
(* a bounded content parser: value, signature and consumption are decided inside the body; what follows the body is irrelevant *)
BoundedRule ==
  LET c == Cases[i] IN
  c.kind = "bounded" =>
    /\ cres.k = "ok" /\ cres.v = c.want /\ cres.p = Len(c.bytes) - c.extra
    /\ res = Apply(c.fn, ArgsOf(c), SubSeq(c.bytes, 1, c.blen))
Truncated == Cases[i].kind = "cut" => res.k # "ok"
CurveTypeRule ==
  LET c == Cases[i] IN
  c.kind = "curvetype" => (res.k = "ok" <=> c.bytes[1] \in {1, 3}) /\ (c.bytes[1] \notin {1, 3} => res.e = "Switch")
CurveLayoutRule ==
  LET c == Cases[i] IN
  (c.kind = "curvelayout" /\ c.bytes[1] \notin {1, 3}) => (res.k \in {"err", "fail"} /\ res.e = "Switch")
  /\ ((c.kind = "curvesel" /\ c.ct \notin {1, 3}) => (res.k \in {"err", "fail"} /\ res.e = "Switch"))
(* SignatureFormIffFlag: under the other flag the same bytes are read in the other form *)
SignatureFormIffFlag ==
  LET c == Cases[i] IN
  /\ c.kind = "cas" => (cres.v.sig.alg # None) = (c.ext = 1)
  /\ (c.kind = "casflip" /\ cres.k = "ok") => (cres.v.sig.alg # None) = (c.ext = 1)

Pin ==
  LET c == Cases[i] IN
  IF c.kind \in {"enc", "cas", "bounded"} THEN "full"
  ELSE IF c.kind = "cut" THEN "novalue"
  ELSE IF c.kind \in {"curvetype", "curvelayout"} THEN (IF res.k = "ok" THEN "full" ELSE IF c.bytes[1] \notin {1, 3} THEN "err_kind" ELSE "novalue")
  ELSE IF c.kind = "curvesel" THEN (IF res.k = "ok" THEN "full" ELSE IF c.ct \notin {1, 3} THEN "err_kind" ELSE "novalue")
  ELSE (IF res.k = "ok" THEN "full" ELSE IF res.k \in {"err", "fail"} THEN "reject" ELSE "novalue")
EmitCase ==
  LET c == Cases[i] IN
  EmitLine(CaseLine(i, c.fn, ArgsOf(c), <<Lit(c.bytes)>>, res, Pin, [kind |-> c.kind, sub |-> c.sub, ext |-> c.ext]))
=============================================================================
