INIT Init
NEXT Next
CONSTANT RangeMode = TRUE
INVARIANT ListRoundTrip
INVARIANT SingleEntryExact
INVARIANT EntryBeyondList
INVARIANT ListBeyondInput
INVARIANT IdIs32
INVARIANT ManyEntries
INVARIANT SigLengthSweep
INVARIANT PairsAreOpaque
INVARIANT FieldsInOrder
INVARIANT LookAlikesAreOpaque
INVARIANT EmitCase
CHECK_DEADLOCK FALSE
