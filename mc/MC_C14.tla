------------------------------- MODULE MC_C14 -------------------------------
(***************************************************************************)
(* C14 - Signed Certificate Timestamp lists decode per RFC 6962.           *)
(***************************************************************************)
EXTENDS Calls, Emit

C == INSTANCE Calls WITH RangeMode <- FALSE

Id32(k) == Fill(k, 32)
Lens == <<<<>>, <<1>>, Fill(4, 255)>>
Sig(a, d) == [alg |-> Some([hash |-> a[1], sign |-> a[2]]), data |-> d]
Algs == <<<<4, 3>>, <<0, 0>>, <<255, 255>>>>
Tss == <<<<0, 0, 0, 0>>, <<0, 0, 0, 1>>, <<258, 772, 1286, 1800>>, <<65535, 65535, 65535, 65535>>>>
Vers == <<0, 1, 255>>
IxS == SetToSeq({<<v, t, e, s>> : v \in 1..3, t \in 1..4, e \in 1..3, s \in 1..3})
MkSct(ix) == [ver |-> Vers[ix[1]], id |-> Id32(ix[2] + ix[3]), ts |-> Tss[ix[2]], ext |-> Lens[ix[3]],
              sig |-> Sig(Algs[ix[1]], Lens[ix[4]])]
ASSUME TLCSet(2, [j \in 1..Len(IxS) |-> MkSct(IxS[j])]
                 \o << [ver |-> 0, id |-> Id32(9), ts |-> Tss[3], ext |-> Fill(1, 30000), sig |-> Sig(<<4, 1>>, Fill(2, 30000))] >>)
Scts == TLCGet(2)
NS == Len(Scts)

Sfx == << <<>>, <<0>>, <<0, 47, 0>> >>
Mk(kind, fn, bytes, want, extra) == [kind |-> kind, fn |-> fn, bytes |-> bytes, want |-> want, extra |-> extra]
ListFn == "parse_ct_signed_certificate_timestamp_list"
OneFn == "parse_ct_signed_certificate_timestamp"

(* the single-SCT parser consumes exactly one length-prefixed entry *)
SingleCases ==
  Concat([j \in 1..NS |-> [s \in 1..3 |-> Mk("single", OneFn, EncSct(Scts[j]) \o Sfx[s], <<j>>, Len(Sfx[s]))]])
(* lists of 0..3 SCTs *)
ListIdx == << <<>>, <<1>>, <<NS>>, <<2, 3>>, <<5, 5>>, <<7, 40, 90>>, <<108, 1, 55>>, <<NS, 2>> >>
          \o [j \in 1..36 |-> <<3 * j>>] \o [j \in 1..20 |-> <<5 * j, 5 * j + 1>>]
          \o (IF Thorough THEN [j \in 1..(NS - 3) |-> <<j, j + 1, j + 2, j + 3>>] \o [j \in 1..(NS - 1) |-> <<j + 1, j>>]
                               \o [j \in 1..50 |-> [h \in 1..((j % 7) + 2) |-> ((j * h * 13) % NS) + 1]]
               ELSE <<>>)
ListCases ==
  Concat([q \in 1..Len(ListIdx) |->
    [s \in 1..2 |-> Mk("list", ListFn, EncSctList([h \in 1..Len(ListIdx[q]) |-> Scts[ListIdx[q][h]]]) \o Sfx[s],
                       ListIdx[q], Len(Sfx[s]))]])
(* an entry whose declared length exceeds the enclosing list: that entry and everything after yield no SCT *)
BeyondEntryCases ==
  Concat([q \in 1..6 |->
    LET good == EncSct(Scts[q])  bad == EncSct(Scts[q + 1])
        lie(e, dlt) == BE16(e[1] * 256 + e[2] + dlt) \o SubSeq(e, 3, Len(e))
        body1 == good \o lie(bad, 1)  body2 == lie(bad, 60000) \o good  body3 == good \o good \o lie(bad, 7) IN
    << Mk("beyondentry", ListFn, BE16(Len(body1)) \o body1, <<q>>, 0),
       Mk("beyondentry", ListFn, BE16(Len(body2)) \o body2, <<>>, 0),
       Mk("beyondentry", ListFn, BE16(Len(body3)) \o body3, <<q, q>>, 0),
       Mk("beyondentry", ListFn, BE16(Len(body1)) \o body1 \o <<7>> \o good, <<q>>, 0),
       Mk("beyondentry", ListFn, BE16(Len(body2)) \o body2 \o Fill(q, 60100), <<>>, 0),
       Mk("beyondentry", ListFn, BE16(Len(body3)) \o body3 \o <<1, 2, 3, 4, 5, 6, 7, 8, 9>>, <<q, q>>, 0) >>])
(* a list whose declared length exceeds the input *)
BeyondListCases ==
  Concat([q \in 1..6 |->
    LET body == EncSct(Scts[q]) IN
    [dlt \in 1..3 |-> Mk("beyondlist", ListFn, BE16(Len(body) + <<1, 2, 1000>>[dlt]) \o body, <<>>, 0)]])
(* truncations of a two-entry list and of a single entry *)
CutCases ==
  LET e == EncSctList(<<Scts[1], Scts[2]>>)  o == EncSct(Scts[4]) IN
  [k1 \in 1..Len(e) |-> Mk("cut", ListFn, SubSeq(e, 1, k1 - 1), <<>>, 0)]
  \o [k1 \in 1..Len(o) |-> Mk("cut", OneFn, SubSeq(o, 1, k1 - 1), <<>>, 0)]
(* an entry shorter than its content (inner truncation) and an entry with trailing bytes inside it *)
InnerCases ==
  LET e == EncSct(Scts[2]) c == SubSeq(e, 3, Len(e)) IN
  << Mk("inner", OneFn, BE16(Len(c) - 1) \o SubSeq(c, 1, Len(c) - 1), <<>>, 0),
     Mk("innerpad", OneFn, BE16(Len(c) + 2) \o c \o <<9, 9>>, <<2>>, 0),
     Mk("inner", OneFn, BE16(10) \o SubSeq(c, 1, 10), <<>>, 0) >>

(* many minimal entries (the count is extreme, every length field is 0) *)
MinSct(k) == [ver |-> 0, id |-> Id32(k % 7), ts |-> Tss[(k % 4) + 1], ext |-> <<>>, sig |-> Sig(Algs[(k % 3) + 1], IF k % 11 = 0 THEN <<k % 256>> ELSE <<>>)]
ManyCases == [q \in 1..4 |->
  LET n == <<49, 50, 60, 1300>>[q]  l == [k \in 1..n |-> MinSct(k)] IN
  [kind |-> "many", fn |-> ListFn, bytes |-> EncSctList(l), want |-> <<n>>, extra |-> 0]]
(* signature length swept through the bands where a length could be mistaken for an algorithm pair *)
SigLens == IF Thorough THEN 0..1100 ELSE (0..40) \cup (250..262) \cup (506..520) \cup (1018..1032)
SigPairs == <<<<4, 3>>, <<4, 1>>, <<2, 2>>, <<0, 2>>, <<1, 0>>>>
SigSweep == LET ls == SetToSeq(SigLens) IN
  Concat([p \in 1..Len(SigPairs) |->
    [q \in 1..Len(ls) |->
      LET s == [ver |-> 0, id |-> Id32(3), ts |-> Tss[3], ext |-> <<>>, sig |-> Sig(SigPairs[p], Fill(p, ls[q]))] IN
      [kind |-> "sigsweep", fn |-> OneFn, bytes |-> EncSct(s) \o <<7>>, want |-> <<p, ls[q]>>, extra |-> 1]]])
(* lists and single entries followed by 2^16 - 1 .. 2^17 - 1 more bytes *)
LongTailCases ==
  Concat([t \in 1..Len(LongTails) |->
    << Mk("list", ListFn, EncSctList(<<Scts[2], Scts[3]>>) \o [j \in 1..LongTails[t] |-> 171], <<2, 3>>, LongTails[t]),
       Mk("single", OneFn, EncSct(Scts[5]) \o [j \in 1..LongTails[t] |-> 171], <<5>>, LongTails[t]),
       Mk("list", ListFn, EncSctList(<<Scts[NS]>>) \o [j \in 1..LongTails[t] |-> 171], <<NS>>, LongTails[t]) >>])
(* the (hash, signature) pair of an SCT's signature is two opaque numbers: hash 8 x every signature byte, a stride over *)
(* the rest, with signature lengths 0, 64, 114 and 3                                                                    *)
PairSweep ==
  Concat([q \in 1..512 |->
    LET x == IF q <= 256 THEN 2048 + (q - 1) ELSE ((q * 251) % 65536)
        sct(n) == [ver |-> 0, id |-> Id32(1), ts |-> Tss[2], ext |-> <<>>, sig |-> Sig(<<x \div 256, x % 256>>, Fill(q, n))] IN
    << [kind |-> "pair", fn |-> OneFn, bytes |-> EncSct(sct(<<0, 64, 114, 3>>[(q % 4) + 1])), want |-> <<x, <<0, 64, 114, 3>>[(q % 4) + 1]>>, extra |-> 0],
       [kind |-> "pair", fn |-> ListFn, bytes |-> EncSctList(<<sct(3), Scts[2]>>), want |-> <<x, 3>>, extra |-> 0] >>])
(* a list of the maximum size (length field 65535) whose single entry fills it exactly; the same with that entry declaring *)
(* one and two bytes more than the list holds                                                                           *)
MaxSct == [ver |-> 0, id |-> Id32(4), ts |-> Tss[3], ext |-> Fill(1, 30000), sig |-> Sig(<<4, 3>>, Fill(2, 35486))]
MaxCases ==
  LET e == EncSct(MaxSct)  c == SubSeq(e, 3, Len(e)) IN
  << Mk("list", ListFn, BE16(65535) \o e, <<0>>, 0),
     Mk("beyondentry", ListFn, BE16(65535) \o BE16(65534) \o c, <<>>, 0),
     Mk("beyondentry", ListFn, BE16(65535) \o BE16(65535) \o c, <<>>, 0),
     Mk("beyondentry", ListFn, BE16(65535) \o BE16(65535) \o c \o <<1, 2, 3>>, <<>>, 0) >>
GridIdx == SetToSeq({<<e1, h, sg, n>> : e1 \in 0..4, h \in {0, 4}, sg \in {0, 1, 2, 3, 4, 5, 6, 9}, n \in {0, 1, 2, 3, 4, 5, 6, 7, 254, 255, 256, 257, 258}})
GridCases ==
  [q \in 1..Len(GridIdx) |->
    LET ix == GridIdx[q]
        s == [ver |-> 0, id |-> Id32(2), ts |-> Tss[2], ext |-> SubSeq(<<0, 0, 1, 0>>, 1, ix[1]), sig |-> Sig(<<ix[2], ix[3]>>, Fill(q, ix[4]))] IN
    [kind |-> "grid", fn |-> IF q % 2 = 0 THEN OneFn ELSE ListFn,
     bytes |-> IF q % 2 = 0 THEN EncSct(s) ELSE EncSctList(<<s>>), want |-> <<q>>, extra |-> 0]]
GridSct(q) == LET ix == GridIdx[q] IN
  [ver |-> 0, id |-> Id32(2), ts |-> Tss[2], ext |-> SubSeq(<<0, 0, 1, 0>>, 1, ix[1]), sig |-> Sig(<<ix[2], ix[3]>>, Fill(q, ix[4]))]
ShortDeclCases ==
  LET m == EncSct([ver |-> 0, id |-> Id32(1), ts |-> Tss[2], ext |-> <<>>, sig |-> Sig(<<4, 3>>, <<>>)])     \* 2 + 47 bytes
      c == SubSeq(m, 3, Len(m))  other == EncSct(Scts[2]) IN
  Concat([d \in 1..5 |->
    LET decl == <<0, 1, 10, 45, 46>>[d]  body == BE16(decl) \o c \o other IN
    << Mk("beyondentry", ListFn, BE16(Len(body)) \o body, <<>>, 0),
       Mk("inner", OneFn, BE16(decl) \o c \o other, <<>>, 0) >>])
(* opaque fields (extensions, signature bytes) that contain well-formed framed SCTs, in lists whose entry sizes are S, S - 45, S + 45 *)
(* (S - 45 = a minimal entry): a decoder walking the list by anything but the entries' own length fields lands inside the third    *)
(* entry exactly on the look-alike                                                                                                *)
Mini(k) == [ver |-> 0, id |-> Id32(k), ts |-> Tss[(k % 4) + 1], ext |-> <<>>, sig |-> Sig(<<4, 3>>, <<>>)]       \* 47 + 2 bytes framed
LookAlike(k, q) ==
  LET e1 == [ver |-> 0, id |-> Id32(k + 1), ts |-> Tss[2], ext |-> IF q = 1 THEN Fill(k, 45) ELSE <<>>, sig |-> Sig(<<4, 1>>, IF q = 1 THEN <<>> ELSE Fill(k, 45))]
      e2 == Mini(k + 2)
      e3 == [ver |-> 1, id |-> Id32(k + 3), ts |-> Tss[3], ext |-> EncSct(Mini(k + 4)) \o Fill(k + 5, 41), sig |-> Sig(<<2, 2>>, <<>>)] IN
  <<e1, e2, e3>>
LookAlikeCases ==
  Concat([k \in 1..3 |-> Concat([q \in 1..2 |->
    LET l == LookAlike(k, q) IN
    << [kind |-> "lookalike", fn |-> ListFn, bytes |-> EncSctList(l), want |-> <<k, q>>, extra |-> 0],
       [kind |-> "lookalike", fn |-> ListFn, bytes |-> EncSctList(<<l[2], l[3], l[1], l[3]>>) \o <<9>>, want |-> <<k, q + 2>>, extra |-> 1] >>])])
ASSUME TLCSet(1, LongTailCases \o LookAlikeCases \o ShortDeclCases \o GridCases \o MaxCases \o PairSweep \o ManyCases \o SigSweep \o SingleCases \o ListCases \o BeyondEntryCases \o BeyondListCases \o CutCases \o InnerCases)
Cases == TLCGet(1)
N == Len(Cases)

VARIABLES i, res, cres
Init == i = Chunk + 1 /\ i <= N /\ res = Apply(Cases[i].fn, NoArgs, Cases[i].bytes)
        /\ cres = C!Apply(Cases[i].fn, NoArgs, Cases[i].bytes)
Next == i + NChunks <= N /\ i' = i + NChunks /\ res' = Apply(Cases[i'].fn, NoArgs, Cases[i'].bytes)
        /\ cres' = C!Apply(Cases[i'].fn, NoArgs, Cases[i'].bytes)

WantList(c) == [h \in 1..Len(c.want) |-> IF c.want[h] = 0 THEN MaxSct ELSE Scts[c.want[h]]]
-----------------------------------------------------------------------------
ListRoundTrip ==
  LET c == Cases[i] IN
  c.kind = "list" => /\ cres.k = "ok" /\ cres.v = WantList(c) /\ cres.p = Len(c.bytes) - c.extra
                     /\ res = Apply(c.fn, NoArgs, SubSeq(c.bytes, 1, Len(c.bytes) - c.extra))
SingleEntryExact ==
  LET c == Cases[i] IN
  c.kind \in {"single", "innerpad"} => /\ cres.k = "ok" /\ cres.v = Scts[c.want[1]] /\ cres.p = Len(c.bytes) - c.extra
(* never an SCT from an entry reaching beyond the list: the valid prefix at most *)
EntryBeyondList ==
  LET c == Cases[i] IN
  c.kind = "beyondentry" => (cres.k = "ok" => cres.v = WantList(c))
ManyEntries ==
  LET c == Cases[i] IN
  c.kind = "many" => (cres.k = "ok" /\ Len(cres.v) = c.want[1] /\ cres.p = Len(c.bytes)
                      /\ \A k \in 1..c.want[1] : cres.v[k] = MinSct(k))
SigLengthSweep ==
  LET c == Cases[i] IN
  c.kind = "sigsweep" => (cres.k = "ok" /\ cres.p = Len(c.bytes) - 1 /\ Len(cres.v.sig.data) = c.want[2]
                          /\ cres.v.sig.alg = Some([hash |-> SigPairs[c.want[1]][1], sign |-> SigPairs[c.want[1]][2]]))
LookAlikesAreOpaque ==
  LET c == Cases[i] IN
  c.kind = "lookalike" =>
    LET l == LookAlike(c.want[1], IF c.want[2] > 2 THEN c.want[2] - 2 ELSE c.want[2])
        want == IF c.want[2] > 2 THEN <<l[2], l[3], l[1], l[3]>> ELSE l IN
    cres.k = "ok" /\ cres.v = want /\ cres.p = Len(c.bytes) - c.extra
FieldsInOrder ==
  LET c == Cases[i] IN
  c.kind = "grid" => (cres.k = "ok" /\ cres.p = Len(c.bytes) /\ (IF c.fn = OneFn THEN cres.v ELSE cres.v[1]) = GridSct(c.want[1]))
PairsAreOpaque ==
  LET c == Cases[i] IN
  c.kind = "pair" =>
    LET s1 == IF c.fn = OneFn THEN cres.v ELSE cres.v[1] IN
    /\ cres.k = "ok" /\ cres.p = Len(c.bytes) /\ (c.fn = ListFn => Len(cres.v) = 2)
    /\ s1.sig.alg = Some([hash |-> c.want[1] \div 256, sign |-> c.want[1] % 256]) /\ Len(s1.sig.data) = c.want[2]
ListBeyondInput == Cases[i].kind \in {"beyondlist", "cut", "inner"} => res.k # "ok"
(* the 32-byte log id is a range of exactly 32 bytes *)
IdIs32 == (Cases[i].kind = "single" /\ res.k = "ok") => res.v.id.l = 32

Pin ==
  LET c == Cases[i] IN
  IF c.kind \in {"list", "single", "innerpad", "many", "sigsweep", "pair", "grid", "lookalike"} THEN "full"
  ELSE IF c.kind = "beyondentry" THEN "prefix_or_err"
  ELSE "novalue"
EmitCase ==
  LET c == Cases[i] IN EmitLine(CaseLine(i, c.fn, NoArgs, <<Lit(c.bytes)>>, res, Pin, [kind |-> c.kind]))
=============================================================================
