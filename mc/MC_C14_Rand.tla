----------------------------- MODULE MC_C14_Rand -----------------------------
(***************************************************************************)
(* Seeded, structurally random SCT lists: 0..12 entries, every numeric     *)
(* field from its whole domain, extension and signature sizes arbitrary    *)
(* (incl. contents that look like SCTs or lengths), through the list       *)
(* parser and, entry by entry, the single-SCT parser.  RandRoundTrip on    *)
(* the specification; replayed and compared in full.                       *)
(***************************************************************************)
EXTENDS Calls, Emit
C == INSTANCE Calls WITH RangeMode <- FALSE
Seed == IF "VERIF_SEED" \in DOMAIN IOEnv THEN atoi(IOEnv.VERIF_SEED) ELSE 1
N == IF Thorough THEN 12000 ELSE 1200
H(s, k) == ((((s % 30011) * 211 + (k % 5000) * 7919 + 13) % 65521) * 31 + (s \div 30011) * 17 + (k \div 5000)) % 65521
Bs(s, k, n) == [j \in 1..n |-> H(s, k + 3 * j) % 256]
W16(s, k) == (H(s, k) * 7 + H(s, k + 1)) % 65536
Size(s, k) == LET r == H(s, k) % 16 IN IF r < 8 THEN H(s, k + 1) % 4 ELSE IF r < 13 THEN H(s, k + 1) % 80 ELSE IF r < 15 THEN H(s, k + 1) % 600 ELSE H(s, k + 1) % 4000
GenSct(s) == [ver |-> H(s, 1) % 256, id |-> Bs(s, 2, 32), ts |-> <<W16(s, 3), W16(s, 5), W16(s, 7), W16(s, 9)>>, ext |-> Bs(s, 11, Size(s, 12)),
              sig |-> [alg |-> Some([hash |-> H(s, 14) % 256, sign |-> H(s, 15) % 256]), data |-> Bs(s, 16, Size(s, 17))]]
Base(c) == (Seed % 1000) * 100003 + c
ListOf(c) == [j \in 1..(H(Base(c), 3) % 13) |-> GenSct(Base(c) + 7 * j)]
IsList(c) == c % 2 = 0
Sfx(c) == <<<<>>, <<0>>, <<0, 47, 0>>, <<0, 0>>>>[(H(c, 5) % 4) + 1]
BytesOf(c) == (IF IsList(c) THEN EncSctList(ListOf(c)) ELSE EncSct(GenSct(Base(c)))) \o Sfx(c)
FnOf(c) == IF IsList(c) THEN "parse_ct_signed_certificate_timestamp_list" ELSE "parse_ct_signed_certificate_timestamp"
VARIABLES i, res
Init == i = Chunk + 1 /\ i <= N /\ res = Apply(FnOf(i), NoArgs, BytesOf(i))
Next == i + NChunks <= N /\ i' = i + NChunks /\ res' = Apply(FnOf(i'), NoArgs, BytesOf(i'))
RandRoundTrip ==
  LET r == C!Apply(FnOf(i), NoArgs, BytesOf(i))  n == Len(BytesOf(i)) - Len(Sfx(i)) IN
  /\ r.k = "ok" /\ r.p = n /\ res.k = "ok" /\ res.p = n
  /\ r.v = (IF IsList(i) THEN ListOf(i) ELSE GenSct(Base(i)))
  /\ res = Apply(FnOf(i), NoArgs, SubSeq(BytesOf(i), 1, n))
EmitCase == EmitLine(CaseLine(i, FnOf(i), NoArgs, <<Lit(BytesOf(i))>>, res, "full", [kind |-> "rand", t |-> IF IsList(i) THEN "list" ELSE "single"]))
=============================================================================
