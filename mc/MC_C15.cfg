INIT Init
NEXT Next
INVARIANT Partition
INVARIANT LookupOrder
INVARIANT EmitCase
CHECK_DEADLOCK FALSE
