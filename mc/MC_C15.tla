------------------------------- MODULE MC_C15 -------------------------------
(***************************************************************************)
(* C15 - hello accessors and constructors reflect the parsed fields.        *)
(***************************************************************************)
EXTENDS Hello, Bytes, Json, IOUtils

EmitLine(rec) ==
  Serialize(ToJson(rec) \o "\n", IOEnv.VERIF_OUT,
            [format |-> "TXT", charset |-> "UTF-8", openOptions |-> <<"WRITE", "CREATE", "APPEND">>]).exitValue = 0

Words == <<<<0, 0, 0, 0>>, <<0, 0, 0, 1>>, <<1, 2, 3, 4>>, <<127, 255, 255, 255>>, <<128, 0, 0, 0>>, <<255, 255, 255, 255>>, <<90, 171, 205, 239>>>>
         \o (IF IOEnv.VERIF_TIER = "thorough" THEN [k \in 1..60 |-> <<(k * 37) % 256, (k * 101) % 256, (k * 13 + 5) % 256, (k * 211) % 256>>] ELSE <<>>)
Rand(w, n) == IF n <= 4 THEN SubSeq(Words[w], 1, n) ELSE Words[w] \o Fill(w, n - 4)
Lens == <<0, 3, 4, 5, 27, 28, 29, 31, 32, 33>>      \* (28 = the length of random_bytes alone: a slice is never "already split")
        \o (IF IOEnv.VERIF_TIER = "thorough" THEN <<1, 2, 6, 7, 8, 16, 24, 30, 34, 36, 48, 64, 255, 256, 1000>> ELSE <<>>)
None == <<>>
Some(x) == <<x>>
Sids == <<None, Some(<<7>>), Some(Fill(3, 32))>>
LongSids == <<Some(Fill(4, 33)), Some(Fill(5, 255)), Some(Fill(6, 1000)), Some(<<>>)>>       \* only constructed values can carry these
MeaningExts == <<Some(<<0, 43, 0, 2, 3, 4>>), Some(<<0, 43, 0, 2, 3, 3>>), Some(<<0, 43, 0, 3, 2, 3, 4>>), Some(<<0, 35, 0, 2, 1, 2, 0, 43, 0, 2, 127, 18>>),
                 Some(<<0, 0, 0, 0, 0, 43, 0, 2, 3, 1>>)>>
CiphLists == <<<<>>, <<47>>, <<4865, 4866, 2570, 49199, 65535, 255, 0, 1, 49200, 22016, 13, 14>>, <<19, 19, 20>>>>
Exts == <<None, Some(<<>>), Some(<<0, 23, 0, 0>>)>>
Comps == <<<<>>, <<0>>, <<1, 0, 255>>>>

(* constructed values: every random length x leading word *)
NewCases ==
  Concat([w \in 1..Len(Words) |->
    [l \in 1..Len(Lens) |->
      LET r == Rand(w, Lens[l])  k == w + l IN
      [kind |-> IF k % 2 = 0 THEN "new_client_hello" ELSE "new_server_hello",
       ver |-> <<768, 771, 65277, 4660>>[(k % 4) + 1], random |-> r, sid |-> Sids[(k % 3) + 1],
       ciphers |-> IF k % 2 = 0 THEN CiphLists[(k % 4) + 1] ELSE <<CiphLists[3][(k % 12) + 1]>>,
       comp |-> IF k % 2 = 0 THEN Comps[(k % 3) + 1] ELSE <<<<0, 1, 255>>[(k % 3) + 1]>>, ext |-> Exts[(k % 3) + 1]]]])
(* parsed values: the RFC encoding of a TLS / DTLS ClientHello or a ServerHello with a 32-byte random *)
ParsedCases ==
  Concat([w \in 1..Len(Words) |->
    [q \in 1..6 |->
      LET r == Rand(w, 32) IN
      [kind |-> <<"parsed_client_hello", "parsed_dtls_client_hello", "parsed_server_hello">>[(q % 3) + 1],
       ver |-> <<771, 65277, 769>>[(q % 3) + 1], random |-> r, sid |-> Sids[((w + q) % 3) + 1],
       ciphers |-> IF q % 3 = 2 THEN <<CiphLists[3][((w + q) % 12) + 1]>> ELSE CiphLists[((w + q) % 4) + 1],
       comp |-> IF q % 3 = 2 THEN <<(w * q) % 256>> ELSE Comps[((w + q) % 3) + 1], ext |-> Exts[((w + q) % 3) + 1]]]])
(* every 16-bit id through the accessors' lookup: two constructed hellos advertising all 65536 ids, and a ServerHello per listed id *)
AllIdCases ==
  [h \in 1..2 |-> [kind |-> "new_client_hello", ver |-> 771, random |-> Rand(3, 32), sid |-> None,
                    ciphers |-> [j \in 1..32768 |-> (h - 1) * 32768 + j - 1], comp |-> <<0>>, ext |-> None]]
ListedIds == {k \in 0..65535 : Hex4(k) \in Listed}
ListedSeq == SetToSeq(ListedIds \cup {k + 1 : k \in ListedIds} \cup {65535})
ServerIdCases ==
  [q \in 1..Len(ListedSeq) |-> [kind |-> "new_server_hello", ver |-> 771, random |-> Rand(2, 32), sid |-> None,
                                 ciphers |-> <<ListedSeq[q] % 65536>>, comp |-> <<0>>, ext |-> None]]
(* ... and the same whatever the hello type: every listed id (and its neighbour) in one list, through the TLS and DTLS hellos, built and parsed; *)
(* all 65536 ids through a directly built DTLS hello                                                                                           *)
AllListedCases ==
  [q \in 1..4 |-> [kind |-> <<"new_dtls_client_hello", "parsed_dtls_client_hello", "parsed_client_hello", "new_client_hello">>[q],
                    ver |-> <<65277, 65277, 771, 771>>[q], random |-> Rand(4, 32), sid |-> None, ciphers |-> ListedSeq, comp |-> <<0>>, ext |-> None]]
  \o [h \in 1..2 |-> [kind |-> "new_dtls_client_hello", ver |-> 65277, random |-> Rand(3, 32), sid |-> None,
                        ciphers |-> [j \in 1..32768 |-> (h - 1) * 32768 + j - 1], comp |-> <<0>>, ext |-> None]]
(* the lookup is per element: every list of length <= 4 over {two listed ids, a GREASE id, an unlisted id} - repeats, *)
(* alternations and unlisted ids between listed ones                                                                  *)
PatIds == <<47, 4865, 2570, 65535, 0>>      \* two listed ids, GREASE, unlisted, and id 0 (listed: TLS_NULL_WITH_NULL_NULL - also every integer type's default)
Thorough == IOEnv.VERIF_TIER = "thorough"
PatIdx == SetToSeq(UNION {[1..n -> 1..5] : n \in 1..(IF Thorough THEN 6 ELSE 4)})
PatternCases ==
  [q \in 1..Len(PatIdx) |->
    [kind |-> <<"new_client_hello", "parsed_client_hello", "parsed_dtls_client_hello">>[(q % 3) + 1],
     ver |-> <<771, 771, 65277>>[(q % 3) + 1], random |-> Rand(1, 32), sid |-> None,
     ciphers |-> [j \in 1..Len(PatIdx[q]) |-> PatIds[PatIdx[q][j]]], comp |-> <<0>>, ext |-> None]]
(* randoms to which RFC 8446 attaches a meaning: the accessors still report the stored fields *)
MagicRands == <<HrrRandom, Fill(1, 24) \o Downgrade12, Fill(2, 24) \o Downgrade11>>
MagicCases ==
  Concat([r \in 1..3 |->
    [q \in 1..5 |->
      [kind |-> <<"new_server_hello", "parsed_server_hello", "new_client_hello", "parsed_client_hello", "parsed_dtls_client_hello">>[q],
       ver |-> <<771, 771, 769, 772, 65277>>[q], random |-> MagicRands[r], sid |-> Sids[r],
       ciphers |-> IF q <= 2 THEN <<4865>> ELSE <<4865, 47>>, comp |-> <<0>>, ext |-> Exts[r]]]])
(* constructors store what they are given: session ids of any length; accessors ignore what the extension block says *)
StoredCases ==
  Concat([x \in 1..5 |->
    [q \in 1..6 |->
      [kind |-> <<"new_server_hello", "parsed_server_hello", "new_client_hello", "parsed_client_hello", "parsed_dtls_client_hello", "new_server_hello">>[q],
       ver |-> <<771, 770, 769, 771, 65277, 65277>>[q], random |-> Rand(2, 32), sid |-> IF q \in {1, 3, 6} THEN LongSids[((x + q) % 4) + 1] ELSE Sids[(x % 3) + 1],
       ciphers |-> IF q \in {1, 2, 6} THEN <<47>> ELSE <<47, 4865>>, comp |-> <<0>>, ext |-> MeaningExts[x]]]])
(* DTLS ClientHello values built directly (random of any length: the accessors are total) *)
DtlsNewCases ==
  Concat([w \in 1..Len(Words) |->
    [l \in 1..Len(Lens) |->
      [kind |-> "new_dtls_client_hello", ver |-> 65277, random |-> Rand(w, Lens[l]), sid |-> Sids[((w + l) % 3) + 1],
       ciphers |-> CiphLists[((w + l) % 4) + 1], comp |-> Comps[((w + l) % 3) + 1], ext |-> Exts[((w + l) % 3) + 1]]]])
  \o [k \in 1..6 |-> [kind |-> "new_dtls_client_hello", ver |-> 65279, random |-> <<<<156>>, <<156, 156>>, <<1, 2, 3>>, <<0, 0, 1>>, <<255>>, <<128, 0, 0>>>>[k],
                       sid |-> None, ciphers |-> <<47>>, comp |-> <<0>>, ext |-> None]]
ASSUME TLCSet(1, NewCases \o ParsedCases \o AllIdCases \o AllListedCases \o ServerIdCases \o PatternCases \o MagicCases \o StoredCases \o DtlsNewCases)
Cases == TLCGet(1)
N == Len(Cases)

VARIABLE i
Init == i = 1
Next == i < N /\ i' = i + 1

Partition == RandomPartition(Cases[i].random)
LookupOrder == LET c == Cases[i] IN Len(CipherSuites(c.ciphers)) = Len(c.ciphers)
EmitCase ==
  LET c == Cases[i] IN
  EmitLine([id |-> i, kind |-> c.kind, ver |-> c.ver, random |-> c.random, sid |-> c.sid, ciphers |-> c.ciphers, comp |-> c.comp, ext |-> c.ext,
            expect |-> Accessors(c.ver, c.random, c.sid, c.ciphers, c.comp, c.ext)])
=============================================================================
