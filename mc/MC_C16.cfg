INIT Init
NEXT Next
CONSTANT RangeMode = TRUE
INVARIANT EqualsIteration
INVARIANT TlsParserAlias
INVARIANT EmitCase
CHECK_DEADLOCK FALSE
