------------------------------- MODULE MC_C16 -------------------------------
(***************************************************************************)
(* C16 - multi-record parsers equal repeated single-record parsing.        *)
(***************************************************************************)
EXTENDS Calls, Emit

TlsPool == << EncRecordRaw(22, 771, <<14, 0, 0, 0>>), EncRecordRaw(20, 771, <<1>>), EncRecordRaw(21, 769, <<2, 40>>),
              EncRecordRaw(23, 771, <<1, 2, 3>>), EncRecordRaw(24, 771, <<1, 0, 1, 9, 0, 0>>),
              EncRecordRaw(22, 771, <<0, 0, 0, 0, 20, 0, 0, 1, 7>>), EncRecordRaw(23, 771, <<>>),
              (* the record parser does not look at the version: any value is a record *)
              EncRecordRaw(23, 512, <<4, 5>>), EncRecordRaw(22, 65277, <<14, 0, 0, 0>>), EncRecordRaw(21, 0, <<1, 0>>),
              (* valid messages followed by bytes that are not a message: the single-record parser returns the messages *)
              EncRecordRaw(20, 771, <<1, 0>>), EncRecordRaw(21, 771, <<1, 0, 2>>), EncRecordRaw(22, 771, <<14, 0, 0, 0, 9>>) >>
TlsTails == << <<>>, SubSeq(TlsPool[1], 1, 7), <<22, 3, 3>>, <<22, 3, 3, 65, 1>>, <<1, 2, 3>>,
               EncRecordRaw(22, 771, <<99, 0, 0, 0>>), EncRecordRaw(21, 771, <<>>), EncRecordRaw(7, 771, <<1>>),
               <<0>>, <<0, 0>>, <<0, 0, 0, 0>> >>                      \* (link-layer padding after the last record is not a record either)
DtlsPool == << EncDtlsRecord(22, 65277, 0, <<0, 0, 1>>, EncDtlsHs(14, 0, 1, 0, 0, <<>>)),
               EncDtlsRecord(20, 65277, 0, <<0, 0, 2>>, <<1>>), EncDtlsRecord(21, 65277, 1, <<0, 0, 0>>, <<2, 40>>),
               EncDtlsRecord(22, 65277, 1, <<0, 0, 1>>, EncDtlsHs(11, 300, 2, 100, 3, <<7, 8, 9>>)),
               EncDtlsRecord(20, 65277, 4660, <<0, 0, 0>>, <<1>>), EncDtlsRecord(21, 65277, 258, <<43981, 1, 2>>, <<1, 0>>),
               EncDtlsRecord(21, 65277, 65535, <<65535, 65535, 65535>>, <<2, 40>>) >>
DtlsTails == << <<>>, SubSeq(DtlsPool[1], 1, 17), <<22, 254, 253, 0, 0, 0, 0, 0, 0, 0, 0, 65, 1>>, <<1, 2, 3>>,
                EncDtlsRecord(23, 65277, 0, <<0, 0, 3>>, <<1>>), EncDtlsRecord(22, 65277, 0, <<0, 0, 3>>, <<>>),
                <<0>>, <<0, 0>>, <<0, 0, 0, 0>> >>

Mk(fn, single, bytes) == [fn |-> fn, single |-> single, bytes |-> bytes]
BigTls == << EncRecordRaw(23, 771, Fill(1, 16385)), EncRecordRaw(23, 771, Fill(2, 16640)), EncRecordRaw(22, 771, <<20>> \o BE24(16380) \o Fill(3, 16380)) >>
BigDtls == << EncDtlsRecord(22, 65277, 0, <<0, 0, 7>>, EncDtlsHs(11, 40000, 1, 0, 16373, Fill(4, 16373))),
              EncDtlsRecord(22, 65277, 0, <<0, 0, 8>>, EncDtlsHs(11, 40000, 1, 16373, 16628, Fill(5, 16628))),
              EncDtlsRecord(20, 65277, 0, <<0, 0, 9>>, [j \in 1..16640 |-> 1]) >>
BigCases(pool, big, fn, single) ==
  Concat([b \in 1..Len(big) |-> << Mk(fn, single, pool[1] \o big[b]), Mk(fn, single, big[b] \o pool[2]),
                                     Mk(fn, single, pool[1] \o big[b] \o pool[3]), Mk(fn, single, pool[2] \o pool[1] \o big[b]) >>])
(* a complete record that fails to parse, with valid records AFTER it: parsing stops there and does not resume *)
MidCases(pool, fails, fn, single) ==
  Concat([f \in 1..Len(fails) |->
    << Mk(fn, single, pool[1] \o fails[f] \o pool[2]), Mk(fn, single, fails[f] \o pool[1]),
       Mk(fn, single, pool[2] \o pool[1] \o fails[f] \o fails[f] \o pool[3]), Mk(fn, single, pool[3] \o fails[f] \o pool[3] \o fails[f]) >>])
BadSidCh == <<1, 0, 0, 74, 3, 3>> \o Fill(5, 32) \o <<33>> \o Fill(6, 33) \o <<0, 2, 0, 47, 1, 0>>       \* ClientHello, session id of 33 bytes
TlsFails == << EncRecordRaw(22, 771, BadSidCh), EncRecordRaw(23, 771, Fill(1, 16641)),                  \* ... and an oversized record with its whole body
               EncRecordRaw(22, 771, <<99, 0, 0, 0>>), EncRecordRaw(21, 771, <<>>), EncRecordRaw(7, 771, <<1>>), EncRecordRaw(24, 771, <<1, 0, 9, 1>>),
               EncRecordRaw(20, 771, <<2>>) >>
BadSidDch == <<254, 253>> \o Fill(5, 32) \o <<33>> \o Fill(6, 33) \o <<0, 0, 2, 0, 47, 1, 0>>
DtlsFails == << EncDtlsRecord(22, 65277, 0, <<0, 0, 9>>, EncDtlsHs(1, Len(BadSidDch), 0, 0, Len(BadSidDch), BadSidDch)),
                EncDtlsRecord(23, 65277, 0, <<0, 0, 3>>, <<1>>), EncDtlsRecord(23, 65277, 1, <<0, 0, 4>>, Fill(1, 100)),
                EncDtlsRecord(22, 65277, 0, <<0, 0, 3>>, <<>>), EncDtlsRecord(24, 65277, 0, <<0, 0, 3>>, <<1, 0, 0>>),
                EncDtlsRecord(22, 65277, 0, <<0, 0, 5>>, EncDtlsHs(4, 2, 0, 0, 2, <<1, 2>>)), EncDtlsRecord(20, 65277, 0, <<0, 0, 6>>, <<2>>) >>
(* a handshake record ending with each kind of message, in first and middle position: what a record holds never ends the walk *)
LastMsgs == << <<0, 0, 0, 0>>, <<5, 0, 0, 0>>, <<24, 0, 0, 1, 0>>, <<24, 0, 0, 1, 1>>, <<20, 0, 0, 2, 7, 8>>, <<14, 0, 0, 0>>, <<4, 0, 0, 6, 0, 0, 0, 1, 0, 0>>,
              <<15, 0, 0, 1, 3>>, <<16, 0, 0, 1, 3>>, <<12, 0, 0, 1, 3>>, <<22, 0, 0, 4, 1, 0, 0, 0>>, <<11, 0, 0, 3, 0, 0, 0>>, <<8, 0, 0, 2, 0, 0>> >>
LastMsgCases ==
  Concat([m \in 1..Len(LastMsgs) |->
    << Mk("tls_parser_many", "parse_tls_plaintext", EncRecordRaw(22, 771, LastMsgs[m]) \o TlsPool[2] \o TlsPool[3]),
       Mk("tls_parser_many", "parse_tls_plaintext", EncRecordRaw(22, 771, <<14, 0, 0, 0>> \o LastMsgs[m]) \o TlsPool[1] \o TlsPool[4]),
       Mk("tls_parser_many", "parse_tls_plaintext", TlsPool[4] \o EncRecordRaw(22, 772, LastMsgs[m]) \o EncRecordRaw(22, 772, LastMsgs[m]) \o TlsPool[3]) >>])
(* more than 2^16 bytes of records in one buffer (5 and 9 records of 16 KiB) *)
HugeCases ==
  << Mk("tls_parser_many", "parse_tls_plaintext", Concat([j \in 1..5 |-> BigTls[1]])),
     Mk("tls_parser_many", "parse_tls_plaintext", Concat([j \in 1..9 |-> BigTls[2]]) \o TlsPool[1] \o <<22, 3>>),
     Mk("tls_parser_many", "parse_tls_plaintext", TlsPool[2] \o Concat([j \in 1..4 |-> BigTls[3]]) \o TlsPool[3]),
     Mk("parse_dtls_plaintext_records", "parse_dtls_plaintext_record", Concat([j \in 1..5 |-> BigDtls[1]])),
     Mk("parse_dtls_plaintext_records", "parse_dtls_plaintext_record", DtlsPool[1] \o Concat([j \in 1..8 |-> BigDtls[3]]) \o DtlsPool[3]) >>
Idx(n) == SetToSeq(UNION {[1..k -> 1..n] : k \in 0..(IF Thorough THEN 3 ELSE 2)} \cup {<<1, 2, 3>>, <<3, 3, 3>>, <<2, 1, 2>>}
                   \cup (IF Thorough THEN {[h \in 1..6 |-> ((h * q) % n) + 1] : q \in 1..12} ELSE {}))
Build(pool, tails, fn, single) ==
  LET ix == Idx(Len(pool)) IN
  Concat([q \in 1..Len(ix) |->
    [t \in 1..Len(tails) |-> Mk(fn, single, Concat([h \in 1..Len(ix[q]) |-> pool[ix[q][h]]]) \o tails[t])]])

ASSUME TLCSet(1, Build(TlsPool, TlsTails, "tls_parser_many", "parse_tls_plaintext")
                 \o Build(DtlsPool, DtlsTails, "parse_dtls_plaintext_records", "parse_dtls_plaintext_record")
                 \o Build(SubSeq(TlsPool, 1, 3), SubSeq(TlsTails, 1, 5), "tls_parser", "parse_tls_plaintext")
                 \o [q \in 1..Len(TlsPool) |-> Mk("tls_parser", "parse_tls_plaintext", TlsPool[q] \o TlsPool[1] \o <<22, 3>>)]
                 \o HugeCases \o LastMsgCases
                 \o MidCases(TlsPool, TlsFails, "tls_parser_many", "parse_tls_plaintext")
                 \o MidCases(DtlsPool, DtlsFails, "parse_dtls_plaintext_records", "parse_dtls_plaintext_record")
                 \o BigCases(TlsPool, BigTls, "tls_parser_many", "parse_tls_plaintext")
                 \o BigCases(DtlsPool, BigDtls, "parse_dtls_plaintext_records", "parse_dtls_plaintext_record"))
Cases == TLCGet(1)
N == Len(Cases)

VARIABLES i, res
Init == i = Chunk + 1 /\ i <= N /\ res = Apply(Cases[i].fn, NoArgs, Cases[i].bytes)
Next == i + NChunks <= N /\ i' = i + NChunks /\ res' = Apply(Cases[i'].fn, NoArgs, Cases[i'].bytes)

(* the explicit loop machine: apply the single-record parser from the start for as long as it succeeds *)
Single(fn, b, o) == IF fn = "parse_tls_plaintext" THEN ParsePlaintext(b, o, Len(b)) ELSE ParseDtlsRecord(b, o, Len(b))
Iterate(fn, b) ==
  FoldLeft(LAMBDA st, j : IF st.done THEN st
                          ELSE LET r == Single(fn, b, st.pos) IN
                               IF r.k = "ok" /\ r.p > st.pos THEN [st EXCEPT !.pos = r.p, !.acc = Append(st.acc, r.v)]
                               ELSE [st EXCEPT !.done = TRUE],
           [pos |-> 0, acc |-> <<>>, done |-> FALSE], [j \in 1..(Len(b) + 1) |-> j])

-----------------------------------------------------------------------------
EqualsIteration ==
  LET c == Cases[i]  it == Iterate(c.single, c.bytes) IN
  c.fn # "tls_parser" =>
    /\ (res.k = "ok") = (it.acc # <<>>)                              \* FailsIffFirstFails
    /\ res.k = "ok" => (res.v = it.acc /\ res.p = it.pos)            \* the records, RemainderAtFirstFailure
    /\ (res.k # "ok") = (Single(c.single, c.bytes, 0).k # "ok")
TlsParserAlias ==
  LET c == Cases[i] IN c.fn = "tls_parser" => res = ParsePlaintext(c.bytes, 0, Len(c.bytes))

Pin == IF res.k = "ok" THEN "full" ELSE IF Cases[i].fn = "tls_parser" THEN "full" ELSE IF res.k \in {"err", "fail"} THEN "reject" ELSE "novalue"
EmitCase == LET c == Cases[i] IN EmitLine(CaseLine(i, c.fn, NoArgs, <<Lit(c.bytes)>>, res, Pin, [n |-> Len(c.bytes)]))
=============================================================================
