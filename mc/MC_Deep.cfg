INIT Init
NEXT Next
CONSTANT RangeMode = TRUE
INVARIANT DeepRoundTrip
INVARIANT EmitCase
CHECK_DEADLOCK FALSE
