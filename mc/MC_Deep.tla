------------------------------- MODULE MC_Deep -------------------------------
(***************************************************************************)
(* Growth: deep decoding as an IDS composes the parsers.                   *)
(*  - a ClientHello whose extension block is a list of extensions: the     *)
(*    message parser, then the client-hello extension list parser on the   *)
(*    block it returned, yield the hello and exactly the encoded list;     *)
(*  - a ServerKeyExchange whose body is (EC)DHE parameters and a           *)
(*    signature: the message parser, then parse_content_and_signature on   *)
(*    the opaque parameters, yield exactly what was encoded.               *)
(***************************************************************************)
EXTENDS Calls, Emit
C == INSTANCE Calls WITH RangeMode <- FALSE
R32 == Fill(17, 32)
Exts == << [t |-> "SNI", tag |-> 0, names |-> <<[nt |-> 0, name |-> <<119, 119, 119, 46, 97, 46, 98>>]>>],
           [t |-> "EllipticCurves", tag |-> 10, groups |-> <<29, 23, 24>>],
           [t |-> "EcPointFormats", tag |-> 11, data |-> <<0>>],
           [t |-> "SignatureAlgorithms", tag |-> 13, algs |-> <<1027, 2052, 1025>>],
           [t |-> "ALPN", tag |-> 16, protos |-> <<<<104, 50>>, <<104, 116, 116, 112, 47, 49, 46, 49>>>>],
           [t |-> "Grease", tag |-> GreaseTag, ty |-> 2570, data |-> <<>>],
           [t |-> "SupportedVersions", tag |-> 43, vers |-> <<772, 771>>],
           [t |-> "PskExchangeModes", tag |-> 45, modes |-> <<1>>],
           [t |-> "KeyShare", tag |-> 51, data |-> Fill(3, 38)],
           [t |-> "Unknown", tag |-> 17513, ty |-> 17513, data |-> <<0, 3, 2, 104, 50>>],
           [t |-> "ExtendedMasterSecret", tag |-> 23],
           [t |-> "Padding", tag |-> 21, data |-> [j \in 1..40 |-> 0]] >>
Subsets == SetToSeq({<<>>} \cup {<<a>> : a \in 1..12} \cup {<<a, b>> : a \in 1..12, b \in {1, 6, 12}} \cup {<<1, 2, 3, 4, 5, 6, 7, 8, 9, 10, 11, 12>>, <<12, 11, 6, 6, 1>>})
Hello(xs) == [t |-> "ClientHello", ver |-> 771, random |-> R32, sid |-> Some(Fill(1, 32)), ciphers |-> <<4865, 4866, 49199>>, comp |-> <<0>>,
              ext |-> Some(EncExtList(xs))]
ChCases == [q \in 1..Len(Subsets) |->
  LET xs == [h \in 1..Len(Subsets[q]) |-> Exts[Subsets[q][h]]] IN
  [fn |-> "deep_client_hello", a |-> NoArgs, bytes |-> EncHs(Hello(xs)), want |-> [hello |-> Hello(xs), exts |-> xs]]]
  \o << [fn |-> "deep_client_hello", a |-> NoArgs,
         bytes |-> EncHs([t |-> "ClientHello", ver |-> 771, random |-> R32, sid |-> None, ciphers |-> <<47>>, comp |-> <<0>>, ext |-> None]),
         want |-> [hello |-> [t |-> "ClientHello", ver |-> 771, random |-> R32, sid |-> None, ciphers |-> <<47>>, comp |-> <<0>>, ext |-> None], exts |-> <<>>]] >>
Ecdh == [params |-> [ct |-> 3, content |-> [t |-> "NamedGroup", g |-> 23]], public |-> Fill(4, 65)]
Dh == [p |-> Fill(1, 256), g |-> <<2>>, ys |-> Fill(2, 256)]
SigN == [alg |-> Some([hash |-> 4, sign |-> 1]), data |-> Fill(5, 256)]
SigO == [alg |-> None, data |-> Fill(6, 128)]
Ske(body) == EncHs([t |-> "ServerKeyExchange", params |-> body])
SkeCases == <<
  [fn |-> "deep_server_key_exchange", a |-> [NoArgs EXCEPT !.sub = "ecdh", !.ext = 1], bytes |-> Ske(EncEcdhParams(Ecdh) \o EncSigned(SigN)),
   want |-> [params |-> [content |-> Ecdh, sig |-> SigN], left |-> 0]],
  [fn |-> "deep_server_key_exchange", a |-> [NoArgs EXCEPT !.sub = "ecdh", !.ext = 0], bytes |-> Ske(EncEcdhParams(Ecdh) \o EncSigned(SigO)),
   want |-> [params |-> [content |-> Ecdh, sig |-> SigO], left |-> 0]],
  [fn |-> "deep_server_key_exchange", a |-> [NoArgs EXCEPT !.sub = "dh", !.ext = 1], bytes |-> Ske(EncDhParams(Dh) \o EncSigned(SigN)),
   want |-> [params |-> [content |-> Dh, sig |-> SigN], left |-> 0]],
  [fn |-> "deep_server_key_exchange", a |-> [NoArgs EXCEPT !.sub = "dh", !.ext = 0], bytes |-> Ske(EncDhParams(Dh) \o EncSigned(SigO) \o <<7, 7>>),
   want |-> [params |-> [content |-> Dh, sig |-> SigO], left |-> 2]] >>
ASSUME TLCSet(1, ChCases \o SkeCases)
Cases == TLCGet(1)
N == Len(Cases)
VARIABLES i, res
Init == i = Chunk + 1 /\ i <= N /\ res = Apply(Cases[i].fn, Cases[i].a, Cases[i].bytes)
Next == i + NChunks <= N /\ i' = i + NChunks /\ res' = Apply(Cases[i'].fn, Cases[i'].a, Cases[i'].bytes)
DeepRoundTrip ==
  LET c == Cases[i]  r == C!Apply(c.fn, c.a, c.bytes) IN r.k = "ok" /\ r.v = c.want /\ r.p = Len(c.bytes)
EmitCase == LET c == Cases[i] IN EmitLine(CaseLine(i, c.fn, c.a, <<Lit(c.bytes)>>, res, "full", [kind |-> "deep"]))
=============================================================================
