INIT Init
NEXT Next
CONSTANT RangeMode = TRUE
INVARIANT HugeLocal
INVARIANT EmitCase
CHECK_DEADLOCK FALSE
