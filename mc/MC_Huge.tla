------------------------------- MODULE MC_Huge -------------------------------
(***************************************************************************)
(* Buffers larger than anything the protocol needs: a self-delimiting      *)
(* structure followed by 10 MiB .. 16 MiB of other bytes (a whole          *)
(* reassembled stream handed to a single-structure parser).  The           *)
(* statement is locality at real buffer sizes: value and consumption are   *)
(* those of the structure alone and the remainder is everything after it - *)
(* the sizes sit around the defragmenter's 10 MiB constant and 2^24, the   *)
(* only large constants of the code base.  The input is a lazily defined   *)
(* function (TLC never materialises it) described to the harness as        *)
(* (literal, filler).                                                      *)
(***************************************************************************)
EXTENDS Calls, Emit
TenMiB == 10485760
Totals == <<TenMiB - 1, TenMiB, TenMiB + 1, TenMiB + 4096, 16777217>>
Lazy(lit, n) == [j \in 1..(Len(lit) + n) |-> IF j <= Len(lit) THEN lit[j] ELSE (93 + (j - Len(lit) - 1) * 7) % 256]
Rep(x, n) == [j \in 1..n |-> x]
SctLit == <<0, 47, 0>> \o Rep(7, 32) \o Rep(1, 8) \o <<0, 0, 4, 3, 0, 0>>
Entries == <<
  <<"parse_tls_raw_record",         <<23, 3, 3, 0, 3, 1, 2, 3>>>>,
  <<"parse_tls_encrypted",          <<23, 3, 3, 0, 3, 1, 2, 3>>>>,
  <<"parse_tls_plaintext",          <<23, 3, 3, 0, 3, 1, 2, 3>>>>,
  <<"parse_tls_plaintext",          <<22, 3, 3, 0, 4, 14, 0, 0, 0>>>>,
  <<"parse_tls_plaintext",          <<24, 3, 3, 0, 8, 1, 0, 2, 5, 6, 9, 9, 9>>>>,
  <<"tls_parser",                   <<21, 3, 1, 0, 2, 1, 0>>>>,
  <<"parse_tls_record_header",      <<22, 3, 1, 0, 5>>>>,
  <<"parse_dtls_plaintext_record",  <<21, 254, 253, 0, 1, 0, 0, 0, 0, 0, 7, 0, 2, 1, 0>>>>,
  <<"parse_dtls_record_header",     <<23, 254, 253, 0, 1, 0, 0, 0, 0, 0, 7, 0, 2>>>>,
  <<"parse_tls_message_handshake",  <<14, 0, 0, 0>>>>,
  <<"parse_tls_message_handshake",  <<20, 0, 0, 2, 1, 2>>>>,
  <<"parse_dtls_message_handshake", <<14, 0, 0, 0, 0, 1, 0, 0, 0, 0, 0, 0>>>>,
  <<"parse_tls_message_alert",      <<2, 40>>>>,
  <<"parse_tls_extension",              <<0, 23, 0, 0>>>>,
  <<"parse_tls_client_hello_extension", <<0, 0, 0, 6, 0, 4, 0, 0, 1, 97>>>>,
  <<"parse_tls_server_hello_extension", <<0, 43, 0, 2, 3, 4>>>>,
  <<"parse_tls_extension_sni",          <<0, 0, 0, 6, 0, 4, 0, 0, 1, 97>>>>,
  <<"parse_dh_params",              <<0, 1, 5, 0, 1, 2, 0, 1, 9>>>>,
  <<"parse_ecdh_params",            <<3, 0, 23, 1, 4>>>>,
  <<"ECPoint::parse",               <<2, 4, 5>>>>,
  <<"parse_digitally_signed",       <<4, 3, 0, 1, 7>>>>,
  <<"parse_digitally_signed_old",   <<0, 1, 7>>>>,
  <<"parse_ct_signed_certificate_timestamp", SctLit>> >>
NE == Len(Entries)
NT == Len(Totals)
N == NE * NT
EntOf(i) == Entries[((i - 1) \div NT) + 1]
TotOf(i) == Totals[((i - 1) % NT) + 1]
VARIABLES i, res
Run(k) == LET en == EntOf(k) IN ApplyN(en[1], NoArgs, Lazy(en[2], TotOf(k) - Len(en[2])), TotOf(k))
Init == i = 1 /\ res = Run(1)
Next == i < N /\ i' = i + 1 /\ res' = Run(i')
(* the answer on the huge buffer is the answer on the structure alone: accepted, consumed exactly, same value *)
HugeLocal ==
  LET en == EntOf(i)  alone == ApplyN(en[1], NoArgs, en[2], Len(en[2])) IN
  alone.k = "ok" /\ alone.p = Len(en[2]) /\ res = alone
EmitCase ==
  LET en == EntOf(i) IN
  EmitLine(CaseLine(i, en[1], NoArgs, <<Part(en[2], 93, 7, TotOf(i) - Len(en[2]))>>, res, "full", [kind |-> "huge", total |-> TotOf(i)]))
=============================================================================
