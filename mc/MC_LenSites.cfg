INIT InitS
NEXT NextS
CONSTANT RangeMode = TRUE
INVARIANT EmitSites
CHECK_DEADLOCK FALSE
