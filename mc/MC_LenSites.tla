----------------------------- MODULE MC_LenSites -----------------------------
(* The site descriptors of MC_LenSweep, emitted once: the harness walks every length of every site in-process *)
(* under the observation invariants of C01 (no specification answer is needed for those).                    *)
EXTENDS MC_LenSweep
InitS == i = 0 /\ res = 0
NextS == FALSE /\ i' = i /\ res' = res
EmitSites == \A k \in 1..Len(AllSites) :
  LET s == AllSites[k] IN
  EmitLine([id |-> k, fn |-> s.fn, a |-> s.a, alen |-> s.alen, lit |-> s.lit, fields |-> s.fields, fixed |-> s.fixed, tail |-> s.tail,
            lmin |-> Lmin(s), lmax |-> Lmax(s)])
=============================================================================
