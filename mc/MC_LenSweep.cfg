INIT Init
NEXT Next
CONSTANT RangeMode = TRUE
INVARIANT LengthLaw
INVARIANT Sane
INVARIANT EmitCase
CHECK_DEADLOCK FALSE
