----------------------------- MODULE MC_LenSweep -----------------------------
(***************************************************************************)
(* Length-domain sweeps.  The bounded models enumerate the BOUNDARIES of   *)
(* every length field (0, 1, 255, 256, 65535, the caps); this module walks *)
(* the whole domain of one length per structure: for a site - an entry     *)
(* point, a literal skeleton with holes for the length fields, a filler    *)
(* and a literal tail - and every L of the domain of the outermost length  *)
(* field, the input is the skeleton with every tied length field set to    *)
(* L - d, followed by L - fixed filler bytes and the tail: a well-formed   *)
(* encoding of the structure whose variable-size field has every possible  *)
(* size.  TLC checks the law of the site on the specification (accepted    *)
(* and consumed up to where the structure ends, for every L, or up to the  *)
(* record cap) and emits one case per (site, L); the harness builds the    *)
(* real inputs and the crate's answer is compared in full.  The input is a *)
(* lazily defined function; nothing is materialised.                       *)
(* quick: a residue sample of every domain (~600 L per site); thorough:    *)
(* every L up to 2048 and a denser residue sample beyond (~6500 per site).  *)
(***************************************************************************)
EXTENDS Calls, Emit
Rep(x, n) == [j \in 1..n |-> x]
Rnd32 == [j \in 1..32 |-> (j * 37 + 11) % 256]
Id32  == [j \in 1..32 |-> (j * 5 + 1) % 256]
A0 == NoArgs
(* site: prop, fn, a (arguments; alen >= 0: the length argument is L - alen), lit, fields <<pos, width, d>> (the first is the *)
(* outermost), fixed (bytes inside the outermost length that are not filler), tail, end (bytes of the tail that belong to    *)
(* the structure), law ("ok": accepted for every L; "cap": accepted iff L <= 16640; "any": whatever the specification says)  *)
S(prop, fn, lit, fields, fixed, tail, end, law) ==
  [prop |-> prop, fn |-> fn, a |-> A0, alen |-> -1, lit |-> lit, fields |-> fields, fixed |-> fixed, tail |-> tail, end |-> end, law |-> law, light |-> FALSE]
SA(prop, fn, a, alen, lit, fields, fixed, tail, end, law) ==
  [prop |-> prop, fn |-> fn, a |-> a, alen |-> alen, lit |-> lit, fields |-> fields, fixed |-> fixed, tail |-> tail, end |-> end, law |-> law, light |-> FALSE]
(* the same skeletons through a second / third dispatcher are sampled more lightly in the quick tier *)
Light(ss) == [k \in 1..Len(ss) |-> [ss[k] EXCEPT !.light = TRUE]]

SctHead == <<0>> \o Id32 \o Rep(3, 8)                         \* version, log id, timestamp
RecSites == <<
  S("C02", "parse_tls_raw_record", <<23, 3, 3, 0, 0>>, << <<4, 2, 0>> >>, 0, <<>>, 0, "cap"),
  S("C02", "parse_tls_encrypted",  <<23, 3, 3, 0, 0>>, << <<4, 2, 0>> >>, 0, <<>>, 0, "cap"),
  S("C02", "parse_tls_plaintext",  <<23, 3, 3, 0, 0>>, << <<4, 2, 0>> >>, 0, <<>>, 0, "cap"),
  S("C02", "parse_tls_raw_record", <<22, 3, 1, 0, 0>>, << <<4, 2, 0>> >>, 0, <<22, 3, 3, 0, 1, 0>>, 0, "cap"),
  S("C02", "tls_parser",           <<22, 3, 3, 0, 0, 20, 0, 0, 0>>, << <<4, 2, 0>>, <<7, 3, 4>> >>, 4, <<>>, 0, "cap"),
  S("C03", "parse_tls_plaintext",  <<22, 3, 3, 0, 0, 20, 0, 0, 0>>, << <<4, 2, 0>>, <<7, 3, 4>> >>, 4, <<>>, 0, "cap"),
  S("C03", "two_step",             <<22, 3, 3, 0, 0, 20, 0, 0, 0>>, << <<4, 2, 0>>, <<7, 3, 4>> >>, 4, <<>>, 0, "cap"),
  S("C03", "parse_tls_plaintext",  <<22, 3, 3, 0, 0, 14, 0, 0, 0, 16, 0, 0, 0>>, << <<4, 2, 0>>, <<11, 3, 8>> >>, 8, <<>>, 0, "cap"),
  S("C03", "parse_tls_plaintext",  <<22, 3, 3, 0, 0, 11, 0, 0, 0, 0, 0, 0, 0, 0, 0>>, << <<4, 2, 0>>, <<7, 3, 4>>, <<10, 3, 7>>, <<13, 3, 10>> >>, 10, <<>>, 0, "cap"),
  S("C03", "parse_tls_plaintext",  <<24, 3, 3, 0, 0, 1, 0, 0>>, << <<4, 2, 0>>, <<7, 2, 3>> >>, 3, <<>>, 0, "any"),
  S("C03", "parse_tls_plaintext",  <<24, 3, 3, 0, 0, 2, 0, 5, 1, 2, 3, 4, 5>>, << <<4, 2, 0>> >>, 8, <<>>, 0, "any"),
  S("C03", "two_step",             <<23, 3, 3, 0, 0>>, << <<4, 2, 0>> >>, 0, <<>>, 0, "cap"),
  S("C03", "parse_tls_plaintext",  <<22, 3, 3, 0, 0, 0, 0, 0, 0>>, << <<4, 2, 0>>, <<7, 3, 4>> >>, 4, <<>>, 0, "cap"),
  S("C03", "two_step",             <<22, 3, 3, 0, 0, 14, 0, 0, 0, 5, 0, 0, 0>>, << <<4, 2, 0>>, <<11, 3, 8>> >>, 8, <<>>, 0, "cap"),
  S("C03", "parse_tls_plaintext",  <<22, 3, 3, 0, 0, 0, 0, 0, 0, 20, 0, 0, 1, 7>>, << <<4, 2, 0>>, <<7, 3, 9>> >>, 9, <<>>, 0, "any"),
  S("C16", "tls_parser_many",      <<23, 3, 3, 0, 0>>, << <<4, 2, 0>> >>, 0, <<21, 3, 3, 0, 2, 1, 0>>, 7, "any"),
  S("C16", "tls_parser_many",      <<22, 3, 3, 0, 4, 14, 0, 0, 0, 22, 3, 3, 0, 0, 20, 0, 0, 0>>, << <<13, 2, 0>>, <<16, 3, 4>> >>, 4, <<>>, 0, "any"),
  S("C16", "parse_dtls_plaintext_records",
    <<22, 254, 253, 0, 0, 0, 0, 0, 0, 0, 1, 0, 0, 14, 0, 0, 0, 0, 0, 0, 0, 0, 0, 0, 0>>, << <<12, 2, 0>>, <<15, 3, 12>>, <<23, 3, 12>> >>, 12,
    <<21, 254, 253, 0, 0, 0, 0, 0, 0, 0, 2, 0, 2, 1, 0>>, 15, "any") >>
HsSites == <<
  S("C04", "parse_tls_message_handshake", <<20, 0, 0, 0>>, << <<2, 3, 0>> >>, 0, <<>>, 0, "ok"),
  S("C04", "parse_tls_message_handshake", <<14, 0, 0, 0>>, << <<2, 3, 0>> >>, 0, <<>>, 0, "ok"),
  (* the kinds that carry no fields: whatever length the header declares is skipped, nothing more and nothing less *)
  S("C04", "parse_tls_message_handshake", <<0, 0, 0, 0>>, << <<2, 3, 0>> >>, 0, <<14, 0, 0, 0>>, 0, "ok"),
  S("C04", "parse_tls_message_handshake", <<5, 0, 0, 0>>, << <<2, 3, 0>> >>, 0, <<14, 0, 0, 0>>, 0, "ok"),
  S("C04", "parse_tls_message_handshake", <<24, 0, 0, 0>>, << <<2, 3, 0>> >>, 0, <<>>, 0, "any"),
  S("C04", "parse_tls_message_handshake", <<15, 0, 0, 0>>, << <<2, 3, 0>> >>, 0, <<7>>, 0, "ok"),
  S("C04", "parse_tls_message_handshake", <<16, 0, 0, 0>>, << <<2, 3, 0>> >>, 0, <<>>, 0, "ok"),
  S("C04", "parse_tls_message_handshake", <<12, 0, 0, 0>>, << <<2, 3, 0>> >>, 0, <<>>, 0, "ok"),
  S("C04", "parse_tls_message_handshake", <<11, 0, 0, 0, 0, 0, 0, 0, 0, 0>>, << <<2, 3, 0>>, <<5, 3, 3>>, <<8, 3, 6>> >>, 6, <<>>, 0, "ok"),
  S("C04", "parse_tls_message_handshake", <<11, 0, 0, 0, 0, 0, 0, 0, 0, 1, 9, 0, 0, 0>>, << <<2, 3, 0>>, <<5, 3, 3>>, <<12, 3, 10>> >>, 10, <<>>, 0, "ok"),
  S("C04", "parse_tls_message_handshake", <<4, 0, 0, 0, 0, 0, 1, 44, 0, 0>>, << <<2, 3, 0>>, <<9, 2, 6>> >>, 6, <<>>, 0, "ok"),
  S("C04", "parse_tls_message_handshake", <<22, 0, 0, 0, 1, 0, 0, 0>>, << <<2, 3, 0>>, <<6, 3, 4>> >>, 4, <<1>>, 0, "ok"),
  S("C04", "parse_tls_message_handshake", <<1, 0, 0, 0, 3, 3>> \o Rnd32 \o <<0, 0, 2, 0, 47, 1, 0, 0, 0>>, << <<2, 3, 0>>, <<46, 2, 43>> >>, 43, <<>>, 0, "ok"),
  S("C04", "parse_tls_message_handshake", <<2, 0, 0, 0, 3, 3>> \o Rnd32 \o <<0, 0, 47, 0, 0, 0>>, << <<2, 3, 0>>, <<43, 2, 40>> >>, 40, <<>>, 0, "ok"),
  S("C04", "parse_tls_message_handshake", <<1, 0, 0, 0, 3, 1>> \o Rnd32 \o <<0, 0, 0>>, << <<2, 3, 0>>, <<40, 2, 39>> >>, 39, <<1, 0>>, 2, "any"),
  S("C04", "parse_tls_message_handshake", <<6, 0, 0, 0, 3, 4, 19, 1, 0, 0>>, << <<2, 3, 0>>, <<9, 2, 6>> >>, 6, <<>>, 0, "any"),
  S("C04", "parse_tls_message_handshake", <<13, 0, 0, 0, 1, 1, 0, 0>>, << <<2, 3, 0>>, <<7, 2, 4>> >>, 4, <<>>, 0, "any"),
  S("C04", "parse_tls_message_handshake", <<67, 0, 0, 0, 0>>, << <<2, 3, 0>>, <<5, 1, 1>> >>, 1, <<>>, 0, "any"),
  SA("C04", "parse_tls_handshake_msg_finished", A0, 0, <<>>, <<>>, 0, <<5>>, 0, "ok"),
  SA("C04", "parse_tls_handshake_msg_certificateverify", A0, 0, <<>>, <<>>, 0, <<5>>, 0, "ok"),
  SA("C04", "parse_tls_handshake_msg_serverkeyexchange", A0, 0, <<>>, <<>>, 0, <<>>, 0, "ok"),
  SA("C04", "parse_tls_handshake_msg_clientkeyexchange", A0, 0, <<>>, <<>>, 0, <<>>, 0, "ok"),
  SA("C04", "parse_tls_handshake_msg_newsessionticket", A0, 0, <<0, 0, 1, 44>>, <<>>, 4, <<>>, 0, "any"),
  S("C10", "parse_dtls_message_handshake", <<16, 0, 0, 0, 0, 5, 0, 0, 0, 0, 0, 0>>, << <<2, 3, 0>>, <<10, 3, 0>> >>, 0, <<>>, 0, "ok"),
  S("C10", "parse_dtls_message_handshake", <<3, 0, 0, 0, 0, 0, 0, 0, 0, 0, 0, 0, 254, 255, 0>>, << <<2, 3, 0>>, <<10, 3, 0>>, <<15, 1, 3>> >>, 3, <<>>, 0, "any"),
  S("C10", "parse_dtls_message_handshake", <<11, 0, 0, 0, 0, 1, 0, 0, 0, 0, 0, 0, 0, 0, 0, 0, 0, 0>>, << <<2, 3, 0>>, <<10, 3, 0>>, <<13, 3, 3>>, <<16, 3, 6>> >>, 6, <<>>, 0, "any"),
  S("C10", "parse_dtls_plaintext_record",
    <<22, 254, 253, 0, 0, 0, 0, 0, 0, 0, 1, 0, 0, 14, 0, 0, 0, 0, 0, 0, 0, 0, 0, 0, 0>>, << <<12, 2, 0>>, <<15, 3, 12>>, <<23, 3, 12>> >>, 12, <<>>, 0, "cap"),
  S("C10", "parse_dtls_plaintext_record",
    <<22, 254, 255, 0, 1, 0, 0, 0, 0, 0, 1, 0, 0, 16, 0, 0, 0, 0, 2, 0, 0, 0, 0, 0, 0>>, << <<12, 2, 0>>, <<15, 3, 12>>, <<23, 3, 12>> >>, 12, <<9>>, 0, "cap") >>
ExtSites ==
  LET One(fn) == <<
    S("C05", fn, <<253, 232, 0, 0>>, << <<3, 2, 0>> >>, 0, <<>>, 0, "ok"),
    S("C05", fn, <<0, 0, 0, 0, 0, 0, 0, 0, 0>>, << <<3, 2, 0>>, <<5, 2, 2>>, <<8, 2, 5>> >>, 5, <<>>, 0, "any"),
    S("C05", fn, <<0, 35, 0, 0>>, << <<3, 2, 0>> >>, 0, <<0>>, 0, "any"),
    S("C05", fn, <<0, 21, 0, 0>>, << <<3, 2, 0>> >>, 0, <<>>, 0, "any"),
    S("C05", fn, <<0, 16, 0, 0, 0, 0, 2, 104, 50, 0>>, << <<3, 2, 0>>, <<5, 2, 2>>, <<10, 1, 6>> >>, 6, <<>>, 0, "any"),
    S("C05", fn, <<0, 10, 0, 0, 0, 0>>, << <<3, 2, 0>>, <<5, 2, 2>> >>, 2, <<>>, 0, "any"),
    S("C05", fn, <<0, 13, 0, 0, 0, 0>>, << <<3, 2, 0>>, <<5, 2, 2>> >>, 2, <<>>, 0, "any"),
    S("C05", fn, <<0, 51, 0, 0>>, << <<3, 2, 0>> >>, 0, <<>>, 0, "any"),
    S("C05", fn, <<0, 41, 0, 0>>, << <<3, 2, 0>> >>, 0, <<>>, 0, "any"),
    S("C05", fn, <<0, 44, 0, 0, 0, 0>>, << <<3, 2, 0>>, <<5, 2, 2>> >>, 2, <<>>, 0, "any"),
    S("C05", fn, <<0, 5, 0, 0, 1>>, << <<3, 2, 0>> >>, 1, <<>>, 0, "any"),
    S("C05", fn, <<0, 18, 0, 0>>, << <<3, 2, 0>> >>, 0, <<>>, 0, "any"),
    S("C05", fn, <<51, 116, 0, 0>>, << <<3, 2, 0>> >>, 0, <<>>, 0, "any"),
    S("C05", fn, <<255, 1, 0, 0, 0>>, << <<3, 2, 0>>, <<5, 1, 1>> >>, 1, <<>>, 0, "any"),
    S("C05", fn, <<0, 43, 0, 0, 0>>, << <<3, 2, 0>>, <<5, 1, 1>> >>, 1, <<>>, 0, "any"),
    S("C05", fn, <<0, 45, 0, 0, 0>>, << <<3, 2, 0>>, <<5, 1, 1>> >>, 1, <<>>, 0, "any"),
    S("C05", fn, <<0, 11, 0, 0, 0>>, << <<3, 2, 0>>, <<5, 1, 1>> >>, 1, <<>>, 0, "any"),
    S("C05", fn, <<255, 206, 0, 0>>, << <<3, 2, 0>> >>, 0, <<>>, 0, "any"),
    S("C05", fn, <<0, 57, 0, 0>>, << <<3, 2, 0>> >>, 0, <<>>, 0, "any") >> IN
  One("parse_tls_extension") \o Light(SubSeq(One("parse_tls_client_hello_extension"), 1, 8)) \o Light(SubSeq(One("parse_tls_server_hello_extension"), 1, 2))
  \o Light(SubSeq(One("parse_tls_server_hello_extension"), 8, 16))
  \o << S("C05", "parse_tls_extensions", <<0, 23, 0, 0, 253, 232, 0, 0>>, << <<7, 2, 0>> >>, 0, <<0, 22, 0, 0>>, 4, "ok"),
        S("C05", "parse_tls_extension_sni", <<0, 0, 0, 0, 0, 0, 0, 0, 0>>, << <<3, 2, 0>>, <<5, 2, 2>>, <<8, 2, 5>> >>, 5, <<1>>, 0, "any"),
        S("C05", "parse_tls_extension_session_ticket", <<0, 35, 0, 0>>, << <<3, 2, 0>> >>, 0, <<>>, 0, "any"),
        S("C05", "parse_tls_extension_key_share", <<0, 51, 0, 0>>, << <<3, 2, 0>> >>, 0, <<2>>, 0, "any"),
        S("C05", "parse_tls_extension_cookie", <<0, 44, 0, 0, 0, 0>>, << <<3, 2, 0>>, <<5, 2, 2>> >>, 2, <<>>, 0, "any"),
        S("C05", "parse_tls_extension_pre_shared_key", <<0, 41, 0, 0>>, << <<3, 2, 0>> >>, 0, <<>>, 0, "any") >>
KxSites == <<
  S("C13", "parse_dh_params", <<0, 0>>, << <<1, 2, 0>> >>, 0, <<0, 1, 2, 0, 1, 9>>, 6, "ok"),
  S("C13", "parse_dh_params", <<0, 1, 5, 0, 0>>, << <<4, 2, 0>> >>, 0, <<0, 1, 9, 33>>, 3, "ok"),
  S("C13", "parse_dh_params", <<0, 1, 5, 0, 1, 2, 0, 0>>, << <<7, 2, 0>> >>, 0, <<>>, 0, "ok"),
  S("C13", "parse_digitally_signed", <<4, 3, 0, 0>>, << <<3, 2, 0>> >>, 0, <<>>, 0, "ok"),
  S("C13", "parse_digitally_signed", <<8, 7, 0, 0>>, << <<3, 2, 0>> >>, 0, <<1, 2>>, 0, "ok"),
  S("C13", "parse_digitally_signed_old", <<0, 0>>, << <<1, 2, 0>> >>, 0, <<>>, 0, "ok"),
  S("C13", "ECPoint::parse", <<0>>, << <<1, 1, 0>> >>, 0, <<4>>, 0, "ok"),
  S("C13", "parse_ecdh_params", <<3, 0, 29, 0>>, << <<4, 1, 0>> >>, 0, <<>>, 0, "ok"),
  (* a public value is opaque whatever its first byte says: SEC1 format bytes 04 / 02 / 00 in front of every length *)
  S("C13", "ECPoint::parse", <<0, 4>>, << <<1, 1, 0>> >>, 1, <<>>, 0, "ok"),
  S("C13", "ECPoint::parse", <<0, 2>>, << <<1, 1, 0>> >>, 1, <<7>>, 0, "ok"),
  S("C13", "parse_ecdh_params", <<3, 0, 29, 0, 4>>, << <<4, 1, 0>> >>, 1, <<>>, 0, "ok"),
  S("C13", "parse_ecdh_params", <<3, 0, 30, 0, 4>>, << <<4, 1, 0>> >>, 1, <<4, 3, 0, 0>>, 0, "ok"),
  S("C13", "parse_ecdh_params", <<3, 0, 23, 0, 0>>, << <<4, 1, 0>> >>, 1, <<>>, 0, "ok"),
  S("C13", "parse_dh_params", <<0, 0, 0>>, << <<1, 2, 0>> >>, 1, <<0, 1, 2, 0, 1, 9>>, 6, "ok"),
  S("C13", "parse_ecdh_params", <<3, 0, 23, 0>>, << <<4, 1, 0>> >>, 0, <<4, 3, 0, 0>>, 0, "ok"),
  SA("C13", "parse_content_and_signature", [len |-> 0, ext |-> 1, ct |-> 0, ver |-> 0, sub |-> "ecdh"], -1, <<3, 0, 24, 2, 4, 5, 4, 3, 0, 0>>, << <<9, 2, 0>> >>, 0, <<>>, 0, "any"),
  SA("C13", "parse_content_and_signature", [len |-> 0, ext |-> 0, ct |-> 0, ver |-> 0, sub |-> "dh"], -1, <<0, 1, 5, 0, 1, 2, 0, 0>>, << <<7, 2, 0>> >>, 0, <<0, 2, 8, 8>>, 4, "any") >>
SctSites == <<
  S("C14", "parse_ct_signed_certificate_timestamp_list", <<0, 0, 0, 0>> \o SctHead \o <<0, 0, 4, 3, 0, 0>>, << <<1, 2, 0>>, <<3, 2, 2>>, <<50, 2, 49>> >>, 49, <<>>, 0, "ok"),
  S("C14", "parse_ct_signed_certificate_timestamp",      <<0, 0>> \o SctHead \o <<0, 0, 4, 3, 0, 0>>, << <<1, 2, 0>>, <<48, 2, 47>> >>, 47, <<>>, 0, "ok"),
  S("C14", "parse_ct_signed_certificate_timestamp",      <<0, 0>> \o SctHead \o <<0, 0, 4, 3, 0, 0>>, << <<1, 2, 0>>, <<48, 2, 47>> >>, 47, <<0, 47>>, 0, "ok"),
  S("C14", "parse_ct_signed_certificate_timestamp_list", <<0, 0, 0, 0>> \o SctHead \o <<0, 0>>, << <<1, 2, 0>>, <<3, 2, 2>>, <<46, 2, 49>> >>, 49, <<4, 3, 0, 0>>, 4, "ok"),
  S("C14", "parse_ct_signed_certificate_timestamp_list", <<0, 0>> \o <<0, 47>> \o SctHead \o <<0, 0, 4, 3, 0, 0>> \o <<0, 0>> \o SctHead \o <<0, 0, 4, 1, 0, 0>>,
    << <<1, 2, 0>>, <<52, 2, 51>>, <<99, 2, 98>> >>, 98, <<>>, 0, "ok") >>

AllSites == RecSites \o HsSites \o ExtSites \o KxSites \o SctSites
Want == IOEnv.VERIF_PROP
Sites == SelectSeq(AllSites, LAMBDA s : s.prop = Want)
NS == Len(Sites)

Pow(w) == IF w = 1 THEN 256 ELSE IF w = 2 THEN 65536 ELSE 16777216
MaxOf(fs) == FoldLeft(LAMBDA acc, f : Max2(acc, f[3]), 0, fs)
Lmin(s) == Max2(s.fixed, MaxOf(s.fields))
Lmax(s) == IF s.fields = <<>> THEN 65535 ELSE Min2(65535, Pow(s.fields[1][2]) - 1)
(* the sampled residues: every domain is visited at the start, around every multiple of 256, at the DER-looking low bytes, *)
(* around the record caps and at a seeded stride                                                                          *)
Sampled(s, L) ==
  \/ Lmax(s) <= 255                                  \* one-byte length fields: the whole domain
  \/ L <= Lmin(s) + (IF Thorough THEN 2048 ELSE 16)
  \/ (L % 256) = 130 \/ ((L % 256) = 0 /\ (Thorough \/ ~s.light))
  \/ L \in 16383..16385 \/ L \in 16639..16641 \/ L >= 65533
  \/ ((L * 7919) % 1021 = 13 /\ (Thorough \/ ~s.light))
  \/ (Thorough /\ ((L % 32) \in {0, 2} \/ (L % 256) = 255 \/ L \in 16370..16660))
Doms == [k \in 1..NS |-> SetToSeq({L \in Lmin(Sites[k])..Lmax(Sites[k]) : Sampled(Sites[k], L)})]
ASSUME TLCSet(5, Doms)
Dom(k) == TLCGet(5)[k]
(* case index -> (site, L) *)
Offsets == [k \in 1..(NS + 1) |-> FoldLeft(LAMBDA acc, q : acc + Len(Dom(q)), 0, [q \in 1..(k - 1) |-> q])]
ASSUME TLCSet(6, Offsets)
Off(k) == TLCGet(6)[k]
N == Off(NS + 1)
SiteOf(c) == CHOOSE k \in 1..NS : Off(k) < c /\ c <= Off(k + 1)
LOf(c) == LET k == SiteOf(c) IN Dom(k)[c - Off(k)]

BEw(w, x) == IF w = 1 THEN BE8(x) ELSE IF w = 2 THEN BE16(x) ELSE BE24(x)
(* the literal with its length fields set *)
Patched(s, L) ==
  [j \in 1..Len(s.lit) |->
     LET hit == SelectSeq(s.fields, LAMBDA f : j >= f[1] /\ j < f[1] + f[2]) IN
     IF hit = <<>> THEN s.lit[j] ELSE BEw(hit[1][2], L - hit[1][3])[j - hit[1][1] + 1]] \o <<>>   \* (an explicit tuple: evaluated once)
Total(s, L) == Len(s.lit) + (L - s.fixed) + Len(s.tail)
InputOf(s, L) ==
  LET pl == Patched(s, L)  n == L - s.fixed IN
  [j \in 1..Total(s, L) |-> IF j <= Len(pl) THEN pl[j]
                            ELSE IF j <= Len(pl) + n THEN (93 + (j - Len(pl) - 1) * 7) % 256
                            ELSE s.tail[j - Len(pl) - n]]
ArgsOf(s, L) == IF s.alen >= 0 THEN [s.a EXCEPT !.len = L - s.alen] ELSE s.a
Run(c) == LET k == SiteOf(c)  s == Sites[k]  L == LOf(c) IN ApplyN(s.fn, ArgsOf(s, L), InputOf(s, L), Total(s, L))

VARIABLES i, res
Init == i = Chunk + 1 /\ i <= N /\ res = Run(i)
Next == i + NChunks <= N /\ i' = i + NChunks /\ res' = Run(i')

(* the law of the site: a well-formed encoding is accepted at every length and consumed up to the end of the structure *)
LengthLaw ==
  LET s == Sites[SiteOf(i)]  L == LOf(i)  endp == Total(s, L) - Len(s.tail) + s.end IN
  /\ s.law = "ok"  => (res.k = "ok" /\ res.p = endp)
  /\ s.law = "cap" => IF L <= 16640 THEN res.k = "ok" /\ res.p = endp ELSE res.k \in {"err", "fail"}
(* whatever the law, a result never reaches past the input and Needed is positive or unknown *)
Sane == (res.k = "ok" => res.p <= Total(Sites[SiteOf(i)], LOf(i))) /\ (res.k = "inc" => res.n # 0)
EmitCase ==
  LET k == SiteOf(i)  s == Sites[k]  L == LOf(i) IN
  EmitLine(CaseLine(i, s.fn, ArgsOf(s, L), <<Part(Patched(s, L), 93, 7, L - s.fixed), Lit(s.tail)>>, res,
                    IF res.k = "ok" THEN "full" ELSE IF res.k = "inc" THEN (IF res.n > 0 THEN "inc_n" ELSE "inc") ELSE "reject",
                    [kind |-> "lensweep", site |-> k, L |-> L]))
=============================================================================
