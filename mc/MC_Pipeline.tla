----------------------------- MODULE MC_Pipeline -----------------------------
(***************************************************************************)
(* Growth beyond the listed properties: the end-to-end pipeline            *)
(* (TCP segments -> raw records -> defragmenter -> handshake automaton)     *)
(* explored for every segmentation of conforming handshakes whose messages  *)
(* are fragmented over records in awkward places.  Emits the scenarios and  *)
(* the per-position expected state for the harness.                         *)
(***************************************************************************)
EXTENDS Pipeline, Emit

CONSTANT Scenario     \* 1 = full handshake, 2 = resumption, 3 = client-certificate flow with a warning alert

R32 == Fill(21, 32)
Rec(ct, data) == [ct |-> ct, ver |-> 771, data |-> data]
CH0 == EncHs([t |-> "ClientHello", ver |-> 771, random |-> R32, sid |-> None, ciphers |-> <<47, 49199>>, comp |-> <<0>>,
              ext |-> Some(<<0, 23, 0, 0>>)])
CH1 == EncHs([t |-> "ClientHello", ver |-> 771, random |-> R32, sid |-> Some(Fill(2, 32)), ciphers |-> <<47>>, comp |-> <<0>>, ext |-> None])
SH == EncHs([t |-> "ServerHello", ver |-> 771, random |-> R32, sid |-> Some(Fill(2, 32)), cipher |-> 47, comp |-> 0, ext |-> Some(<<>>)])
CERT == EncHs([t |-> "Certificate", chain |-> << Fill(1, 20), <<48, 0>> >>])
SKE == EncHs([t |-> "ServerKeyExchange", params |-> Fill(3, 9)])
SHD == EncHs([t |-> "ServerDone", data |-> <<>>])
CKE == EncHs([t |-> "ClientKeyExchange", kind |-> "Unknown", data |-> Fill(4, 6)])
CR == EncHs([t |-> "CertificateRequest", types |-> <<1>>, sigalgs |-> Some(<<1025>>), cas |-> <<>>])
CV == EncHs([t |-> "CertificateVerify", data |-> <<1, 2, 3>>])
CCERT == EncHs([t |-> "Certificate", chain |-> <<>>])
Cut(b, k) == <<SubSeq(b, 1, k), SubSeq(b, k + 1, Len(b))>>

FullFlights == <<
  [dir |-> "c", recs |-> <<Rec(22, Cut(CH0, 3)[1]), Rec(22, Cut(CH0, 3)[2])>>],                       \* cut inside the handshake header
  [dir |-> "s", recs |-> <<Rec(22, SH \o CERT), Rec(22, Cut(SKE, 6)[1]), Rec(22, <<>>), Rec(22, Cut(SKE, 6)[2] \o SHD)>>],
  [dir |-> "c", recs |-> <<Rec(22, CKE), Rec(20, <<1>>)>>],
  [dir |-> "s", recs |-> <<Rec(20, <<1>>)>>] >>
ResumeFlights == <<
  [dir |-> "c", recs |-> <<Rec(22, CH1)>>],
  [dir |-> "s", recs |-> <<Rec(22, Cut(SH, 40)[1]), Rec(22, Cut(SH, 40)[2])>>],
  [dir |-> "c", recs |-> <<Rec(20, <<1>>)>>],
  [dir |-> "s", recs |-> <<Rec(20, <<1>>)>>] >>
CertReqFlights == <<
  [dir |-> "c", recs |-> <<Rec(22, CH0)>>],
  [dir |-> "s", recs |-> <<Rec(22, SH), Rec(22, CERT), Rec(22, Cut(CR, 5)[1]), Rec(22, Cut(CR, 5)[2]), Rec(21, <<1, 0>>), Rec(22, SHD)>>],
  [dir |-> "c", recs |-> <<Rec(22, CCERT \o CKE), Rec(22, Cut(CV, 2)[1]), Rec(22, Cut(CV, 2)[2]), Rec(20, <<1>>)>>],
  [dir |-> "s", recs |-> <<Rec(22, <<0, 0, 0, 0>>), Rec(20, <<1>>)>>] >>
(* scenarios >= 4: REAL sessions - flights made of the repository's captures, handed over as a file of JSON lines *)
(* [dir, recs: [ct, ver, data]] (one flight per line)                                                            *)
CapturedFlights == ndJsonDeserialize(IOEnv.VERIF_FLIGHTS)
MCFlights == IF Scenario = 1 THEN FullFlights ELSE IF Scenario = 2 THEN ResumeFlights ELSE IF Scenario = 3 THEN CertReqFlights ELSE CapturedFlights
MCSegSizes == IF Scenario <= 3 THEN {1, 2, 5, 17, 100000} ELSE {1, 7, 100, 1460, 100000}
(* the reference is computed once and parked (the captured flights are kilobytes long) *)
ASSUME TLCSet(7, Reference)
RefC == TLCGet(7)
ChunkingInvarianceC == ChunkingInvarianceP(RefC)
PrefixOfReferenceC == PrefixOfReferenceP(RefC)

Expected == "SessionEncrypted"
ReachesExpected == Done => tls = Expected

View == <<fl, sent>>
(* one line per byte position: what the pipeline must show once the stream has been delivered up to there *)
EmitPosition ==
  EmitLine([scenario |-> Scenario, fl |-> fl, sent |-> sent, tls |-> tls, nkinds |-> Len(kinds),
            tcp_c |-> Len(tcp["c"]), tcp_s |-> Len(tcp["s"]),
            inprog_c |-> dfr["c"].cur # -1, inprog_s |-> dfr["s"].cur # -1,
            buf_c |-> Len(dfr["c"].buf), buf_s |-> Len(dfr["s"].buf)])
EmitScenario ==
  (fl = 1 /\ sent = 0) =>
    EmitLine([scenario |-> Scenario, fl |-> 0, sent |-> 0, tls |-> "", nkinds |-> 0, tcp_c |-> 0, tcp_s |-> 0, inprog_c |-> FALSE,
              inprog_s |-> FALSE, buf_c |-> 0, buf_s |-> 0,
              flights |-> [j \in 1..Len(MCFlights) |-> [dir |-> MCFlights[j].dir, bytes |-> FlightBytes(MCFlights[j])]],
              kinds |-> [j \in 1..Len(RefC.kinds) |-> RefC.kinds[j][1]]])
=============================================================================
