INIT Init
NEXT Next
VIEW View
CONSTANT RangeMode = TRUE
CONSTANT MaxRecordData = 10485760
CONSTANT Scenario = 2
CONSTANT Flights <- MCFlights
CONSTANT SegSizes <- MCSegSizes
INVARIANT ChunkingInvariance
INVARIANT NeverError
INVARIANT PrefixOfReference
INVARIANT NoWholeRecordWaiting
INVARIANT ReachesExpected
INVARIANT EmitPosition
INVARIANT EmitScenario
CHECK_DEADLOCK FALSE
