INIT Init
NEXT Next
VIEW View
CONSTANT RangeMode = TRUE
CONSTANT MaxRecordData = 10485760
CONSTANT Scenario = 4
CONSTANT Flights <- MCFlights
CONSTANT SegSizes <- MCSegSizes
INVARIANT ChunkingInvarianceC
INVARIANT PrefixOfReferenceC
INVARIANT NoWholeRecordWaiting
INVARIANT EmitPosition
INVARIANT EmitScenario
CHECK_DEADLOCK FALSE
