SPECIFICATION Spec
CONSTANT RangeMode = TRUE
CONSTANT Wire <- MCWire
CONSTANT Fn <- MCFn
CONSTANT Policy <- MCPolicy
CONSTANT Chunks <- MCChunks
CONSTANT MaxIncs <- MCMaxIncs
INVARIANT BoundedReads
INVARIANT NeverReadsAhead
INVARIANT DeliversReference
INVARIANT StuckIffReference
INVARIANT NoSpin
INVARIANT RefinesStreamLen
INVARIANT EmitState
INVARIANT EmitWire
CHECK_DEADLOCK FALSE
