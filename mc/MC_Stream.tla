------------------------------ MODULE MC_Stream ------------------------------
(***************************************************************************)
(* Growth (C02 / C10): the streaming consumer of Stream.tla explored for    *)
(* every behaviour over a set of wires - concatenated records of all        *)
(* content types, with empty payloads, a truncated tail, an oversized       *)
(* header, garbage - under both read policies.  Each (wire, parser, policy) *)
(* is one TLC run (constants from the environment).                         *)
(***************************************************************************)
EXTENDS Stream, Emit, IOUtils

R(ct, ver, pl) == EncRecordRaw(ct, ver, pl)
D(ct, pl) == EncDtlsRecord(ct, 65277, 1, <<0, 0, 7>>, pl)
TlsWires == <<
  R(22, 771, <<14, 0, 0, 0>>) \o R(20, 771, <<1>>) \o R(23, 771, <<>>) \o R(21, 769, <<2, 40>>),
  R(23, 771, Fill(1, 300)) \o R(22, 771, <<0, 0, 0, 0, 14, 0, 0, 0>>) \o SubSeq(R(23, 771, <<1, 2, 3>>), 1, 6),
  R(24, 771, <<1, 0, 1, 9, 0, 0>>) \o <<22, 3, 3, 65, 1>> \o <<1, 2>>,
  R(20, 771, <<1, 1, 1>>) \o R(22, 771, <<99, 0, 0, 0>>) \o R(20, 771, <<1>>),
  <<>>,
  <<22>>,
  R(23, 0, <<7>>) \o R(23, 65535, <<8>>) \o <<0, 0, 0, 0, 0>> >>
DtlsWires == <<
  D(22, EncDtlsHs(14, 0, 1, 0, 0, <<>>)) \o D(20, <<1>>) \o D(21, <<2, 40>>),
  D(22, EncDtlsHs(11, 30, 3, 4, 2, <<7, 7>>)) \o SubSeq(D(20, <<1>>), 1, 13),
  D(20, <<1>>) \o D(23, <<1>>) \o D(20, <<1>>) >>

WireNo == atoi(IOEnv.VERIF_WIRE)
MCFn == IOEnv.VERIF_FN
MCPolicy == IOEnv.VERIF_POLICY
MCWire == IF MCFn \in {"parse_dtls_plaintext_record"} THEN DtlsWires[WireNo] ELSE TlsWires[WireNo]
MCChunks == {1, 2, 3, 5, 8, 400}
MCMaxIncs == IF MCFn = "parse_dtls_plaintext_record" THEN 6 ELSE 4

(* the byte-level machine asks for exactly what the contract-level machine StreamLen.tla (proved with TLAPS for every record *)
(* size) asks for: missing bytes of the header field being read, then exactly the rest of the record                     *)
(* (StreamLen!Need, copied: TLC cannot load a module that extends TLAPS) *)
NeedAbs(t, x) == IF x < 1 THEN 1 - x ELSE IF x < 3 THEN 3 - x ELSE IF x < 5 THEN 5 - x ELSE t - x
RefinesStreamLen ==
  (MCPolicy = "needed" /\ st.phase = "read" /\ MCFn # "parse_dtls_plaintext_record") =>
    LET x == st.have - st.start
        t == IF x >= 5 THEN 5 + MCWire[st.start + 4] * 256 + MCWire[st.start + 5] ELSE 5
    IN st.need = NeedAbs(t, x) /\ st.incs <= 4 /\ st.have + st.need <= st.start + (IF x >= 5 THEN t ELSE 5)

(* one line per state: the harness's consumer must be able to reproduce every transition (spec -> impl) *)
EmitState ==
  EmitLine([fn |-> MCFn, wire |-> WireNo, policy |-> MCPolicy, st |-> st])
EmitWire == (st = S0) => EmitLine([fn |-> MCFn, wire |-> WireNo, policy |-> "wire", bytes |-> MCWire])
=============================================================================
