INIT Init
NEXT Next
INVARIANT Inv
CONSTANT RangeMode = TRUE
CHECK_DEADLOCK FALSE
