---- MODULE Smoke ----
EXTENDS Calls
C == INSTANCE Calls WITH RangeMode <- FALSE
VARIABLE i
Init == i = 1
Next == FALSE /\ i' = i
\* test_tls_extension_alpn etc
Sni == [t |-> "SNI", tag |-> 0, names |-> <<[nt |-> 0, name |-> <<97,98>>]>>]
I1 == PrintT(C!DecExt("generic", EncExt(Sni), 0, Len(EncExt(Sni)))) /\ C!DecExt("generic", EncExt(Sni), 0, Len(EncExt(Sni))).v = Sni
I2 == PrintT(DecExtList("client", <<10,26,0,1,5, 0,22,0,0, 0,21,0,1,9>>, 0, 14))
I3 == PrintT(DecTagged(15, <<0,15,0,1,2>>, 0, 5)) /\ PrintT(DecTagged(5, <<0,5,0,0>>, 0, 4))
Dh == [p |-> <<1,2>>, g |-> <<>>, ys |-> <<5>>]
I4 == C!DecDhParams(EncDhParams(Dh), 0, Len(EncDhParams(Dh))) = Ok(Len(EncDhParams(Dh)), Dh)
Sc == [ver |-> 0, id |-> Fill(1,32), ts |-> <<1,2,3,4>>, ext |-> <<>>, sig |-> [alg |-> Some([hash |-> 4, sign |-> 3]), data |-> <<9,9>>]]
I5 == C!DecSctList(EncSctList(<<Sc,Sc>>), 0, Len(EncSctList(<<Sc,Sc>>))).v = <<Sc,Sc>>
DR == EncDtlsRecord(22, 65277, 1, <<0,0,5>>, EncDtlsHs(14, 0, 3, 0, 0, <<>>))
I6 == PrintT(ParseDtlsRecord(DR, 0, Len(DR)))
Inv == I1 /\ I2 /\ I3 /\ I4 /\ I5 /\ I6
====
