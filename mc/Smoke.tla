---- MODULE Smoke ----
EXTENDS TlsRecord
C == INSTANCE TlsRecord WITH RangeMode <- FALSE
VARIABLE i
Init == i = 1
Next == FALSE /\ i' = i
\* test_tls_record_serverdone: 16 03 03 00 04 0e 00 00 00
SD == <<22,3,3,0,4,14,0,0,0>>
CH == [t |-> "ClientHello", ver |-> 771, random |-> Fill(3,32), sid |-> None, ciphers |-> <<47, 53>>, comp |-> <<0>>, ext |-> Some(<<0,0,0,0>>)]
I1 == PrintT(ParsePlaintext(SD,0,Len(SD)))
I2 == PrintT(C!ParsePlaintext(SD,0,Len(SD)))
I3 == C!DecHandshake(EncHs(CH), 0, Len(EncHs(CH))) = Ok(Len(EncHs(CH)), [t |-> "hs", m |-> CH])
I4 == PrintT(DecHandshake(EncHs(CH), 0, Len(EncHs(CH))))
I5 == PrintT(ParsePlaintext(<<24,3,1,0,3,1,0,9>>,0,8)) /\ PrintT(ParsePlaintext(<<23,3,1,0,2,1,2>>,0,7))
Inv == I1 /\ I2 /\ I3 /\ I4 /\ I5
====
