------------------------------- MODULE Bytes -------------------------------
(***************************************************************************)
(* Byte strings, big-endian integers, wide integers as 16-bit limbs and    *)
(* the seeded filler pattern shared with the Rust harness.                 *)
(*                                                                         *)
(* A byte string is a TLA+ sequence of integers in 0..255.  Offsets are    *)
(* 0-based counts of consumed bytes, so byte number k (0-based) of b is    *)
(* b[k+1].                                                                 *)
(***************************************************************************)
EXTENDS Integers, Sequences, SequencesExt, FiniteSets

Byte == 0..255

Min2(a, b) == IF a < b THEN a ELSE b
Max2(a, b) == IF a > b THEN a ELSE b

(* big-endian encoders (RFC 5246 section 4.4) *)
BE8(x)  == <<x % 256>>
BE16(x) == <<(x \div 256) % 256, x % 256>>
BE24(x) == <<(x \div 65536) % 256, (x \div 256) % 256, x % 256>>

(* wide integers: most significant 16-bit limb first *)
Limbs2Bytes(ls) == FoldLeft(LAMBDA acc, x : acc \o BE16(x), <<>>, ls)

(* Filler: an arithmetic progression of bytes.  Prog(base, step, n)[i+1] for i in 0..n-1. *)
(* Fill(seed, n) is the default pattern: asymmetric in the index, so that shifted or   *)
(* swapped regions differ.                                                              *)
Prog(base, step, n) == [i \in 1..n |-> (base + (i - 1) * step) % 256]
Fill(seed, n) == Prog((seed * 31) % 256, 7, n)

(* A `part' is a literal followed by a progression: [lit |-> <<..>>, fill |-> <<base, step, n>>] *)
Part(lit, base, step, n) == [lit |-> lit, fill |-> <<base, step, n>>]
Lit(lit)           == Part(lit, 0, 0, 0)
FillPart(seed, n)  == Part(<<>>, (seed * 31) % 256, 7, n)
RepPart(byte, n)   == Part(<<>>, byte, 0, n)
PartLen(p)         == Len(p.lit) + p.fill[3]
PartBytes(p)       == p.lit \o Prog(p.fill[1], p.fill[2], p.fill[3])
Flatten(parts)     == FoldLeft(LAMBDA acc, p : acc \o PartBytes(p), <<>>, parts)
PartsLen(parts)    == FoldLeft(LAMBDA acc, p : acc + PartLen(p), 0, parts)
(* the first k bytes of a part list, again as a part list *)
CutPart(p, k) == IF k >= PartLen(p) THEN p
                 ELSE IF k <= Len(p.lit) THEN Lit(SubSeq(p.lit, 1, k))
                 ELSE Part(p.lit, p.fill[1], p.fill[2], k - Len(p.lit))
CutParts(parts, k) ==
  FoldLeft(LAMBDA acc, p : IF acc.left = 0 THEN acc
                           ELSE [out |-> Append(acc.out, CutPart(p, acc.left)),
                                 left |-> acc.left - Min2(acc.left, PartLen(p))],
           [out |-> <<>>, left |-> k], parts).out

(* protocol-significant constants a value domain must contain (RFC 8446 section 4.1.3): the HelloRetryRequest random *)
(* SHA-256("HelloRetryRequest") and the downgrade sentinels in the last 8 bytes of a ServerHello random            *)
HrrRandom == <<207, 33, 173, 116, 229, 154, 97, 17, 190, 29, 140, 2, 30, 101, 184, 145,
               194, 162, 17, 22, 122, 187, 140, 94, 7, 158, 9, 226, 200, 168, 51, 156>>
Downgrade12 == <<68, 79, 87, 78, 71, 82, 68, 1>>
Downgrade11 == <<68, 79, 87, 78, 71, 82, 68, 0>>

(* trailing-data lengths around 2^16 and 2^17: what follows a structure never matters, however much of it there is *)
(* (an "available bytes" quantity narrowed to 16 bits misbehaves exactly here)                                     *)
LongTails == <<65535, 65536, 65537, 131071>>

(* concatenation of a sequence of byte strings *)
Concat(ss) == FoldLeft(LAMBDA acc, s : acc \o s, <<>>, ss)

(* replace byte at 0-based offset k *)
SetByte(b, k, x) == [b EXCEPT ![k + 1] = x]

(* splice: replace the w bytes at offset k by the byte string r *)
Splice(b, k, w, r) == SubSeq(b, 1, k) \o r \o SubSeq(b, k + w + 1, Len(b))

Prefix(b, n) == SubSeq(b, 1, n)
=============================================================================
