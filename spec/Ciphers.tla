------------------------------- MODULE Ciphers -------------------------------
(***************************************************************************)
(* The cipher-suite registry: lookup semantics, derived sizes, and the      *)
(* agreement between a row's parameters and the algorithm tokens of its     *)
(* IANA name.  The table itself is GENERATED (CipherTable.tla from the      *)
(* working tree's scripts/tls-ciphersuites.txt, PinnedTable.tla from the    *)
(* snapshot in spec/data) by a generator that only splits on ':' and '_';   *)
(* every interpretation of a token is here, written independently of        *)
(* build.rs.                                                                *)
(***************************************************************************)
EXTENDS Integers, Sequences, FiniteSets, SequencesExt, TLC, CipherTable, PinnedTable

HexDigit(c) == CASE c = "0" -> 0 [] c = "1" -> 1 [] c = "2" -> 2 [] c = "3" -> 3 [] c = "4" -> 4 [] c = "5" -> 5
                 [] c = "6" -> 6 [] c = "7" -> 7 [] c = "8" -> 8 [] c = "9" -> 9 [] c = "a" -> 10 [] c = "b" -> 11
                 [] c = "c" -> 12 [] c = "d" -> 13 [] c = "e" -> 14 [] c = "f" -> 15
HexMap == [s \in {"0", "1", "2", "3", "4", "5", "6", "7", "8", "9", "a", "b", "c", "d", "e", "f"} |-> HexDigit(s)]

(* decimal value of a column holding digits (bits, macbits) is compared as a string against ToString *)
Dec(n) == ToString(n)

(* ---- the crate's enum variant names (what {:?} prints), from the column tokens *)
Title(tok) ==   \* first letter upper case, rest lower case, for the tokens the table uses
  CASE tok = "NULL" -> "Null" [] tok = "RSA" -> "Rsa" [] tok = "DH" -> "Dh" [] tok = "DHE" -> "Dhe" [] tok = "ECDH" -> "Ecdh"
    [] tok = "ECDHE" -> "Ecdhe" [] tok = "PSK" -> "Psk" [] tok = "KRB5" -> "Krb5" [] tok = "SRP" -> "Srp" [] tok = "ECCPWD" -> "Eccpwd"
    [] tok = "TLS13" -> "Tls13" [] tok = "DSS" -> "Dss" [] tok = "ECDSA" -> "Ecdsa" [] tok = "AES" -> "Aes" [] tok = "CAMELLIA" -> "Camellia"
    [] tok = "ARIA" -> "Aria" [] tok = "RC4" -> "Rc4" [] tok = "RC2" -> "Rc2" [] tok = "DES" -> "Des" [] tok = "SEED" -> "Seed"
    [] tok = "IDEA" -> "Idea" [] tok = "SM4" -> "Sm4" [] tok = "AEGIS" -> "Aegis" [] tok = "CBC" -> "Cbc" [] tok = "GCM" -> "Gcm"
    [] tok = "CCM" -> "Ccm" [] tok = "DEFAULT" -> "Default" [] tok = "SHA256" -> "Sha256" [] tok = "SHA384" -> "Sha384"
    [] tok = "SHA512" -> "Sha512" [] tok = "SM3" -> "Sm3" [] tok = "SHA1" -> "Sha1" [] tok = "MD5ANDSHA1" -> "Md5AndSha1"
    [] OTHER -> "?" \o tok
KxVariant(tok) == Title(tok)
AuVariant(tok) == IF tok = "SRP+DSS" THEN "Srp_Dss" ELSE IF tok = "SRP+RSA" THEN "Srp_Rsa" ELSE Title(tok)
EncVariant(tok) == IF tok = "3DES" THEN "TripleDes" ELSE IF tok = "CHACHA20_POLY1305" THEN "Chacha20_Poly1305" ELSE Title(tok)
ModeVariant(tok) == IF tok = "" THEN "Null" ELSE Title(tok)
MacVariant(tok) == CASE tok = "NULL" -> "Null" [] tok = "HMAC-MD5" -> "HmacMd5" [] tok = "HMAC-SHA1" -> "HmacSha1"
                     [] tok = "HMAC-SHA256" -> "HmacSha256" [] tok = "HMAC-SHA384" -> "HmacSha384"
                     [] tok = "HMAC-SHA512" -> "HmacSha512" [] tok = "AEAD" -> "Aead" [] OTHER -> "?" \o tok
PrfVariant(tok) == Title(tok)

(* ---- derived sizes *)
MacLen(mac) == CASE mac \in {"NULL", "AEAD"} -> 0 [] mac = "HMAC-MD5" -> 16 [] mac = "HMAC-SHA1" -> 20
                 [] mac = "HMAC-SHA256" -> 32 [] mac = "HMAC-SHA384" -> 48 [] mac = "HMAC-SHA512" -> 64
BlockSize(enc) == IF enc \in {"DES", "3DES", "IDEA", "RC2"} THEN 8
                  ELSE IF enc \in {"AES", "ARIA", "CAMELLIA", "SEED", "SM4"} THEN 16 ELSE 0

(* what the crate must report for a row: every column and the three derived sizes, as strings / numbers *)
SpecRow(r) == [hex |-> r.hex, name |-> r.name, kx |-> KxVariant(r.kx), au |-> AuVariant(r.au), enc |-> EncVariant(r.enc),
               mode |-> ModeVariant(r.mode), bits |-> r.bits, mac |-> MacVariant(r.mac), macbits |-> r.macbits,
               prf |-> PrfVariant(r.prf), keybytes |-> r.bits \div 8, maclen |-> MacLen(r.mac), blocksize |-> BlockSize(r.enc)]

(* ---- the table as a function *)
Hexes(T) == {T[j].hex : j \in 1..Len(T)}
Names(T) == {T[j].name : j \in 1..Len(T)}
RowByHex(T, h) == T[CHOOSE j \in 1..Len(T) : T[j].hex = h]
LookupName(T, s) == IF s \in Names(T) THEN (T[CHOOSE j \in 1..Len(T) : T[j].name = s]).hex ELSE "none"

UniqueIds(T)   == Cardinality(Hexes(T)) = Len(T)
UniqueNames(T) == Cardinality(Names(T)) = Len(T)
(* IANA assignments present today are never altered (additions are allowed) *)
PinnedKept == \A j \in 1..Len(Pinned) : \E k \in 1..Len(Current) : Current[k] = Pinned[j]

(* ---- NameAgrees: the parameters agree with the algorithm tokens of the IANA name *)
IndexOf(toks, t) == IF \E j \in 1..Len(toks) : toks[j] = t THEN CHOOSE j \in 1..Len(toks) : toks[j] = t /\ \A h \in 1..(j - 1) : toks[h] # t ELSE 0
Has(toks, t) == \E j \in 1..Len(toks) : toks[j] = t
IsScsv(r) == r.toks[Len(r.toks)] = "SCSV"
KxAuOf(pre) ==      \* tokens between TLS and WITH -> <<kx, au>>
  CASE pre = <<"NULL">> -> <<"NULL", "NULL">>
    [] pre \in {<<"RSA">>, <<"RSA", "EXPORT">>, <<"RSA", "EXPORT1024">>} -> <<"RSA", "RSA">>
    [] pre \in {<<"DH", "DSS">>, <<"DH", "DSS", "EXPORT">>} -> <<"DH", "DSS">>
    [] pre \in {<<"DH", "RSA">>, <<"DH", "RSA", "EXPORT">>} -> <<"DH", "RSA">>
    [] pre \in {<<"DHE", "DSS">>, <<"DHE", "DSS", "EXPORT">>, <<"DHE", "DSS", "EXPORT1024">>} -> <<"DHE", "DSS">>
    [] pre \in {<<"DHE", "RSA">>, <<"DHE", "RSA", "EXPORT">>} -> <<"DHE", "RSA">>
    [] pre \in {<<"DH", "anon">>, <<"DH", "anon", "EXPORT">>} -> <<"DH", "NULL">>
    [] pre = <<"ECDH", "ECDSA">> -> <<"ECDH", "ECDSA">> [] pre = <<"ECDH", "RSA">> -> <<"ECDH", "RSA">>
    [] pre = <<"ECDHE", "ECDSA">> -> <<"ECDHE", "ECDSA">> [] pre = <<"ECDHE", "RSA">> -> <<"ECDHE", "RSA">>
    [] pre = <<"ECDH", "anon">> -> <<"ECDH", "NULL">>
    [] pre \in {<<"KRB5">>, <<"KRB5", "EXPORT">>} -> <<"KRB5", "KRB5">>
    [] pre = <<"PSK">> -> <<"PSK", "PSK">>
    [] pre \in {<<"DHE", "PSK">>, <<"PSK", "DHE">>} -> <<"DHE", "PSK">>
    [] pre = <<"RSA", "PSK">> -> <<"RSA", "PSK">> [] pre = <<"ECDHE", "PSK">> -> <<"ECDHE", "PSK">>
    [] pre = <<"SRP", "SHA">> -> <<"SRP", "SRP">>
    [] pre = <<"SRP", "SHA", "RSA">> -> <<"SRP", "SRP+RSA">> [] pre = <<"SRP", "SHA", "DSS">> -> <<"SRP", "SRP+DSS">>
    [] pre = <<"ECCPWD">> -> <<"ECCPWD", "ECCPWD">>
    [] OTHER -> <<"?", "?">>
EncOfToken(t) == CASE t \in {"NULL", "SHA256", "SHA384"} -> "NULL" [] t = "DES40" -> "DES"
                   [] t = "CHACHA20" -> "CHACHA20_POLY1305" [] OTHER -> t
NameAgrees(r) ==
  IF IsScsv(r) THEN r.kx = "NULL" /\ r.au = "NULL" /\ r.enc = "NULL" /\ r.mac = "NULL" /\ r.bits = 0 /\ r.macbits = 0
  ELSE LET wi == IndexOf(r.toks, "WITH")
           ct == IF wi = 0 THEN SubSeq(r.toks, 2, Len(r.toks)) ELSE SubSeq(r.toks, wi + 1, Len(r.toks))
           ka == IF wi = 0 THEN <<"TLS13", "TLS13">> ELSE KxAuOf(SubSeq(r.toks, 2, wi - 1))
           lst == ct[Len(ct)]
           aead == r.mode \in {"GCM", "CCM"} \/ r.enc = "CHACHA20_POLY1305"
       IN /\ r.kx = ka[1] /\ r.au = ka[2]
          /\ r.enc = EncOfToken(ct[1])
          /\ (r.mode \in {"CBC", "GCM", "CCM"} => Has(ct, r.mode)) /\ (r.mode \in {"", "NULL"} => ~Has(ct, "CBC") /\ ~Has(ct, "GCM") /\ ~Has(ct, "CCM"))
          /\ (\E b \in {"40", "56", "128", "256"} : Has(ct, b)) => Has(ct, ToString(r.bits))
          /\ (r.enc = "3DES" => r.bits = 168) /\ (r.enc = "NULL" => r.bits = 0)
          /\ IF aead THEN r.mac = "AEAD" /\ r.macbits \in {128, 256}
             ELSE /\ (lst = "MD5" => r.mac = "HMAC-MD5" /\ r.macbits = 128) /\ (lst = "SHA" => r.mac = "HMAC-SHA1" /\ r.macbits = 160)
                  /\ (lst = "SHA256" => r.mac = "HMAC-SHA256" /\ r.macbits = 256) /\ (lst = "SHA384" => r.mac = "HMAC-SHA384" /\ r.macbits = 384)
                  /\ (lst = "SHA512" => r.mac = "HMAC-SHA512" /\ r.macbits = 512)
          /\ (lst \in {"MD5", "SHA", "CCM", "8"} => r.prf = "DEFAULT") /\ (lst \in {"SHA256", "SHA384", "SHA512", "SM3"} => r.prf = lst)
(* derived-size consistency: MAC bits / 8 = HMAC length; key bits divisible by 8 *)
SizesConsistent(r) == (r.mac \notin {"NULL", "AEAD"} => 8 * MacLen(r.mac) = r.macbits /\ r.bits % 8 = 0)
TableWellFormed(T) == UniqueIds(T) /\ UniqueNames(T) /\ \A j \in 1..Len(T) : NameAgrees(T[j]) /\ SizesConsistent(T[j])
=============================================================================
