------------------------------- MODULE Corpus -------------------------------
(***************************************************************************)
(* Valid but unusual protocol values shared by several bounded models:     *)
(* values on which an implementation is tempted to do more than decode     *)
(* (the RFC 8446 magic ServerHello.random values, extension blocks whose   *)
(* decoding has corner cases, names that are long / multi-byte / not       *)
(* UTF-8).  The specification attaches no meaning to any of them: they     *)
(* decode like every other value of their type.                            *)
(***************************************************************************)
EXTENDS Calls

CxRandoms == <<HrrRandom, Fill(1, 24) \o Downgrade12, Fill(2, 24) \o Downgrade11>>
CxSids == <<None, Some(<<7>>), Some(Fill(3, 32))>>
CxPlainExts == <<None, Some(<<>>), Some(<<0, 23, 0, 0>>), Some(Fill(6, 300))>>
(* supported_versions with an empty list / selected_version / a ticket / two extensions *)
CxCornerExts == <<Some(<<0, 43, 0, 1, 0>>), Some(<<0, 43, 0, 2, 3, 4>>), Some(<<0, 35, 0, 3, 1, 2, 3>>),
                  Some(<<0, 43, 0, 3, 2, 3, 4, 0, 51, 0, 2, 0, 29>>)>>
CxMagicHellos == Concat([r \in 1..3 |-> Concat([x \in 1..4 |-> <<
   [t |-> "ServerHello", ver |-> <<769, 770, 771>>[r], random |-> CxRandoms[r], sid |-> CxSids[(x % 3) + 1], cipher |-> 4865, comp |-> 0, ext |-> CxCornerExts[x]],
   [t |-> "ServerHello", ver |-> 771, random |-> CxRandoms[r], sid |-> None, cipher |-> 4866, comp |-> 0, ext |-> CxPlainExts[x]],
   [t |-> "ClientHello", ver |-> 771, random |-> CxRandoms[r], sid |-> CxSids[(x % 3) + 1], ciphers |-> <<4865>>, comp |-> <<0>>, ext |-> CxCornerExts[x]],
   [t |-> "ServerHelloV13Draft18", ver |-> 32530, random |-> CxRandoms[r], cipher |-> 4865, ext |-> CxCornerExts[x]] >>])])

(* names: bytes, not text *)
CxRep(s, n) == Concat([j \in 1..n |-> s])
CxA(n) == [j \in 1..n |-> 97]
(* the ASCII bytes of a string literal (only the characters used below) *)
CxChars == "abcdefghijklmnopqrstuvwxyzABCDEFGHIJKLMNOPQRSTUVWXYZ0123456789-.*[]:%"
CxCode(ch) == CASE ch \in 1..26 -> 96 + ch [] ch \in 27..52 -> 64 + (ch - 26) [] ch \in 53..62 -> 47 + (ch - 52)
                [] ch = 63 -> 45 [] ch = 64 -> 46 [] ch = 65 -> 42 [] ch = 66 -> 91 [] ch = 67 -> 93 [] ch = 68 -> 58 [] ch = 69 -> 37
CxStr(str) == [j \in 1..Len(str) |-> CxCode(CHOOSE ch \in 1..Len(CxChars) : SubSeq(CxChars, ch, ch) = SubSeq(str, j, j))]
CxNames == << CxRep(<<195, 169>>, 128),                       \* 256 bytes of two-byte characters
              CxA(254) \o <<226, 130, 172>>,                  \* a three-byte character across bytes 255..257
              CxA(253) \o <<240, 159, 146, 169>> \o CxA(40),   \* a four-byte character across bytes 254..257
              CxA(255) \o <<195, 169>> \o CxA(300),
              <<255, 254, 253>>, <<128>>, <<195>>,            \* not UTF-8: invalid bytes, lone continuation, truncated
              CxA(200) \o <<237, 160, 128>>,                  \* an encoded surrogate
              <<0>>, <<97, 0, 98>>, <<97, 46>>, <<46>>, <<97, 46, 98, 46>>,   \* NUL bytes, trailing dots
              CxRep(<<226, 130, 172>>, 21000),                 \* 63000 bytes of three-byte characters
              (* runs of 2-, 3- and 4-byte characters at every alignment: whatever byte offset a text-minded implementation cuts at, *)
              (* one of these has a character straddling it                                                                           *)
              CxRep(<<195, 169>>, 150), CxA(1) \o CxRep(<<195, 169>>, 150),
              CxRep(<<226, 130, 172>>, 100), CxA(1) \o CxRep(<<226, 130, 172>>, 100), CxA(2) \o CxRep(<<226, 130, 172>>, 100),
              CxRep(<<240, 159, 146, 169>>, 75), CxA(1) \o CxRep(<<240, 159, 146, 169>>, 75), CxA(2) \o CxRep(<<240, 159, 146, 169>>, 75),
              CxA(3) \o CxRep(<<240, 159, 146, 169>>, 75),
              (* ASCII names a text-minded implementation may try to interpret: IDNA A-labels (well formed, degenerate, with extreme *)
              (* digits), IP literals, wildcards, percent escapes, very long labels                                                  *)
              <<97, 226, 128, 168, 98>>, <<226, 128, 169>>, <<97, 226, 128, 168>>, <<226, 128, 168, 226, 128, 169, 46, 99>>,   \* U+2028 / U+2029
              <<1, 27, 127, 10, 13, 9>>, <<239, 187, 191, 97>>, <<226, 128, 174, 97, 98>>, <<97, 194, 133, 98>>, <<194, 160>>,   \* controls, BOM, RLO, NEL, NBSP
              CxStr("xn--mnchen-3ya.example"), CxStr("xn--9999999999"), CxStr("xn--"), CxStr("xn--a"), CxStr("XN--ZZZZZZZZZZZZZZZZZZZZ"),
              CxStr("xn--99999999999999999999999999999999999999.xn--zzzzzzzzzzzzzzzz9"), CxStr("a.xn---.b"), CxStr("xn--0"),
              CxStr("[::1]"), CxStr("127.0.0.1"), CxStr("*.example.com"), CxStr("%00%ff%zz"), CxStr("..") , CxA(63) \o <<46>> \o CxA(64) \o <<46>> \o CxA(200) >>
(* a valid prefix, then a multi-byte character cut short at the END of the name (1 of 2, 1-2 of 3, 1-3 of 4 bytes), or followed by ASCII *)
CxTruncTails == << <<195>>, <<226>>, <<226, 130>>, <<240>>, <<240, 159>>, <<240, 159, 146>>, <<195, 40>>, <<226, 130, 40>>, <<244, 144>>, <<237, 160>> >>
CxTruncNames == Concat([q \in 1..3 |-> [t \in 1..Len(CxTruncTails) |-> << <<>>, <<99>>, <<99, 97, 102>> >>[q] \o CxTruncTails[t]]])
CxSniVals == [k \in 1..(Len(CxNames) + Len(CxTruncNames)) |->
               [t |-> "SNI", tag |-> 0, names |-> <<[nt |-> 0, name |-> IF k <= Len(CxNames) THEN CxNames[k] ELSE CxTruncNames[k - Len(CxNames)]]>>]]
CxAlpnVals == [k \in 1..7 |-> [t |-> "ALPN", tag |-> 16, protos |-> << <<CxRep(<<195, 169>>, 127)>>, <<CxA(253) \o <<195, 169>>>>,
                                                                    <<<<255>>, <<195>>, <<0>>>>,
                                                                    <<CxRep(<<195, 169>>, 100), CxA(1) \o CxRep(<<195, 169>>, 100)>>,
                                                                    <<CxRep(<<226, 130, 172>>, 80), CxA(1) \o CxRep(<<226, 130, 172>>, 80), CxA(2) \o CxRep(<<226, 130, 172>>, 80)>>,
                                                                    <<CxRep(<<240, 159, 146, 169>>, 60), CxA(1) \o CxRep(<<240, 159, 146, 169>>, 60)>>,
                                                                    <<CxA(2) \o CxRep(<<240, 159, 146, 169>>, 60), CxA(3) \o CxRep(<<240, 159, 146, 169>>, 60)>> >>[k]]]
CxAlpnTrunc == << [t |-> "ALPN", tag |-> 16, protos |-> CxTruncNames],
                   [t |-> "ALPN", tag |-> 16, protos |-> <<<<99, 97, 102, 195>>>>], [t |-> "ALPN", tag |-> 16, protos |-> <<<<104, 50>>, <<97, 226, 130>>>>],
                   [t |-> "ALPN", tag |-> 16, protos |-> <<<<240, 159, 146>>, <<104, 50>>>>] >>
CxExtVals == CxSniVals \o CxAlpnVals \o CxAlpnTrunc

CxHelloWith(extblock) == [t |-> "ClientHello", ver |-> 771, random |-> Fill(11, 32), sid |-> None, ciphers |-> <<4865, 47>>, comp |-> <<0>>,
                          ext |-> Some(extblock)]
CxNoArgs == [len |-> 0, ext |-> 0, ct |-> 0, ver |-> 0, sub |-> ""]
CxCase(fn, bytes) == [fn |-> fn, a |-> CxNoArgs, parts |-> <<Lit(bytes)>>]
(* every value through the entry points that reach it, from the innermost parser to a whole record *)
CxCases ==
  Concat([j \in 1..Len(CxMagicHellos) |->
    LET h == CxMagicHellos[j]  enc == EncHs(h) IN
    << CxCase("parse_tls_message_handshake", enc), CxCase("parse_tls_plaintext", EncRecordRaw(22, 771, enc)),
       CxCase("tls_parser", EncRecordRaw(22, 769, enc)),
       IF h.t = "ClientHello" THEN CxCase("deep_client_hello", enc)
       ELSE CxCase("parse_tls_server_hello_extensions", IF h.ext = None THEN <<>> ELSE h.ext[1]) >>])
  \o Concat([j \in 1..Len(CxExtVals) |->
    LET x == CxExtVals[j]  enc == EncExt(x) IN
    << CxCase("parse_tls_extension", enc), CxCase("parse_tls_client_hello_extension", enc), CxCase("parse_tls_server_hello_extension", enc),
       CxCase("parse_tls_extensions", enc \o <<0, 23, 0, 0>>) >>
    \o (IF x.t = "SNI" THEN <<CxCase("parse_tls_extension_sni", enc), CxCase("parse_tls_extension_sni_content", EncExtData(x))>>
        ELSE <<CxCase("parse_tls_extension_alpn_content", EncExtData(x))>>)
    \o (IF Len(enc) < 60000 THEN <<CxCase("deep_client_hello", EncHs(CxHelloWith(enc))), CxCase("parse_tls_plaintext", EncRecordRaw(22, 771, EncHs(CxHelloWith(enc))))>> ELSE <<>>)])
=============================================================================
