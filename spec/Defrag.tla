------------------------------- MODULE Defrag -------------------------------
(***************************************************************************)
(* TlsRecordsParser (src/tls_records_parser.rs) as a state machine.        *)
(*                                                                         *)
(* State: buf (the defragmentation buffer, a byte string) and cur (the     *)
(* content type being defragmented, -1 when idle).  Operations: the three  *)
(* public methods.  `Step(st, op)' is a total function with one branch per *)
(* code path, each named; `Next' picks any operation of the universe.      *)
(*                                                                         *)
(* Named deviations kept as the code has them:                             *)
(*   PseudoHeaderLenWraps   - the pseudo header carries len(buf) mod 2^16  *)
(*   BufferKeptAfterSuccess - completion clears the type, not the buffer   *)
(*   StillInProgressAfterHardError - a continuation whose re-parse fails   *)
(*     with a real error leaves defragmentation in progress                *)
(* NORMATIVE: an empty first fragment starts defragmentation like any      *)
(* other (no assertion on the buffer).                                     *)
(***************************************************************************)
EXTENDS TlsRecord

CONSTANT MaxRecordData   \* 10 MiB in the code; small in bounded models

OpRecord(ct, ver, data) == [op |-> "parse_record", ct |-> ct, ver |-> ver, data |-> data]
OpNoCopy(ct, ver, data) == [op |-> "nocopy", ct |-> ct, ver |-> ver, data |-> data]
OpReset == [op |-> "reset", ct |-> 0, ver |-> 0, data |-> <<>>]

(* the one-shot record-payload parser on a byte string *)
OneShot(ct, data, hdrLen) == DecPayload(ct, data, 0, Len(data), hdrLen)

IsCompleteErr(r) == r.k \in {"err", "fail"} /\ r.e = "Complete"
NeedMore(r) == r.k = "inc" \/ IsCompleteErr(r)
IncUnknown == Inc(-1)

(* a step yields the result, the new state, where the result's slices live, and the path taken *)
Out(res, buf, cur, src, path) == [res |-> res, buf |-> buf, cur |-> cur, src |-> src, path |-> path]

S_Reset == Out(Ok(0, <<>>), <<>>, -1, "none", "Reset")

S_NoCopy(st, op) ==
  IF st.cur # -1 THEN Out(Fail("NonEmpty"), st.buf, st.cur, "none", "NoCopy_Refuse")
  ELSE LET r == OneShot(op.ct, op.data, Len(op.data)) IN
       IF IsCompleteErr(r) THEN Out(IncUnknown, st.buf, st.cur, "none", "NoCopy_NeedMore")
       ELSE Out(r, st.buf, st.cur, "rec", "NoCopy_Parse")

S_First(st, op) ==
  LET r == OneShot(op.ct, op.data, Len(op.data)) IN
  IF r.k = "ok" THEN Out(r, st.buf, st.cur, "rec", "First_Complete")
  ELSE IF NeedMore(r) THEN Out(IncUnknown, op.data, op.ct, "none", "First_StartDefrag")
  ELSE Out(r, st.buf, st.cur, "none", "First_Error")

S_Continue(st, op) ==
  LET nb == st.buf \o op.data
      r  == OneShot(op.ct, nb, Len(nb) % 65536)          \* PseudoHeaderLenWraps
  IN IF r.k = "ok" THEN Out(r, nb, -1, "buf", "Cont_Complete")   \* BufferKeptAfterSuccess
     ELSE IF IsCompleteErr(r) THEN Out(IncUnknown, nb, st.cur, "none", "Cont_NeedMore")
     ELSE Out(r, nb, st.cur, "none", "Cont_Error")               \* StillInProgressAfterHardError

Step(st, op) ==
  CASE op.op = "reset"  -> S_Reset
    [] op.op = "nocopy" -> S_NoCopy(st, op)
    [] op.op = "parse_record" /\ st.cur = -1 /\ op.ct \in {CtAlert, CtChangeCipherSpec} -> S_NoCopy(st, op)
    [] op.op = "parse_record" /\ st.cur = -1 -> S_First(st, op)
    [] op.op = "parse_record" /\ op.ct # st.cur -> Out(Err("Tag"), st.buf, st.cur, "none", "Cont_WrongType")
    [] op.op = "parse_record" /\ Len(st.buf) + Len(op.data) >= MaxRecordData ->
         Out(Err("TooLarge"), st.buf, st.cur, "none", "Cont_TooLarge")
    [] OTHER -> S_Continue(st, op)

InitState == [buf |-> <<>>, cur |-> -1]
=============================================================================
