------------------------------ MODULE DefragLen ------------------------------
(***************************************************************************)
(* The defragmenter with the buffer abstracted to its length and the       *)
(* one-shot parser abstracted to a nondeterministic verdict: the same      *)
(* control structure as Defrag!Step (one disjunct per code path), for      *)
(* UNBOUNDED parameters.  BufferBound - for records within the record      *)
(* length cap the buffer never reaches MaxRecordData - is proved as an     *)
(* inductive invariant with TLAPS (and checked by TLC on small constants). *)
(***************************************************************************)
EXTENDS Integers, TLAPS

CONSTANTS MaxRecordData, MaxRecordLen
ASSUME Params == MaxRecordData \in Nat /\ MaxRecordLen \in Nat /\ MaxRecordLen < MaxRecordData

VARIABLES blen,   \* length of the defragmentation buffer
          cur     \* content type being defragmented, -1 when idle
vars == <<blen, cur>>
Types == 0..255
RecLen == 0..MaxRecordLen          \* records within the record-length cap

Init == blen = 0 /\ cur = -1
Reset == blen' = 0 /\ cur' = -1
NoCopy == UNCHANGED vars                                   \* refused, need-more or parsed: never touches the state
First_AlertOrCcs == cur = -1 /\ UNCHANGED vars
First_CompleteOrError == cur = -1 /\ UNCHANGED vars        \* parsed on its own, or a hard error
First_StartDefrag(t, n) == cur = -1 /\ blen' = n /\ cur' = t
Cont_WrongType(t) == cur # -1 /\ t # cur /\ UNCHANGED vars
Cont_TooLarge(t, n) == cur = t /\ blen + n >= MaxRecordData /\ UNCHANGED vars
Cont_Complete(t, n) == cur = t /\ blen + n < MaxRecordData /\ blen' = blen + n /\ cur' = -1      \* BufferKeptAfterSuccess
Cont_NeedMoreOrError(t, n) == cur = t /\ blen + n < MaxRecordData /\ blen' = blen + n /\ UNCHANGED cur

Next == \/ Reset \/ NoCopy \/ First_AlertOrCcs \/ First_CompleteOrError
        \/ \E t \in Types, n \in RecLen :
              \/ First_StartDefrag(t, n) \/ Cont_WrongType(t) \/ Cont_TooLarge(t, n)
              \/ Cont_Complete(t, n) \/ Cont_NeedMoreOrError(t, n)
Spec == Init /\ [][Next]_vars

TypeOK == blen \in Nat /\ cur \in Types \cup {-1}
BufferBound == blen < MaxRecordData
Inv == TypeOK /\ BufferBound

THEOREM Safety == Spec => []Inv
<1>1. Init => Inv
  BY Params DEF Init, Inv, TypeOK, BufferBound
<1>2. Inv /\ [Next]_vars => Inv'
  <2> SUFFICES ASSUME Inv, [Next]_vars PROVE Inv'
    OBVIOUS
  <2>1. CASE UNCHANGED vars
    BY <2>1 DEF Inv, TypeOK, BufferBound, vars
  <2>2. CASE Reset
    BY <2>2, Params DEF Reset, Inv, TypeOK, BufferBound
  <2>3. CASE NoCopy \/ First_AlertOrCcs \/ First_CompleteOrError
    BY <2>3 DEF NoCopy, First_AlertOrCcs, First_CompleteOrError, Inv, TypeOK, BufferBound, vars
  <2>4. ASSUME NEW t \in Types, NEW n \in RecLen,
               \/ First_StartDefrag(t, n) \/ Cont_WrongType(t) \/ Cont_TooLarge(t, n)
               \/ Cont_Complete(t, n) \/ Cont_NeedMoreOrError(t, n)
        PROVE Inv'
    BY <2>4, Params DEF First_StartDefrag, Cont_WrongType, Cont_TooLarge, Cont_Complete, Cont_NeedMoreOrError,
                        Inv, TypeOK, BufferBound, vars, Types, RecLen
  <2>5. QED
    BY <2>1, <2>2, <2>3, <2>4 DEF Next
<1>3. QED
  BY <1>1, <1>2, PTL DEF Spec
=============================================================================
