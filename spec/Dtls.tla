--------------------------------- MODULE Dtls ---------------------------------
(***************************************************************************)
(* DTLS records and handshake fragments, RFC 6347 (src/dtls.rs).           *)
(***************************************************************************)
EXTENDS TlsRecord

(* 13-byte header: type, version, epoch (first 2 of the 8 bytes), 48-bit sequence *)
(* number (three 16-bit limbs), length                                            *)
DtlsHeader(b, o, e) ==
  Bind(U8(b, o, e), LAMBDA ct :
  Bind(U16(b, ct.p, e), LAMBDA ver :
  Bind(U64(b, ver.p, e), LAMBDA es :
  Bind(U16(b, es.p, e), LAMBDA len :
    Ok(len.p, [ct |-> ct.v, ver |-> ver.v, epoch |-> es.v[1],
               seq |-> <<es.v[2], es.v[3], es.v[4]>>, len |-> len.v])))))

DecDtlsClientHello(b, o, e) ==
  Bind(U16(b, o, e), LAMBDA ver :
  Bind(Take(b, ver.p, e, 32), LAMBDA rnd :
  Bind(SessionId(b, rnd.p, e), LAMBDA sid :
  Bind(LenData8(b, sid.p, e), LAMBDA ck :
  Bind(U16(b, ck.p, e), LAMBDA cl :
  Bind(U16List(b, cl.p, e, cl.v), LAMBDA cs :
  Bind(U8(b, cs.p, e), LAMBDA col :
  Bind(U8List(b, col.p, e, col.v), LAMBDA co :
  Bind(ExtBlockOptComplete(b, co.p, e), LAMBDA ex :
    Ok(ex.p, [t |-> "DClientHello", ver |-> ver.v, random |-> rnd.v, sid |-> sid.v, cookie |-> ck.v,
              ciphers |-> cs.v, comp |-> co.v, ext |-> ex.v]))))))))))

DecHelloVerifyRequest(b, o, e) ==
  Bind(U16(b, o, e), LAMBDA ver :
  Bind(LenData8(b, ver.p, e), LAMBDA ck :
    Ok(ck.p, [t |-> "HelloVerifyRequest", ver |-> ver.v, cookie |-> ck.v])))

(* FragmentRule *)
IsFragment(off, flen, len) == off > 0 \/ flen < len

DtlsBody(b, s, t, mt, len, frag) ==
  IF frag THEN Ok(t, [t |-> "Fragment", data |-> Slice(b, s, t - s)])
  ELSE CASE mt = HtClientHello        -> DecDtlsClientHello(b, s, t)
         [] mt = HtHelloVerifyRequest -> DecHelloVerifyRequest(b, s, t)
         [] mt = HtServerHello        -> DecServerHelloV12(b, s, t, TRUE)
         [] mt = HtServerDone         -> DecOpaqueBody(b, s, t, len, "ServerDone")
         [] mt = HtClientKeyExchange  -> DecClientKeyExchange(b, s, t, len)
         [] mt = HtCertificate        -> DecCertificate(b, s, t)
         [] OTHER                     -> Err("Switch")

(* 12-byte handshake header, then exactly fragment_length bytes *)
DecDtlsHandshake(b, o, e) ==
  Bind(U8(b, o, e), LAMBDA mt :
  Bind(U24(b, mt.p, e), LAMBDA len :
  Bind(U16(b, len.p, e), LAMBDA ms :
  Bind(U24(b, ms.p, e), LAMBDA off :
  Bind(U24(b, off.p, e), LAMBDA fl :
  Bind(Window(b, fl.p, e, fl.v), LAMBDA w :
    LET frag == IsFragment(off.v, fl.v, len.v)
        body == DtlsBody(b, w.v[1], w.v[2], mt.v, len.v, frag)
    IN IF body.k = "ok"
       THEN Ok(w.p, [t |-> "hs", mt |-> mt.v, len |-> len.v, mseq |-> ms.v, off |-> off.v,
                     flen |-> fl.v, body |-> body.v, frag |-> frag])
       ELSE body))))))

DecDtlsCcs(b, o, e) ==
  Map(Verify(U8(b, o, e), LAMBDA x : x = 1), LAMBDA x : [t |-> "ccs", frag |-> FALSE])
DecDtlsAlert(b, o, e) ==
  Bind(U8(b, o, e), LAMBDA s :
  Bind(U8(b, s.p, e), LAMBDA c :
    Ok(c.p, [t |-> "alert", sev |-> s.v, code |-> c.v, frag |-> FALSE])))

DecDtlsPayload(ct, b, o, e) ==
  CASE ct = CtChangeCipherSpec -> Many1(LAMBDA p : Complete(DecDtlsCcs(b, p, e)), o, e)
    [] ct = CtAlert            -> Many1(LAMBDA p : Complete(DecDtlsAlert(b, p, e)), o, e)
    [] ct = CtHandshake        -> Many1(LAMBDA p : Complete(DecDtlsHandshake(b, p, e)), o, e)
    [] OTHER                   -> Err("Switch")

ParseDtlsRecord(b, o, e) ==
  Bind(DtlsHeader(b, o, e), LAMBDA h :
    IF h.v.len > MaxRecordLen THEN Err("TooLarge")
    ELSE Map(MapParser(Window(b, h.p, e, h.v.len), LAMBDA s, t : DecDtlsPayload(h.v.ct, b, s, t)),
             LAMBDA ms : [hdr |-> h.v, msgs |-> ms]))

ParseDtlsRecords(b, o, e) == Many1(LAMBDA p : Complete(ParseDtlsRecord(b, p, e)), o, e)

-----------------------------------------------------------------------------
(* RFC 6347 encoders *)
EncDtlsHeader(h) == <<h.ct>> \o BE16(h.ver) \o BE16(h.epoch) \o Limbs2Bytes(h.seq) \o BE16(h.len)
EncDtlsBody(v) ==
  CASE v.t = "DClientHello" ->
         BE16(v.ver) \o v.random \o EncSid(v.sid) \o <<Len(v.cookie)>> \o v.cookie
         \o BE16(2 * Len(v.ciphers)) \o EncU16s(v.ciphers) \o <<Len(v.comp)>> \o v.comp \o EncOpt16(v.ext)
    [] v.t = "HelloVerifyRequest" -> BE16(v.ver) \o <<Len(v.cookie)>> \o v.cookie
    [] v.t = "Fragment" -> v.data
    [] OTHER -> EncHsBody(v)
(* handshake message with explicit header fields *)
EncDtlsHs(mt, len, mseq, off, flen, bodyBytes) ==
  <<mt>> \o BE24(len) \o BE16(mseq) \o BE24(off) \o BE24(flen) \o bodyBytes
EncDtlsRecord(ct, ver, epoch, seq, payload) ==
  EncDtlsHeader([ct |-> ct, ver |-> ver, epoch |-> epoch, seq |-> seq, len |-> Len(payload)]) \o payload
=============================================================================
