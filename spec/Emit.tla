-------------------------------- MODULE Emit --------------------------------
(***************************************************************************)
(* Case emission (spec -> implementation direction): one JSON line per     *)
(* case, appended to the file named by the environment variable VERIF_OUT. *)
(* A model-checking run is split over several TLC processes; process       *)
(* VERIF_CHUNK (0-based) of VERIF_NCHUNKS walks the case indices           *)
(* congruent to its number.                                                *)
(***************************************************************************)
EXTENDS Integers, Sequences, TLC, Json, IOUtils

EmitLine(rec) ==
  Serialize(ToJson(rec) \o "\n", IOEnv.VERIF_OUT,
            [format |-> "TXT", charset |-> "UTF-8",
             openOptions |-> <<"WRITE", "CREATE", "APPEND">>]).exitValue = 0

NChunks == atoi(IOEnv.VERIF_NCHUNKS)
Chunk   == atoi(IOEnv.VERIF_CHUNK)

(* VERIF_TIER=thorough enlarges the pools of the bounded models *)
Thorough == IOEnv.VERIF_TIER = "thorough"

NoArgs == [len |-> 0, ext |-> 0, ct |-> 0, ver |-> 0, sub |-> ""]

CaseLine(id, fn, a, parts, expect, pin, note) ==
  [id |-> id, fn |-> fn, a |-> a, input |-> parts, expect |-> expect, pin |-> pin, note |-> note]
=============================================================================
