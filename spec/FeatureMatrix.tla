---------------------------- MODULE FeatureMatrix ----------------------------
(***************************************************************************)
(* C18: the feature sets of the crate and what each must do.  Tiny on      *)
(* purpose: it exists so that the observations (cargo exit status per      *)
(* feature set, result digests of the differential corpus, the unsafe scan,*)
(* the Send/Sync compile-time assertions) are judged by the same mechanism *)
(* as everything else.                                                     *)
(***************************************************************************)
EXTENDS Integers, Sequences, FiniteSets, TLC

Configs == {"default", "none", "std+serialize", "serialize-only"}
Buildable == {"default", "none", "std+serialize"}
(* serialize without std is refused at compile time, by the crate's own compile_error! *)
Expected(c) == IF c \in Buildable THEN [builds |-> TRUE, refused_by_crate |-> FALSE]
               ELSE [builds |-> FALSE, refused_by_crate |-> TRUE]

ConfigOk(e) == e.builds = Expected(e.config).builds /\ (~e.builds => e.compile_error = Expected(e.config).refused_by_crate)
(* the parsers return identical results in every buildable configuration *)
DigestsAgree(evs) == \A a, b \in {evs[k] : k \in 1..Len(evs)} :
                        (a.config \in Buildable /\ b.config \in Buildable /\ a.builds /\ b.builds) => a.digest = b.digest
AllConfigsSeen(evs) == {evs[k].config : k \in 1..Len(evs)} = Configs
NoUnsafe(s) == s.forbid_attribute /\ s.unsafe_tokens = 0
SendSync(s) == s.sendsync_compiles
=============================================================================
