-------------------------------- MODULE Hello --------------------------------
(***************************************************************************)
(* ClientHello trait accessors, constructors and the cipher lookups         *)
(* (src/tls_handshake.rs:201-359, src/dtls.rs:59-83).                       *)
(***************************************************************************)
EXTENDS Integers, Sequences, SequencesExt, TLC, CipherTable

(* rand_time(): the big-endian u32 formed by the first four random bytes (as two 16-bit limbs); *)
(* 0 when the random has fewer than four bytes                                                   *)
RandTime(r) == IF Len(r) >= 4 THEN <<r[1] * 256 + r[2], r[3] * 256 + r[4]>> ELSE <<0, 0>>
(* rand_bytes(): the remaining bytes (28 of a 32-byte random) *)
RandBytes(r) == IF Len(r) >= 4 THEN SubSeq(r, 5, Len(r)) ELSE <<>>
RandomPartition(r) == Len(r) >= 4 =>
  <<RandTime(r)[1] \div 256, RandTime(r)[1] % 256, RandTime(r)[2] \div 256, RandTime(r)[2] % 256>> \o RandBytes(r) = r

HexChars == <<"0", "1", "2", "3", "4", "5", "6", "7", "8", "9", "a", "b", "c", "d", "e", "f">>
Hex4(n) == HexChars[((n \div 4096) % 16) + 1] \o HexChars[((n \div 256) % 16) + 1] \o HexChars[((n \div 16) % 16) + 1] \o HexChars[(n % 16) + 1]
Listed == {Current[j].hex : j \in 1..Len(Current)}
(* cipher_suites() / get_ciphers() / get_cipher(): each advertised id, in order, to its registry entry or None *)
Lookup(id) == IF Hex4(id) \in Listed THEN Hex4(id) ELSE "none"
CipherSuites(ids) == [j \in 1..Len(ids) |-> Lookup(ids[j])]

(* what every accessor must return for a hello with these fields *)
Accessors(ver, random, sid, ciphers, comp, ext) ==
  [version |-> ver, random |-> random, session_id |-> sid, ciphers |-> ciphers, comp |-> comp, ext |-> ext,
   rand_time |-> RandTime(random), rand_bytes |-> RandBytes(random), cipher_suites |-> CipherSuites(ciphers)]
=============================================================================
