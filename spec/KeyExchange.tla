----------------------------- MODULE KeyExchange -----------------------------
(***************************************************************************)
(* ServerDHParams, ECParameters, ServerECDHParams, ECPoint, DigitallySigned *)
(* and parse_content_and_signature (src/tls_dh.rs, tls_ec.rs,              *)
(* tls_sign_hash.rs), with the RFC 4492 / 5246 encoders.                   *)
(***************************************************************************)
EXTENDS Nom

DecDhParams(b, o, e) ==
  Bind(LenData16(b, o, e), LAMBDA p :
  Bind(LenData16(b, p.p, e), LAMBDA g :
  Bind(LenData16(b, g.p, e), LAMBDA ys :
    Ok(ys.p, [p |-> p.v, g |-> g.v, ys |-> ys.v]))))

DecEcPoint(b, o, e) == Map(LenData8(b, o, e), LAMBDA d : [point |-> d])

(* ExplicitPrimeContent: prime_p, curve (a, b), base point, order, cofactor: all u8-length *)
DecExplicitPrime(b, o, e) ==
  Bind(LenData8(b, o, e), LAMBDA pp :
  Bind(LenData8(b, pp.p, e), LAMBDA ca :
  Bind(LenData8(b, ca.p, e), LAMBDA cb :
  Bind(LenData8(b, cb.p, e), LAMBDA bs :
  Bind(LenData8(b, bs.p, e), LAMBDA od :
  Bind(LenData8(b, od.p, e), LAMBDA cf :
    Ok(cf.p, [t |-> "ExplicitPrime", p |-> pp.v, a |-> ca.v, b |-> cb.v, base |-> bs.v,
              order |-> od.v, cofactor |-> cf.v])))))))

(* CurveTypeRule: selector 1 -> explicit prime, 3 -> named group, anything else Switch *)
(* (DecEcContent is the public selector-taking parser ECParametersContent::parse(i, curve_type)) *)
DecEcContent(ct, b, o, e) ==
  IF ct = 1 THEN DecExplicitPrime(b, o, e)
  ELSE IF ct = 3 THEN Map(U16(b, o, e), LAMBDA g : [t |-> "NamedGroup", g |-> g])
  ELSE Err("Switch")
DecEcParameters(b, o, e) ==
  Bind(U8(b, o, e), LAMBDA ct :
    Map(DecEcContent(ct.v, b, ct.p, e), LAMBDA cv : [ct |-> ct.v, content |-> cv]))

DecEcdhParams(b, o, e) ==
  Bind(DecEcParameters(b, o, e), LAMBDA pr :
  Bind(LenData8(b, pr.p, e), LAMBDA pu :
    Ok(pu.p, [params |-> pr.v, public |-> pu.v])))

DecSignedOld(b, o, e) == Map(LenData16(b, o, e), LAMBDA d : [alg |-> None, data |-> d])
DecSigned(b, o, e) ==
  Bind(U8(b, o, e), LAMBDA h :
  Bind(U8(b, h.p, e), LAMBDA s :
  Bind(LenData16(b, s.p, e), LAMBDA d :
    Ok(d.p, [alg |-> Some([hash |-> h.v, sign |-> s.v]), data |-> d.v]))))

(* SignatureFormIffFlag *)
(* "peek": a caller's content parser that takes one byte and reports the byte following it without consuming it (the content *)
(* parser is called once, on the whole input: what it sees after its own value is the signature)                              *)
DecPeekContent(b, o, e) ==
  Bind(U8(b, o, e), LAMBDA x : Bind(U8(b, x.p, e), LAMBDA nx : Ok(x.p, [first |-> x.v, next |-> nx.v])))
DecContentAndSignature(sub, ext, b, o, e) ==
  LET c == IF sub = "dh" THEN DecDhParams(b, o, e)
           ELSE IF sub = "ecdh" THEN DecEcdhParams(b, o, e)
           ELSE IF sub = "peek" THEN DecPeekContent(b, o, e) ELSE DecEcParameters(b, o, e)
  IN Bind(c, LAMBDA cv :
     Bind(IF ext THEN DecSigned(b, cv.p, e) ELSE DecSignedOld(b, cv.p, e), LAMBDA sg :
       Ok(sg.p, [content |-> cv.v, sig |-> sg.v])))

-----------------------------------------------------------------------------
(* RFC encoders (abstract values in content shape) *)
L8(x)  == <<Len(x)>> \o x
L16(x) == BE16(Len(x)) \o x
EncDhParams(v) == L16(v.p) \o L16(v.g) \o L16(v.ys)
EncEcPoint(v)  == L8(v.point)
EncEcParameters(v) ==
  <<v.ct>> \o (IF v.content.t = "NamedGroup" THEN BE16(v.content.g)
               ELSE L8(v.content.p) \o L8(v.content.a) \o L8(v.content.b) \o L8(v.content.base)
                    \o L8(v.content.order) \o L8(v.content.cofactor))
EncEcdhParams(v) == EncEcParameters(v.params) \o L8(v.public)
EncSigned(v) == (IF v.alg = None THEN <<>> ELSE <<v.alg[1].hash, v.alg[1].sign>>) \o L16(v.data)
=============================================================================
