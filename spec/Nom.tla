-------------------------------- MODULE Nom --------------------------------
(***************************************************************************)
(* The result algebra of nom 7 (streaming mode) and one operator per       *)
(* combinator the crate uses.  Checked against nom-7.1.3 sources           *)
(* (bytes/streaming.rs, number/streaming.rs, combinator/mod.rs,            *)
(* multi/mod.rs, branch/mod.rs, error.rs).                                 *)
(*                                                                         *)
(* Every parser takes an explicit window (b, o, e): it may only look at    *)
(* bytes b[o+1 .. e]; `o' is the number of bytes already consumed and `e'  *)
(* the (exclusive) end of the window.  map_parser(take(n), inner) is       *)
(* modelled by running `inner' on the window the `take' produced - that a  *)
(* nested length can never reach into the neighbouring structure is then   *)
(* a checkable property of the specification.                              *)
(*                                                                         *)
(* Results always carry all five fields, because TLC refuses to compare    *)
(* values of different shapes:                                             *)
(*   k = "ok"   p = next offset, v = value                                 *)
(*   k = "inc"  n = Needed (missing bytes; -1 = Needed::Unknown)           *)
(*   k = "err"  e = ErrorKind            (nom::Err::Error)                 *)
(*   k = "fail" e = ErrorKind            (nom::Err::Failure)               *)
(***************************************************************************)
EXTENDS Bytes, TLC

CONSTANT RangeMode   \* TRUE: byte slices are ranges [o, l] of the input (zero-copy view)
                     \* FALSE: byte slices are their contents (for round-trip theorems)

Ok(p, v)   == [k |-> "ok",   p |-> p,  v |-> v,    n |-> 0, e |-> ""]
Inc(n)     == [k |-> "inc",  p |-> -1, v |-> <<>>, n |-> n, e |-> ""]
Err(kind)  == [k |-> "err",  p |-> -1, v |-> <<>>, n |-> 0, e |-> kind]
Fail(kind) == [k |-> "fail", p |-> -1, v |-> <<>>, n |-> 0, e |-> kind]

IsOk(r) == r.k = "ok"

(* A borrowed byte slice of the input.  Zero-length slices reference no   *)
(* byte: only their length is meaningful (offset -1).                     *)
Rng(o, l) == IF l = 0 THEN [o |-> -1, l |-> 0] ELSE [o |-> o, l |-> l]
Slice(b, o, l) == IF RangeMode THEN Rng(o, l) ELSE SubSeq(b, o + 1, o + l)
SliceLen(s) == IF RangeMode THEN s.l ELSE Len(s)
(* length of an extension block slice (the block always ends at the end of its message: hi) *)
SliceLenOfExt(b, s, hi) == SliceLen(s)

None    == <<>>
Some(x) == <<x>>

(* `?' chaining *)
Bind(r, F(_)) == LET x == r IN IF x.k = "ok" THEN F(x) ELSE x
(* map(f, g) *)
Map(r, G(_)) == LET x == r IN IF x.k = "ok" THEN Ok(x.p, G(x.v)) ELSE x

(* number::streaming::be_uN *)
U8(b, o, e)  == IF e - o < 1 THEN Inc(1 - (e - o)) ELSE Ok(o + 1, b[o + 1])
U16(b, o, e) == IF e - o < 2 THEN Inc(2 - (e - o)) ELSE Ok(o + 2, b[o + 1] * 256 + b[o + 2])
U24(b, o, e) == IF e - o < 3 THEN Inc(3 - (e - o))
                ELSE Ok(o + 3, b[o + 1] * 65536 + b[o + 2] * 256 + b[o + 3])
(* 32- and 64-bit integers as 16-bit limbs, most significant first *)
U32(b, o, e) == IF e - o < 4 THEN Inc(4 - (e - o))
                ELSE Ok(o + 4, <<b[o + 1] * 256 + b[o + 2], b[o + 3] * 256 + b[o + 4]>>)
U64(b, o, e) == IF e - o < 8 THEN Inc(8 - (e - o))
                ELSE Ok(o + 8, <<b[o + 1] * 256 + b[o + 2], b[o + 3] * 256 + b[o + 4],
                                 b[o + 5] * 256 + b[o + 6], b[o + 7] * 256 + b[o + 8]>>)

(* bytes::streaming::take *)
Take(b, o, e, n) == IF e - o < n THEN Inc(n - (e - o)) ELSE Ok(o + n, Slice(b, o, n))
(* take as a window for map_parser: value is <<start, end>> regardless of mode *)
Window(b, o, e, n) == IF e - o < n THEN Inc(n - (e - o)) ELSE Ok(o + n, <<o, o + n>>)

(* bytes::streaming::tag *)
TagBytes(b, o, e, t) ==
  LET m == Min2(e - o, Len(t)) IN
  IF \E i \in 1..m : b[o + i] # t[i] THEN Err("Tag")
  ELSE IF e - o < Len(t) THEN Inc(Len(t) - (e - o))
  ELSE Ok(o + Len(t), Slice(b, o, Len(t)))

(* multi::length_data with a u8 / u16 / u24 length *)
LenData8(b, o, e)  == Bind(U8(b, o, e),  LAMBDA r : Take(b, r.p, e, r.v))
LenData16(b, o, e) == Bind(U16(b, o, e), LAMBDA r : Take(b, r.p, e, r.v))
LenData24(b, o, e) == Bind(U24(b, o, e), LAMBDA r : Take(b, r.p, e, r.v))
LenWindow8(b, o, e)  == Bind(U8(b, o, e),  LAMBDA r : Window(b, r.p, e, r.v))
LenWindow16(b, o, e) == Bind(U16(b, o, e), LAMBDA r : Window(b, r.p, e, r.v))
LenWindow24(b, o, e) == Bind(U24(b, o, e), LAMBDA r : Window(b, r.p, e, r.v))

(* combinator::verify *)
Verify(r, P(_)) == LET x == r IN IF x.k = "ok" /\ ~P(x.v) THEN Err("Verify") ELSE x
(* combinator::complete *)
Complete(r) == LET x == r IN IF x.k = "inc" THEN Err("Complete") ELSE x
(* combinator::opt: only Err::Error becomes None *)
Opt(r, o) == LET x == r IN IF x.k = "err" THEN Ok(o, None)
                           ELSE IF x.k = "ok" THEN Ok(x.p, Some(x.v)) ELSE x
(* combinator::cond *)
Cond(c, r, o) == IF c THEN (LET x == r IN IF x.k = "ok" THEN Ok(x.p, Some(x.v)) ELSE x)
                 ELSE Ok(o, None)
(* combinator::map_parser(f, g): f yields the window <<s, t>>; g runs on exactly that *)
(* window; g's remainder is dropped; g's Incomplete propagates unchanged              *)
MapParser(w, G(_, _)) ==
  Bind(w, LAMBDA x : LET g == G(x.v[1], x.v[2]) IN IF g.k = "ok" THEN Ok(x.p, g.v) ELSE g)

(* branch::alt((f, g)) with nom::error::Error: the last error wins *)
Alt2(r1, r2) == LET x == r1 IN IF x.k = "err" THEN r2 ELSE x

(* multi::many0 / many1 as a bounded fold (each productive step consumes at least *)
(* one byte, so (e - start) + 1 iterations always reach a verdict)                 *)
ManyLoop(F(_), start, acc0, e, kind) ==
  LET init == [pos |-> start, acc |-> acc0, done |-> FALSE, res |-> Err("")]
      step(st) == LET r == F(st.pos) IN
           IF r.k = "err" THEN [st EXCEPT !.done = TRUE, !.res = Ok(st.pos, st.acc)]
           ELSE IF r.k # "ok" THEN [st EXCEPT !.done = TRUE, !.res = r]
           ELSE IF r.p = st.pos THEN [st EXCEPT !.done = TRUE, !.res = Err(kind)]
           ELSE [st EXCEPT !.pos = r.p, !.acc = Append(st.acc, r.v)]
      n == Max2(e - start, 0) + 1
      fin == FoldLeft(LAMBDA st, j : IF st.done THEN st ELSE step(st), init, [j \in 1..n |-> j])
  IN fin.res
Many0(F(_), o, e) == ManyLoop(F, o, <<>>, e, "Many0")
(* many1: the first application is not checked for progress; an Error keeps its kind *)
Many1(F(_), o, e) == LET r0 == F(o) IN
                     IF r0.k # "ok" THEN r0 ELSE ManyLoop(F, r0.p, <<r0.v>>, e, "Many1")

(* multi::length_count(be_u8, be_u8): count, then exactly count bytes one by one *)
LengthCount8(b, o, e) ==
  Bind(U8(b, o, e), LAMBDA c :
    IF e - c.p < c.v THEN Inc(1)
    ELSE Ok(c.p + c.v, SubSeq(b, c.p + 1, c.p + c.v)))

(* the crate's manual list decoders (parse_cipher_suites, parse_named_groups, ...): *)
(* len = 0 -> empty; odd or len > available -> Error(LengthValue); else len/2 pairs *)
Pairs(b, o, len) == [i \in 1..(len \div 2) |-> b[o + 2 * i - 1] * 256 + b[o + 2 * i]]
U16List(b, o, e, len) ==
  IF len = 0 THEN Ok(o, <<>>)
  ELSE IF len % 2 = 1 \/ len > e - o THEN Err("LengthValue")
  ELSE Ok(o + len, Pairs(b, o, len))
U8List(b, o, e, len) ==
  IF len = 0 THEN Ok(o, <<>>)
  ELSE IF len > e - o THEN Err("LengthValue")
  ELSE Ok(o + len, SubSeq(b, o + 1, o + len))
=============================================================================
