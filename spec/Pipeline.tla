------------------------------ MODULE Pipeline ------------------------------
(***************************************************************************)
(* The crate as an IDS uses it, end to end, per direction:                  *)
(*                                                                         *)
(*   TCP segments -> accumulate -> parse_tls_raw_record (loop)             *)
(*                -> TlsRecordsParser.parse_record (defragmentation)       *)
(*                -> tls_state_transition for every message                *)
(*                                                                         *)
(* A scenario is a sequence of flights [dir, records] where each record is *)
(* [ct, ver, data] (a message may be split over several records).  The     *)
(* state machine below delivers the bytes of the current flight in         *)
(* arbitrary segments.  The emergent property (chunking and fragmentation  *)
(* invariance): whatever the segmentation, the messages delivered and the  *)
(* state reached are those of the unsegmented stream.                      *)
(***************************************************************************)
EXTENDS Defrag, Sequences

CONSTANTS Flights,        \* <<[dir |-> "c"|"s", recs |-> <<[ct, ver, data], ...>>], ...>>
          SegSizes        \* the segment sizes a step may deliver (a set of positive integers)

S == INSTANCE States

FlightBytes(f) == Concat([j \in 1..Len(f.recs) |-> EncRecordRaw(f.recs[j].ct, f.recs[j].ver, f.recs[j].data)])

(* message value -> the automaton's message kind *)
KindOf(m) ==
  CASE m.t = "ccs" -> "CCS"
    [] m.t = "alert" -> S!AlertKind(m.sev)
    [] m.t = "app" -> "ApplicationData"
    [] m.t = "hb" -> "Heartbeat"
    [] m.t = "hs" -> IF m.m.t = "ClientHello" THEN (IF m.m.sid = None THEN "ClientHello0" ELSE "ClientHello1") ELSE m.m.t

VARIABLES fl,        \* index of the flight being delivered
          sent,      \* bytes of the current flight already handed to the TCP layer
          tcp,       \* per direction: bytes received and not yet framed into a record
          dfr,       \* per direction: defragmenter state [buf, cur]
          tls,       \* the shared handshake state (a States state name, or "ERROR")
          kinds      \* history: the message kinds delivered so far, with their direction
vars == <<fl, sent, tcp, dfr, tls, kinds>>

Init == /\ fl = 1 /\ sent = 0
        /\ tcp = [d \in {"c", "s"} |-> <<>>]
        /\ dfr = [d \in {"c", "s"} |-> InitState]
        /\ tls = "None" /\ kinds = <<>>

(* drain the TCP buffer of one direction: frame records while a whole one is available, hand each to the *)
(* defragmenter, feed every returned message to the automaton                                             *)
StepRecord(st, d) ==     \* st = [tcp, dfr, tls, kinds, more]
  LET r == ParseRaw(st.tcp, 0, Len(st.tcp)) IN
  IF r.k # "ok" THEN [st EXCEPT !.more = FALSE]
  ELSE LET data == SubSeq(st.tcp, 6, r.p)
           out == Step(st.dfr, OpRecord(r.v.hdr.ct, r.v.hdr.ver, data))
           msgs == IF out.res.k = "ok" THEN out.res.v ELSE <<>>
           folded == FoldLeft(LAMBDA acc, m :
                               IF acc.tls = "ERROR" THEN acc
                               ELSE LET x == S!Trans(acc.tls, KindOf(m), d) IN
                                    [tls |-> IF x.ok THEN x.st ELSE "ERROR", kinds |-> Append(acc.kinds, <<KindOf(m), d>>)],
                             [tls |-> st.tls, kinds |-> st.kinds], msgs)
       IN [tcp |-> SubSeq(st.tcp, r.p + 1, Len(st.tcp)), dfr |-> [buf |-> out.buf, cur |-> out.cur],
           tls |-> folded.tls, kinds |-> folded.kinds, more |-> TRUE]
Drain(t, df, ts, ks, d) ==
  FoldLeft(LAMBDA st, j : IF st.more THEN StepRecord(st, d) ELSE st,
           [tcp |-> t, dfr |-> df, tls |-> ts, kinds |-> ks, more |-> TRUE], [j \in 1..(Len(t) \div 5 + 1) |-> j])

(* contents are needed to classify messages: the pipeline model runs in content mode for ClientHello.sid *)
Segment(k) ==
  /\ fl <= Len(Flights)
  /\ LET f == Flights[fl]  bytes == FlightBytes(f)  n == IF sent + k > Len(bytes) THEN Len(bytes) - sent ELSE k
         d == f.dir
         st == Drain(tcp[d] \o SubSeq(bytes, sent + 1, sent + n), dfr[d], tls, kinds, d) IN
     /\ n > 0
     /\ tcp' = [tcp EXCEPT ![d] = st.tcp] /\ dfr' = [dfr EXCEPT ![d] = st.dfr]
     /\ tls' = st.tls /\ kinds' = st.kinds
     /\ IF sent + n = Len(bytes) THEN fl' = fl + 1 /\ sent' = 0 ELSE fl' = fl /\ sent' = sent + n
Next == \E k \in SegSizes : Segment(k)

Done == fl > Len(Flights)

(* the reference: every flight delivered in one piece *)
Reference ==
  FoldLeft(LAMBDA acc, f : LET st == Drain(acc.tcp[f.dir] \o FlightBytes(f), acc.dfr[f.dir], acc.tls, acc.kinds, f.dir) IN
                           [tcp |-> [acc.tcp EXCEPT ![f.dir] = st.tcp], dfr |-> [acc.dfr EXCEPT ![f.dir] = st.dfr],
                            tls |-> st.tls, kinds |-> st.kinds],
           [tcp |-> [d \in {"c", "s"} |-> <<>>], dfr |-> [d \in {"c", "s"} |-> InitState], tls |-> "None", kinds |-> <<>>], Flights)

(* chunking and fragmentation invariance (the P forms take the reference as an argument, so that a model may compute it once) *)
ChunkingInvarianceP(ref) == Done => (kinds = ref.kinds /\ tls = ref.tls /\ tcp = ref.tcp)
PrefixOfReferenceP(ref) == Len(kinds) <= Len(ref.kinds) /\ kinds = SubSeq(ref.kinds, 1, Len(kinds))
ChunkingInvariance == ChunkingInvarianceP(Reference)
(* a conforming stream never drives the automaton into an error, however it is cut *)
NeverError == tls # "ERROR"
(* what has been delivered is always a prefix of what the unsegmented stream delivers *)
PrefixOfReference == PrefixOfReferenceP(Reference)
(* bytes waiting in a TCP buffer never contain a whole record *)
NoWholeRecordWaiting == \A d \in {"c", "s"} : ParseRaw(tcp[d], 0, Len(tcp[d])).k # "ok"
=============================================================================
