------------------------------- MODULE Registry -------------------------------
(***************************************************************************)
(* The protocol registries behind the crate's 18 registry newtypes,        *)
(* transcribed from the IANA TLS parameter registries / the RFCs (not from *)
(* the code): constant name -> assigned value; which types print names;    *)
(* the Display/Debug rule; SignatureScheme split; key_bits.                *)
(***************************************************************************)
EXTENDS Integers, Sequences, FiniteSets, SequencesExt, TLC

P(n, v) == <<n, v>>

Reg(T) ==
  CASE T = "TlsRecordType" ->            \* IANA TLS ContentType
         <<P("ChangeCipherSpec", 20), P("Alert", 21), P("Handshake", 22), P("ApplicationData", 23), P("Heartbeat", 24)>>
    [] T = "TlsHandshakeType" ->         \* IANA TLS HandshakeType (+ NPN draft 67)
         <<P("HelloRequest", 0), P("ClientHello", 1), P("ServerHello", 2), P("HelloVerifyRequest", 3), P("NewSessionTicket", 4),
           P("EndOfEarlyData", 5), P("HelloRetryRequest", 6), P("EncryptedExtensions", 8), P("Certificate", 11),
           P("ServerKeyExchange", 12), P("CertificateRequest", 13), P("ServerDone", 14), P("CertificateVerify", 15),
           P("ClientKeyExchange", 16), P("Finished", 20), P("CertificateURL", 21), P("CertificateStatus", 22),
           P("KeyUpdate", 24), P("NextProtocol", 67)>>
    [] T = "TlsVersion" ->
         <<P("Ssl30", 768), P("Tls10", 769), P("Tls11", 770), P("Tls12", 771), P("Tls13", 772),
           P("Tls13Draft18", 32530), P("Tls13Draft19", 32531), P("Tls13Draft20", 32532), P("Tls13Draft21", 32533),
           P("Tls13Draft22", 32534), P("Tls13Draft23", 32535), P("DTls10", 65279), P("DTls11", 65278), P("DTls12", 65277)>>
    [] T = "TlsHeartbeatMessageType" -> <<P("HeartBeatRequest", 1), P("HeartBeatResponse", 2)>>     \* RFC 6520
    [] T = "TlsCompressionID" -> <<P("Null", 0), P("Deflate", 1)>>                                   \* RFC 3749
    [] T = "TlsAlertSeverity" -> <<P("Warning", 1), P("Fatal", 2)>>
    [] T = "TlsAlertDescription" ->      \* IANA TLS Alerts
         <<P("CloseNotify", 0), P("UnexpectedMessage", 10), P("BadRecordMac", 20), P("DecryptionFailed", 21), P("RecordOverflow", 22),
           P("DecompressionFailure", 30), P("HandshakeFailure", 40), P("NoCertificate", 41), P("BadCertificate", 42),
           P("UnsupportedCertificate", 43), P("CertificateRevoked", 44), P("CertificateExpired", 45), P("CertificateUnknown", 46),
           P("IllegalParameter", 47), P("UnknownCa", 48), P("AccessDenied", 49), P("DecodeError", 50), P("DecryptError", 51),
           P("ExportRestriction", 60), P("ProtocolVersion", 70), P("InsufficientSecurity", 71), P("InternalError", 80),
           P("InappropriateFallback", 86), P("UserCancelled", 90), P("NoRenegotiation", 100), P("MissingExtension", 109),
           P("UnsupportedExtension", 110), P("CertUnobtainable", 111), P("UnrecognizedName", 112), P("BadCertStatusResponse", 113),
           P("BadCertHashValue", 114), P("UnknownPskIdentity", 115), P("CertificateRequired", 116), P("NoApplicationProtocol", 120)>>
    [] T = "TlsExtensionType" ->         \* IANA TLS ExtensionType Values (+ drafts the crate names)
         <<P("ServerName", 0), P("MaxFragmentLength", 1), P("ClientCertificate", 2), P("TrustedCaKeys", 3), P("TruncatedHMac", 4),
           P("StatusRequest", 5), P("UserMapping", 6), P("ClientAuthz", 7), P("ServerAuthz", 8), P("CertType", 9),
           P("SupportedGroups", 10), P("EcPointFormats", 11), P("Srp", 12), P("SignatureAlgorithms", 13), P("UseSrtp", 14),
           P("Heartbeat", 15), P("ApplicationLayerProtocolNegotiation", 16), P("StatusRequestv2", 17),
           P("SignedCertificateTimestamp", 18), P("ClientCertificateType", 19), P("ServerCertificateType", 20), P("Padding", 21),
           P("EncryptThenMac", 22), P("ExtendedMasterSecret", 23), P("TokenBinding", 24), P("CachedInfo", 25),
           P("RecordSizeLimit", 28), P("SessionTicketTLS", 35), P("KeyShareOld", 40), P("PreSharedKey", 41), P("EarlyData", 42),
           P("SupportedVersions", 43), P("Cookie", 44), P("PskExchangeModes", 45), P("TicketEarlyDataInfo", 46),
           P("CertificateAuthorities", 47), P("OidFilters", 48), P("PostHandshakeAuth", 49), P("SigAlgorithmsCert", 50),
           P("KeyShare", 51), P("NextProtocolNegotiation", 13172), P("Grease", 64250), P("RenegotiationInfo", 65281),
           P("EncryptedServerName", 65486)>>
    [] T = "NamedGroup" ->               \* IANA TLS Supported Groups
         <<P("Sect163k1", 1), P("Sect163r1", 2), P("Sect163r2", 3), P("Sect193r1", 4), P("Sect193r2", 5), P("Sect233k1", 6),
           P("Sect233r1", 7), P("Sect239k1", 8), P("Sect283k1", 9), P("Sect283r1", 10), P("Sect409k1", 11), P("Sect409r1", 12),
           P("Sect571k1", 13), P("Sect571r1", 14), P("Secp160k1", 15), P("Secp160r1", 16), P("Secp160r2", 17), P("Secp192k1", 18),
           P("Secp192r1", 19), P("Secp224k1", 20), P("Secp224r1", 21), P("Secp256k1", 22), P("Secp256r1", 23), P("Secp384r1", 24),
           P("Secp521r1", 25), P("BrainpoolP256r1", 26), P("BrainpoolP384r1", 27), P("BrainpoolP512r1", 28), P("EcdhX25519", 29),
           P("EcdhX448", 30), P("BrainpoolP256r1tls13", 31), P("BrainpoolP384r1tls13", 32), P("BrainpoolP512r1tls13", 33),
           P("Sm2", 41), P("Ffdhe2048", 256), P("Ffdhe3072", 257), P("Ffdhe4096", 258), P("Ffdhe6144", 259), P("Ffdhe8192", 260),
           P("ArbitraryExplicitPrimeCurves", 65281), P("ArbitraryExplicitChar2Curves", 65282)>>
    [] T = "SignatureScheme" ->          \* IANA TLS SignatureScheme
         <<P("rsa_pkcs1_sha256", 1025), P("rsa_pkcs1_sha384", 1281), P("rsa_pkcs1_sha512", 1537),
           P("ecdsa_secp256r1_sha256", 1027), P("ecdsa_secp384r1_sha384", 1283), P("ecdsa_secp521r1_sha512", 1539),
           P("sm2sig_sm3", 1800), P("rsa_pss_rsae_sha256", 2052), P("rsa_pss_rsae_sha384", 2053), P("rsa_pss_rsae_sha512", 2054),
           P("ed25519", 2055), P("ed448", 2056), P("rsa_pss_pss_sha256", 2057), P("rsa_pss_pss_sha384", 2058),
           P("rsa_pss_pss_sha512", 2059), P("ecdsa_brainpoolP256r1tls13_sha256", 2074), P("ecdsa_brainpoolP384r1tls13_sha384", 2075),
           P("ecdsa_brainpoolP512r1tls13_sha512", 2076), P("rsa_pkcs1_sha1", 513), P("ecdsa_sha1", 515)>>
    [] T = "HashAlgorithm" ->            \* IANA TLS HashAlgorithm
         <<P("None", 0), P("Md5", 1), P("Sha1", 2), P("Sha224", 3), P("Sha256", 4), P("Sha384", 5), P("Sha512", 6), P("Intrinsic", 8)>>
    [] T = "SignAlgorithm" ->            \* IANA TLS SignatureAlgorithm
         <<P("Anonymous", 0), P("Rsa", 1), P("Dsa", 2), P("Ecdsa", 3), P("Ed25519", 7), P("Ed448", 8)>>
    [] T = "ECCurveType" -> <<P("ExplicitPrime", 1), P("ExplicitChar2", 2), P("NamedGroup", 3)>>     \* IANA EC Curve Type
    [] T = "SNIType" -> <<P("HostName", 0)>>
    [] T = "CertificateStatusType" -> <<P("OCSP", 1)>>
    [] T = "CtVersion" -> <<P("V1", 0)>>
    [] T = "PskKeyExchangeMode" -> <<P("Psk", 0), P("PskDhe", 1)>>
    [] T = "KeyUpdateRequest" -> <<P("NotRequested", 0), P("Requested", 1)>>

Types == <<"TlsRecordType", "TlsHandshakeType", "TlsVersion", "TlsHeartbeatMessageType", "TlsCompressionID", "TlsAlertSeverity",
           "TlsAlertDescription", "TlsExtensionType", "NamedGroup", "SignatureScheme", "HashAlgorithm", "SignAlgorithm",
           "ECCurveType", "SNIType", "CertificateStatusType", "CtVersion", "PskKeyExchangeMode", "KeyUpdateRequest">>
Wide == {"TlsVersion", "TlsExtensionType", "NamedGroup", "SignatureScheme"}
DomainSize(T) == IF T \in Wide THEN 65536 ELSE 256

(* which types print names: "names", a numeric (derived) form "numeric", or nothing "none" *)
DisplayMode(T) == IF T \in {"PskKeyExchangeMode", "KeyUpdateRequest"} THEN "none" ELSE "names"
DebugMode(T) ==
  IF T \in {"TlsRecordType", "TlsHandshakeType", "TlsVersion", "TlsHeartbeatMessageType", "TlsCompressionID", "NamedGroup",
            "CertificateStatusType"} THEN "names"
  ELSE IF T \in {"KeyUpdateRequest", "ECCurveType"} THEN "none" ELSE "numeric"

Names(T) == {Reg(T)[j][1] : j \in 1..Len(Reg(T))}
Values(T) == {Reg(T)[j][2] : j \in 1..Len(Reg(T))}
NameOf(T, v) == (Reg(T)[CHOOSE j \in 1..Len(Reg(T)) : Reg(T)[j][2] = v])[1]
ValueOf(T, n) == (Reg(T)[CHOOSE j \in 1..Len(Reg(T)) : Reg(T)[j][1] = n])[2]

(* tables are injective per type *)
Injective(T) == Cardinality(Names(T)) = Len(Reg(T)) /\ Cardinality(Values(T)) = Len(Reg(T))

(* The class of the text shown for value v: "N:<name>" when a constant is defined, "F" (numeric fallback *)
(* containing the value, not one of the type's names) otherwise.  Run-length encoded over the domain.    *)
ClassOf(T, mode, v) == IF mode = "names" /\ v \in Values(T) THEN "N:" \o NameOf(T, v) ELSE "F"
ExpectedRle(T, mode) ==
  IF mode = "none" THEN <<>>
  ELSE IF mode = "numeric" THEN << <<"F", DomainSize(T)>> >>
  ELSE LET vs == SetToSortSeq(Values(T), <)
           n == Len(vs)
           gap(a, b) == IF b - a - 1 > 0 THEN << <<"F", b - a - 1>> >> ELSE <<>>
       IN FoldLeft(LAMBDA acc, j : acc \o gap(IF j = 1 THEN -1 ELSE vs[j - 1], vs[j]) \o << <<"N:" \o NameOf(T, vs[j]), 1>> >>,
                   <<>>, [j \in 1..n |-> j])
          \o gap(vs[n], DomainSize(T))

(* SignatureScheme: hash = high byte, signature = low byte, 0xFE00..0xFEFF reserved *)
ReservedRle == << <<"0", 65024>>, <<"1", 256>>, <<"0", 256>> >>

(* key_bits(): admissible answers.  -1 = None.  The 28 RFC 4492 / 7027 curves state their field size; *)
(* unregistered groups have none; for the registered groups whose name states no field size, or     *)
(* which a table may legitimately omit, both None and the size in the name are admissible.           *)
KeyBitsAdmissible(v) ==
  CASE v \in {1, 2, 3} -> {163} [] v \in {4, 5} -> {193} [] v \in {6, 7} -> {233} [] v = 8 -> {239} [] v \in {9, 10} -> {283}
    [] v \in {11, 12} -> {409} [] v \in {13, 14} -> {571} [] v \in {15, 16, 17} -> {160} [] v \in {18, 19} -> {192}
    [] v \in {20, 21} -> {224} [] v \in {22, 23} -> {256} [] v = 24 -> {384} [] v = 25 -> {521}
    [] v = 26 -> {256} [] v = 27 -> {384} [] v = 28 -> {512}
    [] v = 29 -> {-1, 253, 255, 256} [] v = 30 -> {-1, 448, 456}
    [] v = 31 -> {-1, 256} [] v = 32 -> {-1, 384} [] v = 33 -> {-1, 512} [] v = 41 -> {-1, 256}
    [] v = 256 -> {-1, 2048} [] v = 257 -> {-1, 3072} [] v = 258 -> {-1, 4096} [] v = 259 -> {-1, 6144} [] v = 260 -> {-1, 8192}
    [] OTHER -> {-1}
=============================================================================
