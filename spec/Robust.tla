------------------------------- MODULE Robust -------------------------------
(***************************************************************************)
(* Observation invariants (C01, C06): what must hold of EVERY call into    *)
(* the crate, whatever the bytes - they need no functional oracle.         *)
(* An event is one recorded call: outcome class, consumed length, input    *)
(* length, peak heap inside the call, and the pointer-derived facts about  *)
(* the returned slices.                                                    *)
(***************************************************************************)
EXTENDS Integers, Sequences, TLC

AllocA == 1024          \* bytes of heap per input byte (measured worst case ~205: one TlsMessage per CCS byte, Vec doubling)
AllocB == 65536         \* constant allowance
(* defragmenter calls: + twice the buffer length after the call (amortised growth); the buffer stays below 10 MiB *)
DefragAllocBound(alloc, reclen, buflen) == alloc <= AllocA * reclen + 2 * buflen + AllocB

(* every call returns Ok or Err: no panic, no watchdog timeout *)
OutcomeClass(ev) == ev.res.k \in {"ok", "inc", "err", "fail"}
(* formatting a returned value (Debug) returns *)
FormatReturns(ev) == ev.fmt_panic = ""
(* heap use is bounded by a fixed linear function of the input length *)
AllocBound(ev) == ev.alloc <= AllocA * ev.len + AllocB
(* the remainder is a suffix of the input *)
RemainderIsSuffix(ev) == ev.rem_ok /\ (ev.res.k = "ok" => (0 <= ev.res.p /\ ev.res.p <= ev.len))
(* every byte slice reachable from the value aliases the consumed part of the caller's buffer *)
SlicesInsideConsumed(ev) == ev.res.k = "ok" => ev.max_end <= ev.res.p
NoForeignSlice(ev) == ev.foreign = 0

Robust(ev) == OutcomeClass(ev) /\ FormatReturns(ev) /\ AllocBound(ev) /\ RemainderIsSuffix(ev)
              /\ SlicesInsideConsumed(ev) /\ NoForeignSlice(ev)
FirstBroken(ev) ==
  IF ~OutcomeClass(ev) THEN "OutcomeClass" ELSE IF ~FormatReturns(ev) THEN "FormatReturns"
  ELSE IF ~AllocBound(ev) THEN "AllocBound" ELSE IF ~RemainderIsSuffix(ev) THEN "RemainderIsSuffix"
  ELSE IF ~SlicesInsideConsumed(ev) THEN "SlicesInsideConsumed" ELSE IF ~NoForeignSlice(ev) THEN "NoForeignSlice" ELSE ""

(* C06, relational: appending bytes to an accepted, self-delimiting input leaves the value (ranges included) *)
(* and the consumed length unchanged; the class does not change                                              *)
LocalPair(base, ext) == base.res.k = "ok" => (ext.res.k = "ok" /\ ext.res.p = base.res.p /\ ext.res.v = base.res.v)
=============================================================================
