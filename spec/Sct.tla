--------------------------------- MODULE Sct ---------------------------------
(***************************************************************************)
(* RFC 6962 Signed Certificate Timestamps (src/certificate_transparency.rs) *)
(***************************************************************************)
EXTENDS KeyExchange

DecSctContent(b, o, e) ==
  Bind(U8(b, o, e), LAMBDA ver :
  Bind(Take(b, ver.p, e, 32), LAMBDA id :
  Bind(U64(b, id.p, e), LAMBDA ts :
  Bind(LenData16(b, ts.p, e), LAMBDA ex :
  Bind(DecSigned(b, ex.p, e), LAMBDA sg :
    Ok(sg.p, [ver |-> ver.v, id |-> id.v, ts |-> ts.v, ext |-> ex.v, sig |-> sg.v]))))))

(* one length-prefixed entry; the content parser's remainder inside the entry is dropped *)
DecSct(b, o, e) == MapParser(LenWindow16(b, o, e), LAMBDA s, t : DecSctContent(b, s, t))

DecSctList(b, o, e) ==
  Bind(U16(b, o, e), LAMBDA tl :
    MapParser(Window(b, tl.p, e, tl.v),
              LAMBDA s, t : Many0(LAMBDA p : Complete(DecSct(b, p, t)), s, t)))

EncSctContent(v) == <<v.ver>> \o v.id \o Limbs2Bytes(v.ts) \o L16(v.ext) \o EncSigned(v.sig)
EncSct(v) == L16(EncSctContent(v))
EncSctList(vs) == L16(Concat([j \in 1..Len(vs) |-> EncSct(vs[j])]))
=============================================================================
