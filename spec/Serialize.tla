------------------------------ MODULE Serialize ------------------------------
(***************************************************************************)
(* What the serializer (src/tls_serialize.rs, feature `serialize`) must     *)
(* emit, written from the RFCs, the normal forms a parse-back yields, its   *)
(* domain, and strict decodability.                                         *)
(***************************************************************************)
EXTENDS Calls

Serializable(v) ==
  CASE v.t = "ClientHello" -> Len(v.random) = 32 /\ (v.sid = None \/ Len(v.sid[1]) \in 1..32) /\ Len(v.ciphers) <= 32767 /\ Len(v.comp) <= 255
    [] v.t = "ServerHello" -> Len(v.random) = 32 /\ v.ver \in ServerHelloLegacyVersions /\ (v.ver = VSsl30 => v.ext = None)
    [] v.t = "ServerHelloV13Draft18" -> Len(v.random) = 32 /\ v.ver = VTls13Draft18
    [] v.t \in {"ClientKeyExchange", "Finished", "HelloRequest"} -> TRUE
    [] OTHER -> FALSE

(* the value a parse-back yields *)
NormExt(e) == IF e = None THEN Some(<<>>) ELSE e
Normalize(v) ==
  CASE v.t = "ClientHello" -> [v EXCEPT !.ext = NormExt(v.ext)]
    [] v.t = "ServerHello" -> IF v.ver = VSsl30 THEN v ELSE [v EXCEPT !.ext = NormExt(v.ext)]
    [] v.t = "ServerHelloV13Draft18" -> [v EXCEPT !.ext = NormExt(v.ext)]
    [] v.t = "ClientKeyExchange" ->
         [t |-> "ClientKeyExchange", kind |-> "Unknown",
          data |-> IF v.kind = "Dh" THEN BE16(Len(v.data)) \o v.data
                   ELSE IF v.kind = "Ecdh" THEN <<Len(v.data)>> \o v.data ELSE v.data]
    [] OTHER -> v

(* the bytes: the RFC encoding of the normal form (the SSLv3 ServerHello carries an empty block the parser ignores) *)
SerHs(v) ==
  IF v.t = "ServerHello" /\ v.ver = VSsl30 THEN EncHsWith(v, EncHsBody(v) \o <<0, 0>>)
  ELSE EncHs(Normalize(v))
SerMsg(m) == IF m.t = "ccs" THEN <<1>> ELSE SerHs(m.m)
SerRecord(r) == EncRecordRaw(r.ct, r.ver, Concat([j \in 1..Len(r.msgs) |-> SerMsg(r.msgs[j])]))
(* several records written one after the other into the same output: the concatenation of their serializations *)
SerFlight(rs) == Concat([j \in 1..Len(rs) |-> SerRecord(rs[j])])
NormMsg(m) == IF m.t = "ccs" THEN m ELSE [t |-> "hs", m |-> Normalize(m.m)]

(* Strict decodability: the bytes parse completely, and re-encoding the parsed value per the RFC gives the same *)
(* bytes back - i.e. every length prefix equals the byte length of what it prefixes and nothing is left over.   *)
RangeFalse == INSTANCE Calls WITH RangeMode <- FALSE
StrictHs(bytes) ==
  LET r == RangeFalse!DecHandshake(bytes, 0, Len(bytes)) IN
  [ok |-> r.k = "ok" /\ r.p = Len(bytes)
          /\ (IF r.v.m.t = "ServerHello" /\ r.v.m.ver = VSsl30 THEN EncHsWith(r.v.m, EncHsBody(r.v.m) \o <<0, 0>>) ELSE EncHs(r.v.m)) = bytes,
   v |-> IF r.k = "ok" THEN r.v.m ELSE [t |-> "none"]]
StrictRecord(bytes) ==
  LET r == RangeFalse!ParsePlaintext(bytes, 0, Len(bytes)) IN
  [ok |-> r.k = "ok" /\ r.p = Len(bytes)
          /\ EncRecordRaw(r.v.hdr.ct, r.v.hdr.ver,
                          Concat([j \in 1..Len(r.v.msg) |-> IF r.v.msg[j].t = "ccs" THEN <<1>> ELSE SerHs(r.v.msg[j].m)])) = bytes,
   v |-> IF r.k = "ok" THEN r.v.msg ELSE <<>>]
StrictExtBlock(bytes) ==      \* gen_tls_extensions: a u16-length-prefixed block of extensions
  LET l == RangeFalse!U16(bytes, 0, Len(bytes))
      r == IF l.k = "ok" /\ l.v = Len(bytes) - 2 THEN RangeFalse!DecExtList("generic", bytes, 2, Len(bytes)) ELSE Err("Length") IN
  [ok |-> r.k = "ok" /\ r.p = Len(bytes) /\ BE16(Len(EncExtList(r.v))) \o EncExtList(r.v) = bytes,
   v |-> IF r.k = "ok" THEN r.v ELSE <<>>]
=============================================================================
