------------------------------- MODULE States -------------------------------
(***************************************************************************)
(* tls_state_transition (src/tls_states.rs) as documented flows plus       *)
(* precedence rules.  The transition relation is NOT copied from the       *)
(* `match': it is assembled from                                           *)
(*  (i) the handshake flows the crate documents, written as labelled       *)
(*      paths, each edge carrying the peer that sends the message, and     *)
(*  (ii) the precedence rules of the property (absorbing states, Finished, *)
(*      HelloRequest, alert severity, everything else InvalidTransition).  *)
(* Directions: "c" = sent by the client (to_server = true), "s" = sent by  *)
(* the server.  ChangeCipherSpec edges carry the direction set the flows   *)
(* document (named deviation CcsDirectionAsModelled).                      *)
(***************************************************************************)
EXTENDS Integers, Sequences, FiniteSets, TLC

AllStates == {"None", "ClientHello", "AskResumeSession", "ResumeSession", "ServerHello", "Certificate",
              "CertificateSt", "ServerKeyExchange", "ServerHelloDone", "ClientKeyExchange", "ClientChangeCipherSpec",
              "CRCertRequest", "CRHelloDone", "CRCert", "CRClientKeyExchange", "CRCertVerify",
              "NoCertSKE", "NoCertHelloDone", "NoCertCKE", "PskHelloDone", "PskCKE",
              "SessionEncrypted", "Alert", "Finished", "Invalid"}

(* message kinds: the 17 handshake variants (ClientHello split by session-id presence), *)
(* ChangeCipherSpec, alerts by severity class, application data, heartbeat              *)
HandshakeKinds == {"HelloRequest", "ClientHello0", "ClientHello1", "ServerHello", "ServerHelloV13Draft18",
                   "NewSessionTicket", "EndOfEarlyData", "HelloRetryRequest", "Certificate", "ServerKeyExchange",
                   "CertificateRequest", "ServerDone", "CertificateVerify", "ClientKeyExchange", "Finished",
                   "CertificateStatus", "NextProtocol", "KeyUpdate"}
OtherKinds == {"CCS", "AlertWarning", "AlertOther", "ApplicationData", "Heartbeat"}
Kinds == HandshakeKinds \cup OtherKinds
Dirs == {"c", "s"}
Both == {"c", "s"}

E(flow, from, kind, dirs, to) == [flow |-> flow, from |-> from, kind |-> kind, dirs |-> dirs, to |-> to]
Path(flow, steps) ==   \* steps: <<state0, <<kind, dirs>>, state1, <<kind, dirs>>, state2, ...>>
  {E(flow, steps[2 * j - 1], steps[2 * j][1], steps[2 * j][2], steps[2 * j + 1]) : j \in 1..((Len(steps) - 1) \div 2)}

FlowEdges ==
  Path("Full", <<"None", <<"ClientHello0", {"c"}>>, "ClientHello", <<"ServerHello", {"s"}>>, "ServerHello",
                 <<"Certificate", {"s"}>>, "Certificate", <<"ServerKeyExchange", {"s"}>>, "ServerKeyExchange",
                 <<"ServerDone", {"s"}>>, "ServerHelloDone", <<"ClientKeyExchange", {"c"}>>, "ClientKeyExchange",
                 <<"CCS", Both>>, "ClientChangeCipherSpec", <<"CCS", {"s"}>>, "SessionEncrypted">>)
  \cup Path("WithStatus", <<"Certificate", <<"CertificateStatus", {"s"}>>, "CertificateSt",
                            <<"ServerKeyExchange", {"s"}>>, "ServerKeyExchange">>)
  \cup Path("CertRequested", <<"Certificate", <<"CertificateRequest", {"s"}>>, "CRCertRequest",
                               <<"ServerDone", {"s"}>>, "CRHelloDone", <<"Certificate", {"c"}>>, "CRCert",
                               <<"ClientKeyExchange", {"c"}>>, "CRClientKeyExchange",
                               <<"CertificateVerify", {"c"}>>, "CRCertVerify", <<"CCS", Both>>, "ClientChangeCipherSpec">>)
  \cup {E("CertRequested", "ServerKeyExchange", "CertificateRequest", {"s"}, "CRCertRequest"),
        E("CertRequested", "CRClientKeyExchange", "CCS", Both, "ClientChangeCipherSpec")}
  \cup Path("Anonymous", <<"ServerHello", <<"ServerKeyExchange", {"s"}>>, "NoCertSKE", <<"ServerDone", {"s"}>>,
                           "NoCertHelloDone", <<"ClientKeyExchange", {"c"}>>, "NoCertCKE",
                           <<"CCS", Both>>, "ClientChangeCipherSpec">>)
  \cup Path("KxWithoutSKE", <<"Certificate", <<"ServerDone", {"s"}>>, "PskHelloDone",
                              <<"ClientKeyExchange", {"c"}>>, "PskCKE", <<"CCS", Both>>, "ClientChangeCipherSpec">>)
  \cup Path("Resumption", <<"None", <<"ClientHello1", {"c"}>>, "AskResumeSession", <<"ServerHello", {"s"}>>,
                            "ResumeSession", <<"CCS", Both>>, "ClientChangeCipherSpec">>)
  \cup Path("Fallback", <<"ResumeSession", <<"Certificate", {"s"}>>, "Certificate">>)
  \cup Path("Tls13Draft18", <<"ClientHello", <<"ServerHelloV13Draft18", {"s"}>>, "ClientChangeCipherSpec">>)
  \cup Path("ZeroRtt", <<"AskResumeSession", <<"CCS", {"c"}>>, "AskResumeSession">>)
  \cup Path("PostCcsTicket", <<"ClientChangeCipherSpec", <<"NewSessionTicket", {"s"}>>, "ClientChangeCipherSpec">>)

OkS(s) == [ok |-> TRUE, st |-> s]
InvalidTransition == [ok |-> FALSE, st |-> ""]

Edge(s, k, d) == {e \in FlowEdges : e.from = s /\ e.kind = k /\ d \in e.dirs}

(* the rules, in precedence order *)
Trans(s, k, d) ==
  IF s \in {"Invalid", "SessionEncrypted"} THEN OkS(s)                    \* AbsorbInvalid, AbsorbEncrypted
  ELSE IF s = "Finished" THEN OkS("Invalid")                               \* FinishedToInvalid
  ELSE IF k \in HandshakeKinds THEN
         IF Edge(s, k, d) # {} THEN OkS((CHOOSE e \in Edge(s, k, d) : TRUE).to)
         ELSE IF k = "HelloRequest" /\ s # "None" THEN OkS(s)              \* HelloRequestIgnoredExceptNone
         ELSE InvalidTransition
  ELSE IF k = "CCS" THEN
         IF Edge(s, k, d) # {} THEN OkS((CHOOSE e \in Edge(s, k, d) : TRUE).to) ELSE InvalidTransition
  ELSE IF k = "AlertWarning" THEN OkS(s)                                   \* WarningKeeps
  ELSE IF k = "AlertOther" THEN OkS("Finished")                            \* OtherAlertFinishes
  ELSE InvalidTransition                                                   \* application data, heartbeat

(* severity class of an alert level byte *)
AlertKind(sev) == IF sev = 1 THEN "AlertWarning" ELSE "AlertOther"
ResultCode(r) == IF r.ok THEN r.st ELSE "InvalidTransition"
=============================================================================
