------------------------------- MODULE Stream -------------------------------
(***************************************************************************)
(* The streaming contract as its users live it: a consumer owns a growing  *)
(* window of a byte stream, calls a single-record parser on it, and on     *)
(* Incomplete reads more bytes - exactly the Needed amount (policy         *)
(* "needed", what the nom documentation tells applications to do) or       *)
(* whatever the network hands over (policy "any").                         *)
(*                                                                         *)
(* The per-call statements of C02 / C10 (Incomplete iff strict prefix;     *)
(* Needed exact once the header is there) have emergent consequences that  *)
(* only show over a whole run, and that is what this machine states:       *)
(*   BoundedReads       - under "needed", a record costs at most MaxIncs   *)
(*                        Incomplete answers (one per header field, then   *)
(*                        the body)                                        *)
(*   NeverReadsAhead    - under "needed", the consumer never holds a byte  *)
(*                        of the NEXT record before the current one is     *)
(*                        delivered (no over-read, no blocking on bytes    *)
(*                        the peer has not sent)                           *)
(*   DeliversReference  - under every policy, what has been delivered is   *)
(*                        a prefix of the records of the whole stream, and *)
(*                        at the end of the stream it is all of them       *)
(*   StuckIffReference  - the consumer gives up exactly where repeated     *)
(*                        one-shot parsing of the whole stream gives up    *)
(* One action per step of the consumer loop; the parser call is one        *)
(* atomic action (the crate is sequential).  The steps are pure functions  *)
(* of (wire, parser, policy, state) so that the bounded model (MC_Stream)  *)
(* and the trace specification (Trace_Stream, many recorded runs with      *)
(* their own wires) share them.                                            *)
(***************************************************************************)
EXTENDS Calls

ZeroArgs == [len |-> 0, ext |-> 0, ct |-> 0, ver |-> 0, sub |-> ""]
(* the parser F on the window W[o+1 .. e]; positions are reported in stream coordinates *)
P(W, F, o, e) == LET r == ApplyN(F, ZeroArgs, SubSeq(W, o + 1, e), e - o) IN
                 [k |-> r.k, p |-> IF r.k = "ok" THEN r.p + o ELSE -1, n |-> r.n, e |-> r.e]

(* state: have  - bytes of W read so far (the window is W[start+1 .. have])        *)
(*        start - where the current record starts                                  *)
(*        phase - "parse" | "read" | "stuck" | "end"                               *)
(*        need  - the Needed amount of the last Incomplete (0 = unknown)           *)
(*        incs  - Incomplete answers for the current record (counted under "needed") *)
(*        out   - number of records delivered                                      *)
S0 == [have |-> 0, start |-> 0, phase |-> "parse", need |-> 0, incs |-> 0, out |-> 0]

(* the parser is called on the window *)
CanParse(st) == st.phase = "parse"
DoParse(W, F, Pol, st) ==
  LET r == P(W, F, st.start, st.have) IN
  IF r.k = "ok"
  THEN [st EXCEPT !.start = r.p, !.out = st.out + 1, !.incs = 0, !.need = 0,
                  !.phase = IF r.p = Len(W) /\ st.have = Len(W) THEN "end" ELSE "parse"]
  ELSE IF r.k = "inc"
  THEN [st EXCEPT !.need = (IF r.n > 0 THEN r.n ELSE 0), !.incs = (IF Pol = "needed" THEN st.incs + 1 ELSE 0), !.phase = "read"]
  ELSE [st EXCEPT !.phase = "stuck"]

Wanted(st) == IF st.need > 0 THEN st.need ELSE 1
(* the consumer reads exactly what the parser asked for (1 byte if it did not say) *)
CanReadNeeded(W, Pol, st) == st.phase = "read" /\ Pol = "needed" /\ st.have + Wanted(st) <= Len(W)
DoReadNeeded(st) == [st EXCEPT !.have = st.have + Wanted(st), !.phase = "parse"]
(* the network hands over k bytes *)
CanReadChunk(W, Pol, st) == st.phase = "read" /\ Pol = "any" /\ st.have < Len(W)
DoReadChunk(W, st, k) == [st EXCEPT !.have = Min2(st.have + k, Len(W)), !.phase = "parse"]
(* the peer closed the stream inside a record: the wanted bytes never come *)
CanEnd(W, Pol, st) == st.phase = "read" /\ (IF Pol = "needed" THEN st.have + Wanted(st) > Len(W) ELSE st.have = Len(W))
DoEnd(W, st) == [st EXCEPT !.phase = "end", !.have = Len(W)]

(* the reference: the single-record parser applied repeatedly to the WHOLE stream *)
Ref(W, F) ==
  FoldLeft(LAMBDA acc, j : IF acc.done THEN acc
                           ELSE LET r == P(W, F, acc.pos, Len(W)) IN
                                IF r.k = "ok" /\ r.p > acc.pos THEN [acc EXCEPT !.pos = r.p, !.ends = Append(acc.ends, r.p)]
                                ELSE [acc EXCEPT !.done = TRUE, !.last = r.k],
           [pos |-> 0, ends |-> <<>>, done |-> FALSE, last |-> "ok"], [j \in 1..(Len(W) + 1) |-> j])

(* the properties, as predicates of (wire, reference, policy, state) *)
BoundedReadsP(Pol, st, maxIncs) == Pol = "needed" => st.incs <= maxIncs
NeverReadsAheadP(W, ref, Pol, st) ==
  Pol = "needed" => LET nxt == IF st.out < Len(ref.ends) THEN ref.ends[st.out + 1] ELSE Len(W) IN st.have <= nxt
DeliversReferenceP(ref, st) ==
  /\ st.out <= Len(ref.ends)
  /\ (st.out > 0 => st.start = ref.ends[st.out]) /\ (st.out = 0 => st.start = 0)
  /\ st.phase = "end" => st.out = Len(ref.ends)
StuckIffReferenceP(ref, st) == st.phase = "stuck" => (st.out = Len(ref.ends) /\ ref.last \in {"err", "fail"})

-----------------------------------------------------------------------------
(* the machine for one (wire, parser, policy) *)
CONSTANTS Wire, Fn, Policy,
          Chunks,    \* the amounts the network may hand over under "any"
          MaxIncs    \* Incomplete answers one record may cost under "needed"
VARIABLE st

Init == st = S0
Parse == CanParse(st) /\ st' = DoParse(Wire, Fn, Policy, st)
ReadNeeded == CanReadNeeded(Wire, Policy, st) /\ st' = DoReadNeeded(st)
ReadChunk(k) == CanReadChunk(Wire, Policy, st) /\ st' = DoReadChunk(Wire, st, k)
EndOfStream == CanEnd(Wire, Policy, st) /\ st' = DoEnd(Wire, st)
Next == Parse \/ EndOfStream \/ ReadNeeded \/ \E k \in Chunks : ReadChunk(k)
Spec == Init /\ [][Next]_st

BoundedReads == BoundedReadsP(Policy, st, MaxIncs)
NeverReadsAhead == NeverReadsAheadP(Wire, Ref(Wire, Fn), Policy, st)
DeliversReference == DeliversReferenceP(Ref(Wire, Fn), st)
StuckIffReference == StuckIffReferenceP(Ref(Wire, Fn), st)
(* progress: outside the terminal phases a step is always possible (the loop neither blocks nor spins: incs is bounded) *)
Terminal == st.phase \in {"end", "stuck"}
NoSpin == ~Terminal => ENABLED Next
=============================================================================
