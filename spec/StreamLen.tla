------------------------------ MODULE StreamLen ------------------------------
(***************************************************************************)
(* The streaming consumer of Stream.tla under the "needed" policy, with    *)
(* the parser abstracted to the per-call contract of C02:                  *)
(*   - with fewer than 5 bytes of a record the parser answers Incomplete   *)
(*     with the bytes missing from the header FIELD it is reading          *)
(*     (type u8, version u16, length u16: boundaries 1, 3, 5);             *)
(*   - with the header and w < T bytes (T = 5 + declared length) it        *)
(*     answers Incomplete(T - w): Needed is exact;                         *)
(*   - with w = T bytes it delivers the record.                            *)
(* For EVERY record size T >= 5 (unbounded) the two emergent properties of *)
(* Stream.tla - BoundedReads (at most 4 Incomplete answers per record) and *)
(* NeverReadsAhead (the window never passes the end of the record) - are   *)
(* proved as an inductive invariant with TLAPS.  MC_Stream checks that the *)
(* byte-level machine takes exactly these steps (RefinesStreamLen) and     *)
(* Trace_Stream that the real parsers do.                                  *)
(***************************************************************************)
EXTENDS Integers, TLAPS

VARIABLES T,      \* total size of the current record (header + payload), chosen by the peer
          w,      \* bytes of the current record the consumer holds
          phase,  \* "parse" | "read"
          need,   \* the Needed amount of the last Incomplete
          incs    \* Incomplete answers for the current record
vars == <<T, w, phase, need, incs>>

(* what the contract makes the parser ask for with w bytes of a record of T bytes, w < T *)
Need(t, x) == IF x < 1 THEN 1 - x ELSE IF x < 3 THEN 3 - x ELSE IF x < 5 THEN 5 - x ELSE t - x

Init == T \in Nat /\ T >= 5 /\ w = 0 /\ phase = "parse" /\ need = 0 /\ incs = 0
Deliver == /\ phase = "parse" /\ w = T
           /\ \E t \in Nat : t >= 5 /\ T' = t            \* the next record, of any size
           /\ w' = 0 /\ incs' = 0 /\ need' = 0 /\ phase' = "parse"
Incomplete == /\ phase = "parse" /\ w < T
              /\ need' = Need(T, w) /\ incs' = incs + 1 /\ phase' = "read" /\ UNCHANGED <<T, w>>
ReadNeeded == /\ phase = "read"
              /\ w' = w + need /\ phase' = "parse" /\ UNCHANGED <<T, need, incs>>
Next == Deliver \/ Incomplete \/ ReadNeeded
Spec == Init /\ [][Next]_vars

TypeOK == T \in Nat /\ T >= 5 /\ w \in Nat /\ need \in Nat /\ incs \in Nat /\ phase \in {"parse", "read"}
BoundedReads == incs <= 4
NeverReadsAhead == w <= T /\ (phase = "read" => w + need <= T)
(* the consumer walks the field boundaries: 0 -> 1 -> 3 -> 5 -> T *)
Stages ==
  /\ phase = "parse" => \/ (w = 0 /\ incs = 0)
                        \/ (w = 1 /\ incs = 1)
                        \/ (w = 3 /\ incs = 2)
                        \/ (w = 5 /\ incs = 3)
                        \/ (w = T /\ incs <= 4)
  /\ phase = "read"  => \/ (w = 0 /\ incs = 1 /\ need = 1)
                        \/ (w = 1 /\ incs = 2 /\ need = 2)
                        \/ (w = 3 /\ incs = 3 /\ need = 2)
                        \/ (w = 5 /\ T > 5 /\ incs = 4 /\ need = T - 5)
Inv == TypeOK /\ Stages

THEOREM Safety == Spec => [](BoundedReads /\ NeverReadsAhead)
<1>1. Init => Inv
  BY DEF Init, Inv, TypeOK, Stages
<1>2. Inv /\ [Next]_vars => Inv'
  <2> SUFFICES ASSUME Inv, [Next]_vars PROVE Inv'
    OBVIOUS
  <2>1. CASE UNCHANGED vars
    BY <2>1 DEF Inv, TypeOK, Stages, vars
  <2>2. CASE Deliver
    BY <2>2 DEF Deliver, Inv, TypeOK, Stages
  <2>3. CASE Incomplete
    BY <2>3 DEF Incomplete, Need, Inv, TypeOK, Stages
  <2>4. CASE ReadNeeded
    BY <2>4 DEF ReadNeeded, Inv, TypeOK, Stages
  <2>5. QED
    BY <2>1, <2>2, <2>3, <2>4 DEF Next
<1>3. Inv => BoundedReads /\ NeverReadsAhead
  BY DEF Inv, TypeOK, Stages, BoundedReads, NeverReadsAhead
<1>4. QED
  BY <1>1, <1>2, <1>3, PTL DEF Spec
=============================================================================
