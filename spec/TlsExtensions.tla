---------------------------- MODULE TlsExtensions ----------------------------
(***************************************************************************)
(* TLS extensions (src/tls_extensions.rs): 26 typed extensions, GREASE,    *)
(* Unknown, the three dispatchers, the 16 tag-specific parsers, the list   *)
(* parsers, and the RFC encoder.                                           *)
(*                                                                         *)
(* NORMATIVE where the property (C05) speaks:                              *)
(*  - GREASE is the RFC 8701 set (both bytes equal, low nibble 0xA);       *)
(*  - a typed variant's derived tag equals its wire type, so the           *)
(*    encrypt-then-MAC row is keyed 22 in all three dispatchers;           *)
(*  - every tag-specific parser carries its IANA type.                     *)
(* Which types each dispatcher recognises follows the code (the property   *)
(* is silent): the server table has no row for 10, 21, 40, 45, 48, 49 and  *)
(* 0xffce, the client table none for 40.                                   *)
(***************************************************************************)
EXTENDS Nom

IsGrease(ty) == (ty \div 256 = ty % 256) /\ (ty % 16 = 10)
GreaseTag == 64250

TypedTypes == {0, 1, 5, 10, 11, 13, 15, 16, 18, 21, 22, 23, 28, 35, 40, 41, 42, 43, 44, 45, 48, 49,
               51, 13172, 65281, 65486}
ClientTypes == TypedTypes \ {40}
ServerTypes == TypedTypes \ {10, 21, 40, 45, 48, 49, 65486}
Recognised(which) == IF which = "client" THEN ClientTypes
                     ELSE IF which = "server" THEN ServerTypes ELSE TypedTypes


-----------------------------------------------------------------------------
(* content parsers on the window [o, e) = extension data *)

SniHostname(b, o, e) ==
  Bind(U8(b, o, e), LAMBDA nt :
  Bind(LenData16(b, nt.p, e), LAMBDA nm : Ok(nm.p, [nt |-> nt.v, name |-> nm.v])))

SniContent(b, o, e) ==
  IF e = o THEN Ok(o, [t |-> "SNI", tag |-> 0, names |-> <<>>])
  ELSE Bind(U16(b, o, e), LAMBDA ll :
       Map(MapParser(Window(b, ll.p, e, ll.v),
                     LAMBDA s, t : Many0(LAMBDA p : Complete(SniHostname(b, p, t)), s, t)),
           LAMBDA v : [t |-> "SNI", tag |-> 0, names |-> v]))

MaxFragLenContent(b, o, e) == Map(U8(b, o, e), LAMBDA x : [t |-> "MaxFragmentLength", tag |-> 1, v |-> x])

StatusRequestContent(b, o, e, extLen) ==
  IF extLen = 0 THEN Ok(o, [t |-> "StatusRequest", tag |-> 5, req |-> None])
  ELSE Bind(U8(b, o, e), LAMBDA st :
       Bind(Take(b, st.p, e, extLen - 1), LAMBDA d :
         Ok(d.p, [t |-> "StatusRequest", tag |-> 5, req |-> Some([st |-> st.v, data |-> d.v])])))

(* parse_named_groups: the whole window *)
NamedGroups(b, o, e) == U16List(b, o, e, e - o)
EllipticCurvesContent(b, o, e) ==
  Map(MapParser(LenWindow16(b, o, e), LAMBDA s, t : NamedGroups(b, s, t)),
      LAMBDA v : [t |-> "EllipticCurves", tag |-> 10, groups |-> v])

EcPointFormatsContent(b, o, e) == Map(LenData8(b, o, e), LAMBDA d : [t |-> "EcPointFormats", tag |-> 11, data |-> d])

SigAlgsContent(b, o, e) ==
  Map(MapParser(LenWindow16(b, o, e), LAMBDA s, t : Many0(LAMBDA p : Complete(U16(b, p, t)), s, t)),
      LAMBDA v : [t |-> "SignatureAlgorithms", tag |-> 13, algs |-> v])

HeartbeatContent(b, o, e) == Map(U8(b, o, e), LAMBDA x : [t |-> "Heartbeat", tag |-> 15, v |-> x])

AlpnContent(b, o, e) ==
  Map(MapParser(LenWindow16(b, o, e), LAMBDA s, t : Many0(LAMBDA p : Complete(LenData8(b, p, t)), s, t)),
      LAMBDA v : [t |-> "ALPN", tag |-> 16, protos |-> v])

SctContent(b, o, e) ==
  Map(Opt(Complete(LenData16(b, o, e)), o), LAMBDA d : [t |-> "SignedCertificateTimestamp", tag |-> 18, data |-> d])

OpaqueContent(b, o, e, extLen, ty, tname) == Map(Take(b, o, e, extLen), LAMBDA d : [t |-> tname, tag |-> ty, data |-> d])

EmptyOnlyContent(o, extLen, ty, tname) ==
  IF extLen # 0 THEN Err("Verify") ELSE Ok(o, [t |-> tname, tag |-> ty])

RecordSizeLimitContent(b, o, e) == Map(U16(b, o, e), LAMBDA x : [t |-> "RecordSizeLimit", tag |-> 28, v |-> x])

EarlyDataContent(b, o, e, extLen) ==
  Map(Cond(extLen > 0, U32(b, o, e), o), LAMBDA x : [t |-> "EarlyData", tag |-> 42, v |-> x])

(* parse_tls_versions: the whole window *)
SupportedVersionsContent(b, o, e, extLen) ==
  IF extLen = 2 THEN Map(U16(b, o, e), LAMBDA x : [t |-> "SupportedVersions", tag |-> 43, vers |-> <<x>>])
  ELSE Bind(U8(b, o, e), LAMBDA sk :
         IF extLen = 0 THEN Err("Verify")
         ELSE Map(MapParser(Window(b, sk.p, e, extLen - 1), LAMBDA s, t : U16List(b, s, t, t - s)),
                  LAMBDA v : [t |-> "SupportedVersions", tag |-> 43, vers |-> v]))

(* the only copied field of the crate: Vec<u8> by design *)
PskModesContent(b, o, e) ==
  Bind(U8(b, o, e), LAMBDA n :
    IF e - n.p < n.v THEN Inc(n.v - (e - n.p))
    ELSE Ok(n.p + n.v, [t |-> "PskExchangeModes", tag |-> 45, modes |-> SubSeq(b, n.p + 1, n.p + n.v)]))

OidFilter(b, o, e) ==
  Bind(LenData8(b, o, e), LAMBDA oid :
  Bind(LenData16(b, oid.p, e), LAMBDA val : Ok(val.p, [oid |-> oid.v, val |-> val.v])))
OidFiltersContent(b, o, e) ==
  Map(MapParser(LenWindow16(b, o, e), LAMBDA s, t : Many0(LAMBDA p : Complete(OidFilter(b, p, t)), s, t)),
      LAMBDA v : [t |-> "OidFilters", tag |-> 48, filters |-> v])

RenegotiationInfoContent(b, o, e) == Map(LenData8(b, o, e), LAMBDA d : [t |-> "RenegotiationInfo", tag |-> 65281, data |-> d])

EsniContent(b, o, e) ==
  Bind(U16(b, o, e), LAMBDA cs :
  Bind(U16(b, cs.p, e), LAMBDA gr :
  Bind(LenData16(b, gr.p, e), LAMBDA ks :
  Bind(LenData16(b, ks.p, e), LAMBDA rd :
  Bind(LenData16(b, rd.p, e), LAMBDA es :
    Ok(es.p, [t |-> "EncryptedServerName", tag |-> 65486, cipher |-> cs.v, group |-> gr.v, key_share |-> ks.v, digest |-> rd.v, esni |-> es.v]))))))

(* the meaning of a recognised type (the same in every dispatcher) *)
Content(ty, b, s, t) ==
  LET extLen == t - s IN
  CASE ty = 0  -> SniContent(b, s, t)
    [] ty = 1  -> MaxFragLenContent(b, s, t)
    [] ty = 5  -> StatusRequestContent(b, s, t, extLen)
    [] ty = 10 -> EllipticCurvesContent(b, s, t)
    [] ty = 11 -> EcPointFormatsContent(b, s, t)
    [] ty = 13 -> SigAlgsContent(b, s, t)
    [] ty = 15 -> HeartbeatContent(b, s, t)
    [] ty = 16 -> AlpnContent(b, s, t)
    [] ty = 18 -> SctContent(b, s, t)
    [] ty = 21 -> OpaqueContent(b, s, t, extLen, 21, "Padding")
    [] ty = 22 -> EmptyOnlyContent(s, extLen, 22, "EncryptThenMac")
    [] ty = 23 -> EmptyOnlyContent(s, extLen, 23, "ExtendedMasterSecret")
    [] ty = 28 -> RecordSizeLimitContent(b, s, t)
    [] ty = 35 -> OpaqueContent(b, s, t, extLen, 35, "SessionTicket")
    [] ty = 40 -> OpaqueContent(b, s, t, extLen, 40, "KeyShareOld")
    [] ty = 41 -> OpaqueContent(b, s, t, extLen, 41, "PreSharedKey")
    [] ty = 42 -> EarlyDataContent(b, s, t, extLen)
    [] ty = 43 -> SupportedVersionsContent(b, s, t, extLen)
    [] ty = 44 -> OpaqueContent(b, s, t, extLen, 44, "Cookie")
    [] ty = 45 -> PskModesContent(b, s, t)
    [] ty = 48 -> OidFiltersContent(b, s, t)
    [] ty = 49 -> EmptyOnlyContent(s, extLen, 49, "PostHandshakeAuth")
    [] ty = 51 -> OpaqueContent(b, s, t, extLen, 51, "KeyShare")
    [] ty = 13172 -> EmptyOnlyContent(s, extLen, 13172, "NextProtocolNegotiation")
    [] ty = 65281 -> RenegotiationInfoContent(b, s, t)
    [] ty = 65486 -> EsniContent(b, s, t)

(* one extension through one of the three dispatchers: type, u16 length, data window; *)
(* the content parser's remainder inside the data is dropped                          *)
DecExt(which, b, o, e) ==
  Bind(U16(b, o, e), LAMBDA ty :
  Bind(LenWindow16(b, ty.p, e), LAMBDA w :
    LET s == w.v[1]  t == w.v[2] IN
    IF IsGrease(ty.v) THEN Ok(w.p, [t |-> "Grease", tag |-> GreaseTag, ty |-> ty.v, data |-> Slice(b, s, t - s)])
    ELSE IF ty.v \in Recognised(which)
         THEN LET c == Content(ty.v, b, s, t) IN IF c.k = "ok" THEN Ok(w.p, c.v) ELSE c
         ELSE Ok(w.p, [t |-> "Unknown", tag |-> ty.v, ty |-> ty.v, data |-> Slice(b, s, t - s)])))

DecExtUnknown(b, o, e) ==
  Bind(U16(b, o, e), LAMBDA ty :
  Bind(LenData16(b, ty.p, e), LAMBDA d :
    Ok(d.p, [t |-> "Unknown", tag |-> ty.v, ty |-> ty.v, data |-> d.v])))

DecExtList(which, b, o, e) == Many0(LAMBDA p : Complete(DecExt(which, b, p, e)), o, e)

(* tag-specific parsers: tag([hi, lo]), then the parser's own framing of the length *)
TagParserTypes == {0, 1, 5, 10, 11, 13, 15, 22, 23, 35, 41, 42, 43, 44, 45, 51}
DecTagged(ty, b, o, e) ==
  Bind(TagBytes(b, o, e, BE16(ty)), LAMBDA tg :
    IF ty = 15 THEN    \* verify(be_u16, n == 1)
      Bind(Verify(U16(b, tg.p, e), LAMBDA n : n = 1), LAMBDA l :
        MapParser(Window(b, l.p, e, l.v), LAMBDA s, t : Content(ty, b, s, t)))
    ELSE MapParser(LenWindow16(b, tg.p, e), LAMBDA s, t : Content(ty, b, s, t)))

-----------------------------------------------------------------------------
(* RFC encoder of abstract extension values (content shape) *)
WireType(x) == IF x.t \in {"Grease", "Unknown"} THEN x.ty ELSE x.tag
EncU16List(xs) == [k \in 1..(2 * Len(xs)) |-> IF k % 2 = 1 THEN (xs[(k + 1) \div 2] \div 256) % 256 ELSE xs[k \div 2] % 256]
EncExtData(x) ==
  CASE x.t = "SNI" ->
         LET l == Concat([j \in 1..Len(x.names) |->
                          <<x.names[j].nt>> \o BE16(Len(x.names[j].name)) \o x.names[j].name])
         IN BE16(Len(l)) \o l
    [] x.t \in {"MaxFragmentLength", "Heartbeat"} -> <<x.v>>
    [] x.t = "StatusRequest" -> IF x.req = None THEN <<>> ELSE <<x.req[1].st>> \o x.req[1].data
    [] x.t = "EllipticCurves" -> BE16(2 * Len(x.groups)) \o EncU16List(x.groups)
    [] x.t \in {"EcPointFormats", "RenegotiationInfo"} -> <<Len(x.data)>> \o x.data
    [] x.t = "SignatureAlgorithms" -> BE16(2 * Len(x.algs)) \o EncU16List(x.algs)
    [] x.t = "ALPN" ->
         LET l == Concat([j \in 1..Len(x.protos) |-> <<Len(x.protos[j])>> \o x.protos[j]])
         IN BE16(Len(l)) \o l
    [] x.t = "SignedCertificateTimestamp" -> IF x.data = None THEN <<>> ELSE BE16(Len(x.data[1])) \o x.data[1]
    [] x.t \in {"Padding", "SessionTicket", "KeyShareOld", "PreSharedKey", "Cookie", "KeyShare",
                "Grease", "Unknown"} -> x.data
    [] x.t \in {"EncryptThenMac", "ExtendedMasterSecret", "PostHandshakeAuth", "NextProtocolNegotiation"} -> <<>>
    [] x.t = "RecordSizeLimit" -> BE16(x.v)
    [] x.t = "EarlyData" -> IF x.v = None THEN <<>> ELSE Limbs2Bytes(x.v[1])
    [] x.t = "SupportedVersions" ->
         <<2 * Len(x.vers)>> \o EncU16List(x.vers)      \* ClientHello form; the 2-byte selected_version form is a separate case
    [] x.t = "PskExchangeModes" -> <<Len(x.modes)>> \o x.modes
    [] x.t = "OidFilters" ->
         LET l == Concat([j \in 1..Len(x.filters) |->
                    <<Len(x.filters[j].oid)>> \o x.filters[j].oid
                    \o BE16(Len(x.filters[j].val)) \o x.filters[j].val])
         IN BE16(Len(l)) \o l
    [] x.t = "EncryptedServerName" ->
         BE16(x.cipher) \o BE16(x.group) \o BE16(Len(x.key_share)) \o x.key_share
         \o BE16(Len(x.digest)) \o x.digest \o BE16(Len(x.esni)) \o x.esni
EncExtRaw(ty, data) == BE16(ty) \o BE16(Len(data)) \o data
EncExt(x) == EncExtRaw(WireType(x), EncExtData(x))
EncExtList(xs) == Concat([j \in 1..Len(xs) |-> EncExt(xs[j])])

=============================================================================
