---------------------------- MODULE TlsHandshake ----------------------------
(***************************************************************************)
(* Handshake messages (src/tls_handshake.rs).                              *)
(*                                                                         *)
(*  Dec*  : the decoders, transcribed combinator by combinator from the    *)
(*          crate, quirks included and named.                              *)
(*  EncHs : what an RFC 5246 / 8446 / 5077 / 6066 / NPN-draft encoder      *)
(*          writes for an abstract handshake value.                        *)
(*                                                                         *)
(* Abstract values and decoded values have the same shape (records with a  *)
(* constructor tag `t'); in content mode (RangeMode = FALSE) opaque fields *)
(* are byte strings, in range mode they are ranges of the input.           *)
(***************************************************************************)
EXTENDS Nom

(* handshake type codes (IANA TLS HandshakeType) *)
HtHelloRequest == 0      HtClientHello == 1        HtServerHello == 2
HtHelloVerifyRequest == 3
HtNewSessionTicket == 4  HtEndOfEarlyData == 5     HtHelloRetryRequest == 6
HtCertificate == 11      HtServerKeyExchange == 12 HtCertificateRequest == 13
HtServerDone == 14       HtCertificateVerify == 15 HtClientKeyExchange == 16
HtFinished == 20         HtCertificateStatus == 22 HtKeyUpdate == 24
HtNextProtocol == 67

KnownHandshakeTypes == {0, 1, 2, 4, 5, 6, 11, 12, 13, 14, 15, 16, 20, 22, 24, 67}

VSsl30 == 768  VTls10 == 769  VTls11 == 770  VTls12 == 771  VTls13 == 772
VTls13Draft18 == 32530
ServerHelloLegacyVersions == {VSsl30, VTls10, VTls11, VTls12}

-----------------------------------------------------------------------------
(* Decoders *)

(* opt(complete(length_data(be_u16))): a truncated extension block reads as absent *)
ExtBlockOptComplete(b, o, e) == Opt(Complete(LenData16(b, o, e)), o)

(* verify(be_u8, n <= 32) then cond(n > 0, take(n)) *)
SessionId(b, o, e) ==
  Bind(Verify(U8(b, o, e), LAMBDA n : n <= 32), LAMBDA sl :
    Cond(sl.v > 0, Take(b, sl.p, e, sl.v), sl.p))

DecClientHello(b, o, e) ==
  Bind(U16(b, o, e), LAMBDA ver :
  Bind(Take(b, ver.p, e, 32), LAMBDA rnd :
  Bind(SessionId(b, rnd.p, e), LAMBDA sid :
  Bind(U16(b, sid.p, e), LAMBDA cl :
  Bind(U16List(b, cl.p, e, cl.v), LAMBDA cs :
  Bind(U8(b, cs.p, e), LAMBDA col :
  Bind(U8List(b, col.p, e, col.v), LAMBDA co :
  Bind(ExtBlockOptComplete(b, co.p, e), LAMBDA ex :
    Ok(ex.p, [t |-> "ClientHello", ver |-> ver.v, random |-> rnd.v, sid |-> sid.v,
              ciphers |-> cs.v, comp |-> co.v, ext |-> ex.v])))))))))

(* parse_tls_server_hello_tlsv12::<HAS_EXT> *)
DecServerHelloV12(b, o, e, hasExt) ==
  Bind(U16(b, o, e), LAMBDA ver :
  Bind(Take(b, ver.p, e, 32), LAMBDA rnd :
  Bind(SessionId(b, rnd.p, e), LAMBDA sid :
  Bind(U16(b, sid.p, e), LAMBDA ci :
  Bind(U8(b, ci.p, e), LAMBDA co :
  Bind(IF hasExt THEN ExtBlockOptComplete(b, co.p, e) ELSE Ok(co.p, None), LAMBDA ex :
    Ok(ex.p, [t |-> "ServerHello", ver |-> ver.v, random |-> rnd.v, sid |-> sid.v,
              cipher |-> ci.v, comp |-> co.v, ext |-> ex.v])))))))

DecServerHelloDraft18(b, o, e) ==
  Bind(U16(b, o, e), LAMBDA ver :
  Bind(Take(b, ver.p, e, 32), LAMBDA rnd :
  Bind(U16(b, rnd.p, e), LAMBDA ci :
  Bind(ExtBlockOptComplete(b, ci.p, e), LAMBDA ex :
    Ok(ex.p, [t |-> "ServerHelloV13Draft18", ver |-> ver.v, random |-> rnd.v,
              cipher |-> ci.v, ext |-> ex.v])))))

(* ServerHelloVersionSwitch: 0x0301-0x0303 with extensions, 0x0300 without, *)
(* 0x7f12 the draft-18 form (message level only), anything else Error(Tag). *)
DecServerHelloContents(b, o, e) ==    \* parse_tls_handshake_server_hello
  Bind(U16(b, o, e), LAMBDA v :
    IF v.v \in {VTls10, VTls11, VTls12} THEN DecServerHelloV12(b, o, e, TRUE)
    ELSE IF v.v = VSsl30 THEN DecServerHelloV12(b, o, e, FALSE)
    ELSE Err("Tag"))
DecServerHelloMsg(b, o, e) ==         \* parse_tls_handshake_msg_server_hello
  Bind(U16(b, o, e), LAMBDA v :
    IF v.v = VTls13Draft18 THEN DecServerHelloDraft18(b, o, e)
    ELSE IF v.v \in {VTls10, VTls11, VTls12} THEN DecServerHelloV12(b, o, e, TRUE)
    ELSE IF v.v = VSsl30 THEN DecServerHelloV12(b, o, e, FALSE)
    ELSE Err("Tag"))

(* NewSessionTicketLenGuard *)
DecNewSessionTicket(b, o, e, len) ==
  IF len < 4 THEN Err("Verify")
  ELSE Bind(U32(b, o, e), LAMBDA h :
       Bind(Take(b, h.p, e, len - 4), LAMBDA tk :
         Ok(tk.p, [t |-> "NewSessionTicket", hint |-> h.v, ticket |-> tk.v])))

DecHelloRetryRequest(b, o, e) ==
  Bind(U16(b, o, e), LAMBDA ver :
  Bind(U16(b, ver.p, e), LAMBDA ci :
  Bind(ExtBlockOptComplete(b, ci.p, e), LAMBDA ex :
    Ok(ex.p, [t |-> "HelloRetryRequest", ver |-> ver.v, cipher |-> ci.v, ext |-> ex.v]))))

(* u24 total, then many0(complete(length_data(be_u24))) confined to it; *)
(* InnerRemainderDropped: whatever the loop leaves inside the window is ignored *)
DecCertificate(b, o, e) ==
  Bind(U24(b, o, e), LAMBDA cl :
    Map(MapParser(Window(b, cl.p, e, cl.v),
                  LAMBDA s, t : Many0(LAMBDA p : Complete(LenData24(b, p, t)), s, t)),
        LAMBDA chain : [t |-> "Certificate", chain |-> chain]))

DecOpaqueBody(b, o, e, len, tag) ==
  Map(Take(b, o, e, len), LAMBDA d : [t |-> tag, data |-> d])
DecServerKeyExchange(b, o, e, len) ==
  Map(Take(b, o, e, len), LAMBDA d : [t |-> "ServerKeyExchange", params |-> d])
DecClientKeyExchange(b, o, e, len) ==
  Map(Take(b, o, e, len), LAMBDA d : [t |-> "ClientKeyExchange", kind |-> "Unknown", data |-> d])

CaList(b, o, e) ==
  Bind(U16(b, o, e), LAMBDA cal :
    MapParser(Window(b, cal.p, e, cal.v),
              LAMBDA s, t : Many0(LAMBDA p : Complete(LenData16(b, p, t)), s, t)))

DecCertReqFull(b, o, e) ==
  Bind(LengthCount8(b, o, e), LAMBDA ct :
  Bind(U16(b, ct.p, e), LAMBDA sl :
  Bind(MapParser(Window(b, sl.p, e, sl.v),
                 LAMBDA s, t : Many0(LAMBDA p : Complete(U16(b, p, t)), s, t)), LAMBDA sa :
  Bind(CaList(b, sa.p, e), LAMBDA ca :
    Ok(ca.p, [t |-> "CertificateRequest", types |-> ct.v, sigalgs |-> Some(sa.v), cas |-> ca.v])))))
DecCertReqLegacy(b, o, e) ==
  Bind(LengthCount8(b, o, e), LAMBDA ct :
  Bind(CaList(b, ct.p, e), LAMBDA ca :
    Ok(ca.p, [t |-> "CertificateRequest", types |-> ct.v, sigalgs |-> None, cas |-> ca.v])))
(* CertReqFullThenLegacy: alt((complete(full), complete(legacy))) *)
DecCertificateRequest(b, o, e) ==
  Alt2(Complete(DecCertReqFull(b, o, e)), Complete(DecCertReqLegacy(b, o, e)))

DecCertificateStatus(b, o, e) ==
  Bind(U8(b, o, e), LAMBDA st :
  Bind(LenData24(b, st.p, e), LAMBDA bl :
    Ok(bl.p, [t |-> "CertificateStatus", st |-> st.v, blob |-> bl.v])))

DecNextProtocol(b, o, e) ==
  Bind(LenData8(b, o, e), LAMBDA pr :
  Bind(LenData8(b, pr.p, e), LAMBDA pa :
    Ok(pa.p, [t |-> "NextProtocol", proto |-> pr.v, padding |-> pa.v])))

DecKeyUpdate(b, o, e) == Map(U8(b, o, e), LAMBDA x : [t |-> "KeyUpdate", v |-> x])

(* body dispatch of parse_tls_message_handshake on the window [s, t) of hl bytes *)
HsBody(b, s, t, ht, hl) ==
  CASE ht = HtHelloRequest       -> Ok(s, [t |-> "HelloRequest"])
    [] ht = HtClientHello        -> DecClientHello(b, s, t)
    [] ht = HtServerHello        -> DecServerHelloMsg(b, s, t)
    [] ht = HtNewSessionTicket   -> DecNewSessionTicket(b, s, t, hl)
    [] ht = HtEndOfEarlyData     -> Ok(s, [t |-> "EndOfEarlyData"])
    [] ht = HtHelloRetryRequest  -> DecHelloRetryRequest(b, s, t)
    [] ht = HtCertificate        -> DecCertificate(b, s, t)
    [] ht = HtServerKeyExchange  -> DecServerKeyExchange(b, s, t, hl)
    [] ht = HtCertificateRequest -> DecCertificateRequest(b, s, t)
    [] ht = HtServerDone         -> DecOpaqueBody(b, s, t, hl, "ServerDone")
    [] ht = HtCertificateVerify  -> DecOpaqueBody(b, s, t, hl, "CertificateVerify")
    [] ht = HtClientKeyExchange  -> DecClientKeyExchange(b, s, t, hl)
    [] ht = HtFinished           -> DecOpaqueBody(b, s, t, hl, "Finished")
    [] ht = HtCertificateStatus  -> DecCertificateStatus(b, s, t)
    [] ht = HtKeyUpdate          -> DecKeyUpdate(b, s, t)
    [] ht = HtNextProtocol       -> DecNextProtocol(b, s, t)
    [] OTHER                     -> Err("Switch")

(* parse_tls_message_handshake: type u8, length u24, BodyIsolatedByTake, *)
(* InnerRemainderDropped (bytes of the body the body parser leaves are ignored) *)
DecHandshake(b, o, e) ==
  Bind(U8(b, o, e), LAMBDA ht :
  Bind(U24(b, ht.p, e), LAMBDA hl :
  Bind(Window(b, hl.p, e, hl.v), LAMBDA w :
    LET body == HsBody(b, w.v[1], w.v[2], ht.v, hl.v)
    IN IF body.k = "ok" THEN Ok(w.p, [t |-> "hs", m |-> body.v]) ELSE body)))

-----------------------------------------------------------------------------
(* RFC encoder for abstract handshake values (content-mode shape) *)

EncOpt16(x) == IF x = None THEN <<>> ELSE BE16(Len(x[1])) \o x[1]
EncSid(sid) == IF sid = None THEN <<0>> ELSE <<Len(sid[1])>> \o sid[1]
EncU16s(xs) == [k \in 1..(2 * Len(xs)) |-> IF k % 2 = 1 THEN (xs[(k + 1) \div 2] \div 256) % 256 ELSE xs[k \div 2] % 256]

HsTypeCode(v) ==
  CASE v.t = "HelloRequest" -> 0 [] v.t = "ClientHello" -> 1 [] v.t = "ServerHello" -> 2
    [] v.t = "ServerHelloV13Draft18" -> 2 [] v.t = "NewSessionTicket" -> 4
    [] v.t = "EndOfEarlyData" -> 5 [] v.t = "HelloRetryRequest" -> 6
    [] v.t = "Certificate" -> 11 [] v.t = "ServerKeyExchange" -> 12
    [] v.t = "CertificateRequest" -> 13 [] v.t = "ServerDone" -> 14
    [] v.t = "CertificateVerify" -> 15 [] v.t = "ClientKeyExchange" -> 16
    [] v.t = "Finished" -> 20 [] v.t = "CertificateStatus" -> 22
    [] v.t = "KeyUpdate" -> 24 [] v.t = "NextProtocol" -> 67

EncHsBody(v) ==
  CASE v.t \in {"HelloRequest", "EndOfEarlyData"} -> <<>>
    [] v.t = "ClientHello" ->
         BE16(v.ver) \o v.random \o EncSid(v.sid) \o BE16(2 * Len(v.ciphers)) \o EncU16s(v.ciphers)
         \o <<Len(v.comp)>> \o v.comp \o EncOpt16(v.ext)
    [] v.t = "ServerHello" ->
         BE16(v.ver) \o v.random \o EncSid(v.sid) \o BE16(v.cipher) \o <<v.comp>> \o EncOpt16(v.ext)
    [] v.t = "ServerHelloV13Draft18" ->
         BE16(v.ver) \o v.random \o BE16(v.cipher) \o EncOpt16(v.ext)
    [] v.t = "NewSessionTicket" -> Limbs2Bytes(v.hint) \o v.ticket
    [] v.t = "HelloRetryRequest" -> BE16(v.ver) \o BE16(v.cipher) \o EncOpt16(v.ext)
    [] v.t = "Certificate" ->
         LET certs == Concat([i \in 1..Len(v.chain) |-> BE24(Len(v.chain[i])) \o v.chain[i]])
         IN BE24(Len(certs)) \o certs
    [] v.t = "ServerKeyExchange" -> v.params
    [] v.t = "CertificateRequest" ->
         LET cas == Concat([i \in 1..Len(v.cas) |-> BE16(Len(v.cas[i])) \o v.cas[i]])
         IN <<Len(v.types)>> \o v.types
            \o (IF v.sigalgs = None THEN <<>>
                ELSE BE16(2 * Len(v.sigalgs[1])) \o EncU16s(v.sigalgs[1]))
            \o BE16(Len(cas)) \o cas
    [] v.t \in {"ServerDone", "CertificateVerify", "Finished", "ClientKeyExchange"} -> v.data
    [] v.t = "CertificateStatus" -> <<v.st>> \o BE24(Len(v.blob)) \o v.blob
    [] v.t = "NextProtocol" -> <<Len(v.proto)>> \o v.proto \o <<Len(v.padding)>> \o v.padding
    [] v.t = "KeyUpdate" -> <<v.v>>

EncHsWith(v, body) == <<HsTypeCode(v)>> \o BE24(Len(body)) \o body
EncHs(v) == EncHsWith(v, EncHsBody(v))
=============================================================================
