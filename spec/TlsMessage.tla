----------------------------- MODULE TlsMessage -----------------------------
(***************************************************************************)
(* Per-content-type messages and the record payload dispatcher             *)
(* (src/tls_message.rs, src/tls_alert.rs, src/tls_record.rs:100-109).      *)
(***************************************************************************)
EXTENDS TlsHandshake

CtChangeCipherSpec == 20  CtAlert == 21  CtHandshake == 22
CtApplicationData == 23   CtHeartbeat == 24
KnownContentTypes == {20, 21, 22, 23, 24}

(* verify(be_u8, tag == 1) *)
DecCcs(b, o, e) == Map(Verify(U8(b, o, e), LAMBDA x : x = 1), LAMBDA x : [t |-> "ccs"])

(* derived parser: severity u8, description u8 *)
DecAlert(b, o, e) ==
  Bind(U8(b, o, e), LAMBDA s :
  Bind(U8(b, s.p, e), LAMBDA c :
    Ok(c.p, [t |-> "alert", sev |-> s.v, code |-> c.v])))

(* the whole window is the blob *)
DecAppData(b, o, e) == Ok(e, [t |-> "app", blob |-> Slice(b, o, e - o)])

(* parse_tls_message_heartbeat(i, tls_plaintext_len) -> Vec of one message *)
DecHeartbeat(b, o, e, plainLen) ==
  Bind(U8(b, o, e), LAMBDA ht :
  Bind(U16(b, ht.p, e), LAMBDA pl :
    IF plainLen < 3 THEN Err("Verify")
    ELSE Bind(Take(b, pl.p, e, pl.v), LAMBDA pay :
           Ok(pay.p, <<[t |-> "hb", hbt |-> ht.v, plen |-> pl.v, payload |-> pay.v]>>))))

(***************************************************************************)
(* parse_tls_record_with_header.  NORMATIVE where the property speaks:     *)
(*  - the application-data arm yields ONE message holding the whole        *)
(*    payload (C03: "one opaque application-data blob of any length");     *)
(*  - the heartbeat arm is wrapped in Complete, so that a complete record  *)
(*    never answers Incomplete (C02).                                      *)
(* The remaining arms are many1(complete(.)) as in the code.               *)
(***************************************************************************)
DecPayload(ct, b, o, e, hdrLen) ==
  CASE ct = CtChangeCipherSpec -> Many1(LAMBDA p : Complete(DecCcs(b, p, e)), o, e)
    [] ct = CtAlert            -> Many1(LAMBDA p : Complete(DecAlert(b, p, e)), o, e)
    [] ct = CtHandshake        -> Many1(LAMBDA p : Complete(DecHandshake(b, p, e)), o, e)
    [] ct = CtApplicationData  -> Map(DecAppData(b, o, e), LAMBDA m : <<m>>)
    [] ct = CtHeartbeat        -> Complete(DecHeartbeat(b, o, e, hdrLen))
    [] OTHER                   -> Err("Switch")

(* RFC encoders *)
EncMsg(m) ==
  CASE m.t = "ccs"   -> <<1>>
    [] m.t = "alert" -> <<m.sev, m.code>>
    [] m.t = "hs"    -> EncHs(m.m)
    [] m.t = "app"   -> m.blob
    [] m.t = "hb"    -> <<m.hbt>> \o BE16(m.plen) \o m.payload \o m.padding
EncPayload(msgs) == Concat([i \in 1..Len(msgs) |-> EncMsg(msgs[i])])
=============================================================================
