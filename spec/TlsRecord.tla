------------------------------ MODULE TlsRecord ------------------------------
(***************************************************************************)
(* TLS record framing (src/tls_record.rs): header, length cap, the three   *)
(* single-record parsers, the multi-record loop.                           *)
(***************************************************************************)
EXTENDS TlsMessage

MaxRecordLen == 16384 + 256

ParseHeader(b, o, e) ==
  Bind(U8(b, o, e), LAMBDA ct :
  Bind(U16(b, ct.p, e), LAMBDA ver :
  Bind(U16(b, ver.p, e), LAMBDA len :
    Ok(len.p, [ct |-> ct.v, ver |-> ver.v, len |-> len.v]))))

(* the cap check sits BEFORE take *)
ParseRaw(b, o, e) ==
  Bind(ParseHeader(b, o, e), LAMBDA h :
    IF h.v.len > MaxRecordLen THEN Err("TooLarge")
    ELSE Bind(Take(b, h.p, e, h.v.len), LAMBDA d : Ok(d.p, [hdr |-> h.v, data |-> d.v])))

ParseEncrypted(b, o, e) ==
  Bind(ParseHeader(b, o, e), LAMBDA h :
    IF h.v.len > MaxRecordLen THEN Err("TooLarge")
    ELSE Bind(Take(b, h.p, e, h.v.len), LAMBDA d : Ok(d.p, [hdr |-> h.v, blob |-> d.v])))

ParsePlaintext(b, o, e) ==
  Bind(ParseHeader(b, o, e), LAMBDA h :
    IF h.v.len > MaxRecordLen THEN Err("TooLarge")
    ELSE Map(MapParser(Window(b, h.p, e, h.v.len),
                       LAMBDA s, t : DecPayload(h.v.ct, b, s, t, h.v.len)),
             LAMBDA msgs : [hdr |-> h.v, msg |-> msgs]))

(* two-step parsing: parse_tls_raw_record, then parse_tls_record_with_header on its data; *)
(* the result's offset is that of the undecoded tail inside the record                   *)
TwoStep(b, o, e) ==
  Bind(ParseRaw(b, o, e), LAMBDA r :
    DecPayload(r.v.hdr.ct, b, r.p - r.v.hdr.len, r.p, r.v.hdr.len))

(* tls_parser_many = many1(complete(parse_tls_plaintext)) *)
ParseMany(b, o, e) == Many1(LAMBDA p : Complete(ParsePlaintext(b, p, e)), o, e)

(* RFC encoder of a record *)
EncRecordRaw(ct, ver, payload) == <<ct>> \o BE16(ver) \o BE16(Len(payload)) \o payload
EncRecord(ct, ver, msgs) == EncRecordRaw(ct, ver, EncPayload(msgs))
=============================================================================
