INIT Init
NEXT Next
CONSTANT RangeMode = TRUE
INVARIANT Judge
CHECK_DEADLOCK FALSE
