------------------------------ MODULE Trace_C02 ------------------------------
(***************************************************************************)
(* (c) impl -> spec for record framing: the compiled crate is swept over   *)
(* (content type, version) x ALL 65536 declared lengths x {header only, header + 3   *)
(* bytes} through the three single-record parsers; the outcome-code tables *)
(* are judged run by run against the codes the specification computes.     *)
(* Codes: "ok" (exact header, consumption and payload range), "I0"          *)
(* (Incomplete with exactly the missing bytes), "T" (TooLarge), "E" (other  *)
(* error); "ok!" / "I!" mark an inexact success / Needed.                   *)
(***************************************************************************)
EXTENDS Calls, Emit
ASSUME TLCSet(1, ndJsonDeserialize(IOEnv.VERIF_IN))
Tables == TLCGet(1)
N == Len(Tables)

Code(r, fn, ct, ver, len, extra) ==
  IF r.k = "ok" THEN
     (IF r.p = 5 + len /\ r.v.hdr = [ct |-> ct, ver |-> ver, len |-> len]
         /\ (fn = "parse_tls_raw_record" => r.v.data = Rng(5, len)) /\ (fn = "parse_tls_encrypted" => r.v.blob = Rng(5, len))
      THEN "ok" ELSE "ok!")
  ELSE IF r.k = "inc" THEN (IF r.n = 5 + len - (5 + extra) THEN "I0" ELSE "I!")
  ELSE IF r.e = "TooLarge" THEN "T" ELSE "E"
SpecCode(tb, len) ==
  LET b == <<tb.ct>> \o BE16(tb.ver) \o BE16(len) \o (IF tb.extra = 3 THEN <<1, 0, 0>> ELSE <<>>) IN
  Code(Apply(tb.fn, NoArgs, b), tb.fn, tb.ct, tb.ver, len, tb.extra)
Rle(tb) ==
  FoldLeft(LAMBDA acc, len : LET c == SpecCode(tb, len) n == Len(acc) IN
                             IF n > 0 /\ acc[n][1] = c THEN [acc EXCEPT ![n] = <<c, acc[n][2] + 1>>] ELSE Append(acc, <<c, 1>>),
           <<>>, [j \in 1..65536 |-> j - 1])
VARIABLE i
Init == i = Chunk + 1 /\ i <= N
Next == i + NChunks <= N /\ i' = i + NChunks
Judge ==
  LET tb == Tables[i]  want == Rle(tb)
      n == IF Len(tb.rle) < Len(want) THEN Len(tb.rle) ELSE Len(want)
      d == {k \in 1..n : tb.rle[k] # want[k]} IN
  EmitLine([fn |-> tb.fn, ct |-> tb.ct, ver |-> tb.ver, extra |-> tb.extra, agree |-> tb.rle = want,
            first |-> IF tb.rle = want THEN <<>>
                      ELSE IF d = {} THEN <<n + 1>>
                      ELSE LET k == CHOOSE k \in d : \A h \in d : k <= h IN
                           <<k, FoldLeft(LAMBDA a, x : a + x[2], 0, SubSeq(want, 1, k - 1)), tb.rle[k], want[k]>>])
=============================================================================
