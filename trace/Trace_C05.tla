------------------------------ MODULE Trace_C05 ------------------------------
(***************************************************************************)
(* (c) impl -> spec for the extension dispatchers and tag parsers: the     *)
(* compiled crate is swept over ALL 65536 extension types (three           *)
(* dispatchers x two payloads; each of the 16 tag parsers x all leading    *)
(* types); the outcome-code tables are judged, run by run, against the     *)
(* codes the specification computes for the same inputs.                   *)
(***************************************************************************)
EXTENDS Calls, Emit

ASSUME TLCSet(1, ndJsonDeserialize(IOEnv.VERIF_IN))
Tables == TLCGet(1)
N == Len(Tables)

Code(r, ty, plen, tagparser) ==
  IF r.k = "ok" THEN
     LET v == r.v  cons == (r.p = 4 + plen)
         dataok == v.data = (IF plen = 0 THEN Rng(0, 0) ELSE Rng(4, plen)) IN
     IF v.t = "Unknown" THEN (IF v.ty = ty /\ v.tag = ty /\ dataok /\ cons THEN "U" ELSE "U!")
     ELSE IF v.t = "Grease" THEN (IF v.ty = ty /\ v.tag = GreaseTag /\ dataok /\ cons THEN "G" ELSE "G!")
     ELSE (IF v.tag = ty /\ cons THEN "T:" ELSE "T!:") \o v.t
  ELSE IF tagparser /\ r.k \in {"err", "fail"} /\ r.e = "Tag" THEN "E:Tag" ELSE "E"

FnOf(w) == CASE w = "client" -> "parse_tls_client_hello_extension" [] w = "server" -> "parse_tls_server_hello_extension"
             [] w = "generic" -> "parse_tls_extension"
SpecCode(tb, ty) ==
  IF tb.kind = "dispatchp"
  THEN LET b == BE16(ty) \o <<0, tb.plen>> \o tb.payload IN Code(DecExt(tb.which, b, 0, Len(b)), ty, tb.plen, FALSE)
  ELSE IF tb.kind = "dispatch"
  THEN LET b == BE16(ty) \o <<0, tb.plen>> \o (IF tb.plen = 0 THEN <<>> ELSE <<0>>) \o (IF tb.trail = 0 THEN <<>> ELSE <<0, 23, 0, 0>>)
       IN Code(DecExt(tb.which, b, 0, Len(b)), ty, tb.plen, FALSE)
  ELSE LET b == BE16(ty) \o <<0, 1, 0>> IN Code(DecTagged(tb.own, b, 0, 5), ty, 1, TRUE)

Rle(tb) ==
  FoldLeft(LAMBDA acc, ty : LET c == SpecCode(tb, ty) n == Len(acc) IN
                            IF n > 0 /\ acc[n][1] = c THEN [acc EXCEPT ![n] = <<c, acc[n][2] + 1>>] ELSE Append(acc, <<c, 1>>),
           <<>>, [j \in 1..65536 |-> j - 1])

VARIABLE i
Init == i = Chunk + 1 /\ i <= N
Next == i + NChunks <= N /\ i' = i + NChunks
Judge ==
  LET tb == Tables[i]  want == Rle(tb)
      n == IF Len(tb.rle) < Len(want) THEN Len(tb.rle) ELSE Len(want)
      d == {k \in 1..n : tb.rle[k] # want[k]} IN
  EmitLine([table |-> IF tb.kind = "dispatchp" THEN tb.which \o "/payload" \o ToString(tb.payload)
                      ELSE IF tb.kind = "dispatch" THEN tb.which \o "/" \o ToString(tb.plen) \o "+" \o ToString(tb.trail) ELSE tb.fn, agree |-> tb.rle = want,
            first |-> IF tb.rle = want THEN <<>>
                      ELSE IF d = {} THEN <<n + 1>>
                      ELSE LET k == CHOOSE k \in d : \A h \in d : k <= h IN
                           <<k, FoldLeft(LAMBDA a, x : a + x[2], 0, SubSeq(want, 1, k - 1)), tb.rle[k], want[k]>>])
=============================================================================
