INIT Init
NEXT Next
INVARIANT Judge
INVARIANT Last
CHECK_DEADLOCK FALSE
