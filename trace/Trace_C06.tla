------------------------------ MODULE Trace_C06 ------------------------------
(***************************************************************************)
(* impl -> spec, relational (no functional oracle needed): every input the *)
(* crate accepts is re-run on exactly its consumed bytes and on those      *)
(* bytes followed by suffixes, in separately allocated buffers; the        *)
(* recorded triples must satisfy Robust!LocalPair and the observation      *)
(* invariants.                                                             *)
(***************************************************************************)
EXTENDS Robust, Json, IOUtils
ASSUME TLCSet(1, ndJsonDeserialize(IOEnv.VERIF_IN))
Runs == TLCGet(1)
N == Len(Runs)
NChunks == atoi(IOEnv.VERIF_NCHUNKS)
Chunk == atoi(IOEnv.VERIF_CHUNK)
Emit(rec) == Serialize(ToJson(rec) \o "\n", IOEnv.VERIF_OUT,
                       [format |-> "TXT", charset |-> "UTF-8", openOptions |-> <<"WRITE", "CREATE", "APPEND">>]).exitValue = 0
VARIABLE i
Init == i = Chunk + 1 /\ i <= N
Next == i + NChunks <= N /\ i' = i + NChunks
RunOk(r) ==
  /\ Robust(r.base) /\ r.base.res.k = "ok" /\ r.base.res.p = r.p /\ r.base.len = r.p
  /\ \A k \in 1..Len(r.ext) : Robust(r.ext[k]) /\ LocalPair(r.base, r.ext[k])
Judge == IF RunOk(Runs[i]) THEN TRUE
         ELSE Emit([id |-> Runs[i].id,
                    why |-> IF ~Robust(Runs[i].base) THEN FirstBroken(Runs[i].base)
                            ELSE IF Runs[i].base.res.k # "ok" \/ Runs[i].base.res.p # Runs[i].p THEN "the consumed bytes alone are not accepted the same way"
                            ELSE LET k == CHOOSE k \in 1..Len(Runs[i].ext) : ~(Robust(Runs[i].ext[k]) /\ LocalPair(Runs[i].base, Runs[i].ext[k])) IN
                                 IF ~Robust(Runs[i].ext[k]) THEN FirstBroken(Runs[i].ext[k]) ELSE "LocalPair (suffix changes value, consumed length or class)"])
Last == (i + NChunks > N) => Emit([id |-> "done", why |-> ""])
=============================================================================
