INIT Init
NEXT Next
CONSTANT RangeMode = TRUE
CONSTANT MaxRecordData = 10485760
INVARIANT Report
CHECK_DEADLOCK FALSE
