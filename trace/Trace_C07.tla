------------------------------ MODULE Trace_C07 ------------------------------
(***************************************************************************)
(* impl -> spec for the defragmenter: operation sequences recorded from a  *)
(* real TlsRecordsParser (seeded random drivers) are validated against the *)
(* actions of Defrag.tla.  Every field an action needs is logged, so the   *)
(* trace specification is a deterministic monitor: the state is advanced   *)
(* by Step and each logged outcome must be explained by it.  One verdict   *)
(* line per run names the first unexplained event, if any.                 *)
(***************************************************************************)
EXTENDS Defrag, Emit

ASSUME TLCSet(1, ndJsonDeserialize(IOEnv.VERIF_IN))
Runs == TLCGet(1)
N == Len(Runs)

VARIABLES r, l, buf, cur, verdict
Init == r = Chunk + 1 /\ r <= N /\ l = 1 /\ buf = <<>> /\ cur = -1 /\ verdict = "running"

OpOf(j) == [op |-> j.op, ct |-> j.ct, ver |-> j.ver, data |-> Flatten(j.data)]


(* what is pinned for one step (DESIGN.md appendix I) *)
Explains(out, obs) ==
  /\ obs.res.k = out.res.k
  /\ obs.inprog = (out.cur # -1)
  /\ (out.cur # -1) => obs.buflen = Len(out.buf)
  /\ out.res.k = "ok" =>
        /\ obs.res.p = out.res.p /\ obs.res.v = out.res.v
        /\ obs.res.src \in {"none", out.src}
  /\ (out.res.k \in {"err", "fail"} /\ out.res.e \in {"Tag", "TooLarge", "NonEmpty"}) => obs.res.e = out.res.e
  /\ obs.rem_ok

Advance ==
  /\ verdict = "running" /\ l <= Len(Runs[r].ops)
  /\ LET out == Step([buf |-> buf, cur |-> cur], OpOf(Runs[r].ops[l])) obs == Runs[r].results[l] IN
     IF Explains(out, obs)
     THEN /\ buf' = out.buf /\ cur' = out.cur /\ l' = l + 1
          /\ verdict' = IF l = Len(Runs[r].ops) THEN "accepted" ELSE "running"
          /\ UNCHANGED r
     ELSE /\ verdict' = "rejected" /\ UNCHANGED <<r, l, buf, cur>>
NextRun ==
  /\ verdict # "running" \/ Len(Runs[r].ops) = 0
  /\ r + NChunks <= N
  /\ r' = r + NChunks /\ l' = 1 /\ buf' = <<>> /\ cur' = -1 /\ verdict' = "running"
Next == Advance \/ NextRun

(* one line per finished run; for a rejected run: the event and what the model expected there *)
Report ==
  verdict # "running" =>
    EmitLine([id |-> Runs[r].id, verdict |-> verdict, at |-> l,
              expected |-> IF verdict = "rejected"
                           THEN LET out == Step([buf |-> buf, cur |-> cur], OpOf(Runs[r].ops[l])) IN
                                [res |-> out.res, src |-> out.src, inprog |-> out.cur # -1, buflen |-> Len(out.buf), path |-> out.path]
                           ELSE [res |-> Ok(0, <<>>), src |-> "", inprog |-> FALSE, buflen |-> 0, path |-> ""]])
=============================================================================
