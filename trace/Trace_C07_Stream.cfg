INIT Init
NEXT Next
INVARIANT BufferBound
INVARIANT Exercised
INVARIANT Report
CHECK_DEADLOCK FALSE
