-------------------------- MODULE Trace_C07_Stream --------------------------
(***************************************************************************)
(* The defragmenter at its real size: the same state machine as Defrag.tla *)
(* instantiated with lengths only (the buffer is represented by its        *)
(* length, the one-shot parser by "a handshake message declaring 2^24-1    *)
(* bytes is incomplete while the buffer is shorter than that").  A stream  *)
(* recorded from the real object - 16640-byte records until refusal, then  *)
(* the exact boundary - is validated event by event; BufferBound is        *)
(* evaluated at the real constant.                                         *)
(***************************************************************************)
EXTENDS Integers, Sequences, TLC, Json, IOUtils

MaxRecordData == 10 * 1024 * 1024
Declared == 4 + 16777215

ASSUME TLCSet(1, ndJsonDeserialize(IOEnv.VERIF_IN))
Events == TLCGet(1)
N == Len(Events)

VARIABLES l, blen, cur, need, verdict
Init == l = 1 /\ blen = 0 /\ cur = -1 /\ need = 0 /\ verdict = "running"

(* expected outcome and next state for one event: [k, e, blen, cur, need].  `need' is the total size declared by the message being *)
(* defragmented (its first fragment carries the 4-byte header: ev.decl); completion = the buffer reaches it                          *)
StepLen(ev) ==
  CASE ev.op = "reset" -> [k |-> "ok", e |-> "", blen |-> 0, cur |-> -1, need |-> 0]
    [] ev.op = "nocopy" /\ cur # -1 -> [k |-> "fail", e |-> "NonEmpty", blen |-> blen, cur |-> cur, need |-> need]
    [] ev.op = "nocopy" -> [k |-> "ok", e |-> "", blen |-> blen, cur |-> cur, need |-> need]          \* 00 00 00 00 = HelloRequest
    [] cur = -1 /\ ev.ct \in {20, 21} -> [k |-> "ok", e |-> "", blen |-> blen, cur |-> cur, need |-> need]   \* parsed without copy
    [] cur = -1 /\ ev.decl > 0 /\ ev.len >= ev.decl -> [k |-> "ok", e |-> "", blen |-> blen, cur |-> cur, need |-> need]  \* whole on its own
    [] cur = -1 -> [k |-> "inc", e |-> "", blen |-> ev.len, cur |-> ev.ct, need |-> IF ev.decl > 0 THEN ev.decl ELSE Declared]  \* First_StartDefrag
    [] ev.ct # cur -> [k |-> "err", e |-> "Tag", blen |-> blen, cur |-> cur, need |-> need]
    [] blen + ev.len >= MaxRecordData -> [k |-> "err", e |-> "TooLarge", blen |-> blen, cur |-> cur, need |-> need]
    [] blen + ev.len >= need -> [k |-> "ok", e |-> "", blen |-> blen + ev.len, cur |-> -1, need |-> 0]     \* Cont_Complete (buffer kept)
    [] OTHER -> [k |-> "inc", e |-> "", blen |-> blen + ev.len, cur |-> cur, need |-> need]                \* Cont_NeedMore

Explains(x, ev) ==
  /\ ev.k = x.k /\ (x.k \in {"err", "fail"} => ev.e = x.e)
  /\ ev.inprog = (x.cur # -1)
  /\ (x.cur # -1) => ev.buflen = x.blen
  /\ ev.alloc <= 1024 * ev.len + 2 * ev.buflen + 65536     \* heap inside the call: linear in the record + amortised buffer growth

Next ==
  /\ verdict = "running" /\ l <= N
  /\ LET x == StepLen(Events[l]) IN
     IF Explains(x, Events[l])
     THEN /\ blen' = x.blen /\ cur' = x.cur /\ need' = x.need /\ l' = l + 1
          /\ verdict' = IF l = N THEN "accepted" ELSE "running"
     ELSE /\ verdict' = "rejected" /\ UNCHANGED <<l, blen, cur, need>>

(* the property's clause, at the real constant *)
BufferBound == blen < MaxRecordData /\ blen + 0 < Declared /\ (cur # -1 => blen < need)
(* the limit is actually exercised by the stream (no vacuity) *)
Exercised == verdict = "accepted" => \E j \in 1..N : Events[j].e = "TooLarge"

Report ==
  verdict # "running" =>
    Serialize(ToJson([verdict |-> verdict, at |-> l, expected |-> IF l <= N THEN StepLen(Events[l]) ELSE [k |-> "", e |-> "", blen |-> 0, cur |-> 0, need |-> 0]]) \o "\n",
              IOEnv.VERIF_OUT, [format |-> "TXT", charset |-> "UTF-8", openOptions |-> <<"WRITE", "CREATE", "APPEND">>]).exitValue = 0
=============================================================================
