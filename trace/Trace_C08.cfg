INIT Init
NEXT Next
INVARIANT SweepIsTotal
CHECK_DEADLOCK FALSE
