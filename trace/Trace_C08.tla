------------------------------ MODULE Trace_C08 ------------------------------
(***************************************************************************)
(* impl -> spec for the handshake automaton:                               *)
(*  - the complete cell table swept from the compiled crate (25 states x 2 *)
(*    directions x 23 kinds, every payload variant of a kind, all 256 x    *)
(*    256 alerts) is judged cell by cell against Trans;                    *)
(*  - seeded random message sequences are validated step by step (the      *)
(*    caller-held state follows Ok results).                               *)
(* One line per disagreement; a final summary line.                        *)
(***************************************************************************)
EXTENDS States, SequencesExt, Json, IOUtils

ASSUME TLCSet(1, ndJsonDeserialize(IOEnv.VERIF_SWEEP))
ASSUME TLCSet(2, ndJsonDeserialize(IOEnv.VERIF_RUNS))
Sweep == TLCGet(1)
Runs == TLCGet(2)

Emit(rec) == Serialize(ToJson(rec) \o "\n", IOEnv.VERIF_OUT,
                       [format |-> "TXT", charset |-> "UTF-8", openOptions |-> <<"WRITE", "CREATE", "APPEND">>]).exitValue = 0

VARIABLES phase, j, l, st
Init == phase = "sweep" /\ j = 1 /\ l = 1 /\ st = "None"

(* a cell is explained iff every payload variant of the kind gave the one result the model names *)
CellOk(row) == row.res = <<ResultCode(Trans(row.state, row.kind, row.dir))>>

SweepStep ==
  /\ phase = "sweep" /\ j <= Len(Sweep)
  /\ IF CellOk(Sweep[j]) THEN TRUE ELSE Emit([what |-> "cell", state |-> Sweep[j].state, kind |-> Sweep[j].kind, dir |-> Sweep[j].dir,
                               observed |-> Sweep[j].res, expected |-> ResultCode(Trans(Sweep[j].state, Sweep[j].kind, Sweep[j].dir))])
  /\ j' = j + 1 /\ UNCHANGED <<phase, l, st>>
SweepDone ==
  /\ phase = "sweep" /\ j > Len(Sweep)
  /\ phase' = "runs" /\ j' = 1 /\ l' = 1 /\ st' = "None"

RunStep ==
  /\ phase = "runs" /\ j <= Len(Runs) /\ l <= Len(Runs[j].steps)
  /\ LET ev == Runs[j].steps[l]  x == Trans(st, ev.kind, ev.dir) IN
     /\ IF ev.res = ResultCode(x) THEN TRUE ELSE Emit([what |-> "step", run |-> Runs[j].id, at |-> l, from |-> st, kind |-> ev.kind, dir |-> ev.dir,
                                        observed |-> ev.res, expected |-> ResultCode(x)])
     /\ st' = IF ev.res \in AllStates THEN ev.res ELSE st      \* follow the implementation, as the caller does
     /\ l' = l + 1 /\ UNCHANGED <<phase, j>>
RunNext ==
  /\ phase = "runs" /\ j <= Len(Runs) /\ l > Len(Runs[j].steps)
  /\ j' = j + 1 /\ l' = 1 /\ st' = "None" /\ UNCHANGED phase
Finish ==
  /\ phase = "runs" /\ j > Len(Runs)
  /\ Emit([what |-> "done", cells |-> Len(Sweep), runs |-> Len(Runs)])
  /\ phase' = "done" /\ UNCHANGED <<j, l, st>>
Next == SweepStep \/ SweepDone \/ RunStep \/ RunNext \/ Finish

(* the sweep covers the whole relation *)
SweepIsTotal == Len(Sweep) = Cardinality(AllStates) * 2 * Cardinality(Kinds)
=============================================================================
