------------------------------ MODULE Trace_C09 ------------------------------
(***************************************************************************)
(* impl -> spec for the serializer: the bytes produced by the compiled      *)
(* crate are judged by the specification's strict decoders (every length    *)
(* field equals the byte length of what it prefixes; everything consumed);  *)
(* the decoded value is handed back for comparison with Normalize(v).       *)
(***************************************************************************)
EXTENDS Serialize, Emit

ASSUME TLCSet(1, ndJsonDeserialize(IOEnv.VERIF_IN))
Events == TLCGet(1)
N == Len(Events)
VARIABLE i
Init == i = Chunk + 1 /\ i <= N
Next == i + NChunks <= N /\ i' = i + NChunks

Judge ==
  LET ev == Events[i] IN
  EmitLine([id |-> ev.id,
            strict |-> CASE ev.kind = "hs" -> LET s == StrictHs(ev.bytes) IN [ok |-> s.ok, v |-> <<s.v>>]
                         [] ev.kind = "record" -> StrictRecord(ev.bytes)
                         [] ev.kind = "exts" -> StrictExtBlock(ev.bytes)
                         [] ev.kind = "ccs_msg" -> [ok |-> ev.bytes = <<1>>, v |-> <<[t |-> "ccs"]>>]])
=============================================================================
