------------------------------ MODULE Trace_C12 ------------------------------
(***************************************************************************)
(* The crate's cipher-suite registry, dumped through all four id routes for *)
(* all 65536 ids and through both name routes for every registry name and   *)
(* its perturbations, judged against Ciphers.tla / the generated tables.    *)
(***************************************************************************)
EXTENDS Ciphers, Json, IOUtils

ASSUME TLCSet(1, ndJsonDeserialize(IOEnv.VERIF_IN))
Dump == TLCGet(1)
Rows == SelectSeq(Dump, LAMBDA e : e.kind = "row")
Queries == SelectSeq(Dump, LAMBDA e : e.kind = "name")
Summary == (SelectSeq(Dump, LAMBDA e : e.kind = "summary"))[1]
ASSUME TLCSet(2, Rows)
ASSUME TLCSet(3, Queries)

Emit(rec) == Serialize(ToJson(rec) \o "\n", IOEnv.VERIF_OUT,
                       [format |-> "TXT", charset |-> "UTF-8", openOptions |-> <<"WRITE", "CREATE", "APPEND">>]).exitValue = 0

VARIABLES phase, j
Init == phase = "table" /\ j = 1

(* the table itself: unique ids and names, pinned rows unaltered, parameters agree with the names *)
TableStep ==
  /\ phase = "table"
  /\ IF TableWellFormed(Current) /\ PinnedKept THEN TRUE
     ELSE Emit([what |-> "table", unique_ids |-> UniqueIds(Current), unique_names |-> UniqueNames(Current), pinned_kept |-> PinnedKept,
                bad_rows |-> {Current[k].name : k \in {k \in 1..Len(Current) : ~(NameAgrees(Current[k]) /\ SizesConsistent(Current[k]))}},
                altered |-> {Pinned[k].name : k \in {k \in 1..Len(Pinned) : ~\E h \in 1..Len(Current) : Current[h] = Pinned[k]}}])
  /\ phase' = "rows" /\ j' = 1

(* every suite the crate holds is the listed row, carries the queried id on every route, with the derived sizes *)
RowOk(e) ==
  /\ e.hex \in Hexes(Current)
  /\ e.routes_agree /\ e.carries_id
  /\ LET s == SpecRow(RowByHex(Current, e.hex)) IN
     /\ e.name = s.name /\ e.kx = s.kx /\ e.au = s.au /\ e.enc = s.enc /\ e.mode = s.mode /\ e.bits = s.bits
     /\ e.mac = s.mac /\ e.macbits = s.macbits /\ e.prf = s.prf /\ e.maclen = s.maclen /\ e.blocksize = s.blocksize
     /\ e.keybytes = s.keybytes
RowStep ==
  /\ phase = "rows" /\ j <= Len(TLCGet(2))
  /\ LET e == TLCGet(2)[j] IN
     IF RowOk(e) THEN TRUE
     ELSE Emit([what |-> "row", hex |-> e.hex, observed |-> e,
                expected |-> IF e.hex \in Hexes(Current) THEN SpecRow(RowByHex(Current, e.hex)) ELSE [hex |-> "absent from the file"]])
  /\ j' = j + 1 /\ UNCHANGED phase
RowsDone ==
  /\ phase = "rows" /\ j > Len(TLCGet(2))
  /\ IF {TLCGet(2)[k].hex : k \in 1..Len(TLCGet(2))} = Hexes(Current) /\ Summary.present = Len(Current) /\ Summary.absent = 65536 - Len(Current)
        /\ Summary.route_disagreements = 0
     THEN TRUE
     ELSE Emit([what |-> "count", present |-> Summary.present, absent |-> Summary.absent, listed |-> Len(Current),
                route_disagreements |-> Summary.route_disagreements,
                missing |-> Hexes(Current) \ {TLCGet(2)[k].hex : k \in 1..Len(TLCGet(2))}])
  /\ phase' = "names" /\ j' = 1
(* lookup by name returns the unique suite with that name and nothing for any other string *)
NameStep ==
  /\ phase = "names" /\ j <= Len(TLCGet(3))
  /\ LET e == TLCGet(3)[j]  want == LookupName(Current, e.s) IN
     IF e.from_name = want /\ e.try_from = want THEN TRUE
     ELSE Emit([what |-> "name", s |-> e.s, observed |-> <<e.from_name, e.try_from>>, expected |-> want])
  /\ j' = j + 1 /\ UNCHANGED phase
(* the seeded sweep of pseudo-random strings outside the registry: none may resolve *)
Random == (SelectSeq(Dump, LAMBDA e : e.kind = "random_names"))[1]
Finish ==
  /\ phase = "names" /\ j > Len(TLCGet(3))
  /\ IF Random.hits = <<>> THEN TRUE
     ELSE Emit([what |-> "name", s |-> Random.hits[1].s, observed |-> <<Random.hits[1].id, Random.hits[1].id>>, expected |-> "none"])
  /\ Emit([what |-> "done", rows |-> Len(TLCGet(2)), names |-> Len(TLCGet(3)), random |-> Random.queries])
  /\ phase' = "done" /\ UNCHANGED j
Next == TableStep \/ RowStep \/ RowsDone \/ NameStep \/ Finish
=============================================================================
