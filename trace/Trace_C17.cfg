INIT Init
NEXT Next
INVARIANT TablesInjective
CHECK_DEADLOCK FALSE
