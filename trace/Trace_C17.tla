------------------------------ MODULE Trace_C17 ------------------------------
(***************************************************************************)
(* The crate's registry constants, names and conversions, swept over the    *)
(* whole integer domain of the 18 registry newtypes, judged against          *)
(* Registry.tla.                                                             *)
(***************************************************************************)
EXTENDS Registry, Json, IOUtils

ASSUME TLCSet(1, ndJsonDeserialize(IOEnv.VERIF_IN))
Dump == TLCGet(1)
Emit(rec) == Serialize(ToJson(rec) \o "\n", IOEnv.VERIF_OUT,
                       [format |-> "TXT", charset |-> "UTF-8", openOptions |-> <<"WRITE", "CREATE", "APPEND">>]).exitValue = 0

VARIABLE j
Init == j = 1

TypeSet == {Types[k] : k \in 1..Len(Types)}
Judge(e) ==
  CASE e.kind = "const" ->
         IF e.type \in TypeSet /\ e.name \in Names(e.type) /\ ValueOf(e.type, e.name) = e.value THEN TRUE
         ELSE Emit([what |-> "const", type |-> e.type, name |-> e.name, observed |-> e.value,
                    expected |-> IF e.type \in TypeSet /\ e.name \in Names(e.type) THEN ValueOf(e.type, e.name) ELSE -1])
    [] e.kind = "class" ->
         LET mode == IF e.which = "display" THEN DisplayMode(e.type) ELSE DebugMode(e.type)
             want == ExpectedRle(e.type, mode) IN
         IF e.rle = want THEN TRUE
         ELSE Emit([what |-> "class", type |-> e.type, which |-> e.which,
                    first_difference |-> LET n == IF Len(e.rle) < Len(want) THEN Len(e.rle) ELSE Len(want)
                                             d == {k \in 1..n : e.rle[k] # want[k]} IN
                                         IF d = {} THEN [at |-> n + 1, observed |-> <<"", 0>>, expected |-> <<"", 0>>]
                                         ELSE LET k == CHOOSE k \in d : \A h \in d : k <= h IN [at |-> k, observed |-> e.rle[k], expected |-> want[k]]])
    [] e.kind = "conv" ->
         IF e.failures = 0 THEN TRUE ELSE Emit([what |-> "conv", type |-> e.type, conv |-> e.conv, failures |-> e.failures, first |-> e.first])
    [] e.kind = "reserved" -> IF e.rle = ReservedRle THEN TRUE ELSE Emit([what |-> "reserved", observed |-> e.rle])
    [] e.kind = "keybits" ->
         LET obs == [v \in 0..65535 |-> -1]
             some == {<<e.some[k][1], e.some[k][2]>> : k \in 1..Len(e.some)}
             bad == {p \in some : p[2] \notin KeyBitsAdmissible(p[1])}
                    \cup {<<v, -1>> : v \in {v \in Values("NamedGroup") \cup (0..64) : -1 \notin KeyBitsAdmissible(v) /\ ~\E p \in some : p[1] = v}} IN
         IF bad = {} THEN TRUE ELSE Emit([what |-> "keybits", bad |-> bad])
    (* a constant found outside the tables under a registry name carries that name's value (spelling variants are matched by the orchestrator *)
    (* against the table judged here)                                                                                                         *)
    [] e.kind = "alias" ->
         IF e.type \in TypeSet /\ e.name \in Names(e.type) /\ ValueOf(e.type, e.name) # e.value
         THEN Emit([what |-> "const", type |-> e.type, name |-> e.name, observed |-> e.value, expected |-> ValueOf(e.type, e.name)]) ELSE TRUE
    [] OTHER -> TRUE

Next ==
  \/ /\ j <= Len(Dump) /\ Judge(Dump[j]) /\ j' = j + 1
  \/ /\ j = Len(Dump) + 1
     /\ Emit([what |-> "done", events |-> Len(Dump),
              consts |-> Cardinality({k \in 1..Len(Dump) : Dump[k].kind = "const"}),
              expected_consts |-> FoldLeft(LAMBDA a, t : a + Len(Reg(t)), 0, Types)])
     /\ j' = j + 1

(* the registry tables themselves *)
TablesInjective == \A k \in 1..Len(Types) : Injective(Types[k])
=============================================================================
