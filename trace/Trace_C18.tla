------------------------------ MODULE Trace_C18 ------------------------------
EXTENDS FeatureMatrix, Json, IOUtils
ASSUME TLCSet(1, ndJsonDeserialize(IOEnv.VERIF_IN))
Obs == TLCGet(1)
Builds == SelectSeq(Obs, LAMBDA e : e.kind = "build")
Static == (SelectSeq(Obs, LAMBDA e : e.kind = "static"))[1]
Emit(rec) == Serialize(ToJson(rec) \o "\n", IOEnv.VERIF_OUT,
                       [format |-> "TXT", charset |-> "UTF-8", openOptions |-> <<"WRITE", "CREATE", "APPEND">>]).exitValue = 0
VARIABLE done
Init == done = FALSE
Next == /\ ~done /\ done' = TRUE
        /\ Emit([all_configs |-> AllConfigsSeen(Builds),
                 bad_configs |-> {Builds[k].config : k \in {k \in 1..Len(Builds) : ~ConfigOk(Builds[k])}},
                 digests_agree |-> DigestsAgree(Builds), no_unsafe |-> NoUnsafe(Static), send_sync |-> SendSync(Static)])
=============================================================================
