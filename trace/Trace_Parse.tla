----------------------------- MODULE Trace_Parse -----------------------------
(***************************************************************************)
(* impl -> spec for the pure parsers: events recorded from the compiled    *)
(* crate (function, arguments, input) are evaluated by the specification;  *)
(* the orchestrator compares the specification's answer with the recorded  *)
(* one under the pin masks (precise-decoder disagreements on arbitrary     *)
(* inputs are advisory, the Robust invariants are not).                    *)
(***************************************************************************)
EXTENDS Calls, Emit

ASSUME TLCSet(1, ndJsonDeserialize(IOEnv.VERIF_IN))
Events == TLCGet(1)
N == Len(Events)

VARIABLE i
Init == i = Chunk + 1 /\ i <= N
Next == i + NChunks <= N /\ i' = i + NChunks

Judge ==
  LET ev == Events[i] IN
  EmitLine([id |-> ev.id, spec |-> Apply(ev.fn, ev.a, Flatten(ev.input))])
=============================================================================
