----------------------------- MODULE Trace_Robust -----------------------------
(***************************************************************************)
(* Every recorded call (fuzz corpora, exhaustive short inputs, replayed    *)
(* cases) is checked against the observation invariants of Robust.tla;     *)
(* one line per event that breaks one.                                     *)
(***************************************************************************)
EXTENDS Robust, Json, IOUtils
ASSUME TLCSet(1, ndJsonDeserialize(IOEnv.VERIF_IN))
Events == TLCGet(1)
N == Len(Events)
NChunks == atoi(IOEnv.VERIF_NCHUNKS)
Chunk == atoi(IOEnv.VERIF_CHUNK)
Emit(rec) == Serialize(ToJson(rec) \o "\n", IOEnv.VERIF_OUT,
                       [format |-> "TXT", charset |-> "UTF-8", openOptions |-> <<"WRITE", "CREATE", "APPEND">>]).exitValue = 0
VARIABLE i
Init == i = Chunk + 1 /\ i <= N
Next == i + NChunks <= N /\ i' = i + NChunks
Judge == IF Robust(Events[i]) THEN TRUE ELSE Emit([id |-> Events[i].id, broken |-> FirstBroken(Events[i])])
Last == (i + NChunks > N) => Emit([id |-> "done", broken |-> "", chunk |-> Chunk])
=============================================================================
