INIT TInit
NEXT TNext
CONSTANT RangeMode = TRUE
CONSTANT Wire <- NoWire
CONSTANT Fn = "none"
CONSTANT Policy = "none"
CONSTANT Chunks <- NoChunks
CONSTANT MaxIncs = 0
INVARIANT Report
CHECK_DEADLOCK FALSE
