----------------------------- MODULE Trace_Stream -----------------------------
(***************************************************************************)
(* impl -> spec for the streaming contract: consumer loops recorded on the  *)
(* real parsers (the model's wires, the repository's captures, seeded       *)
(* random wires; "needed" and "any" read policies) are validated against    *)
(* the actions of Stream.tla.  Every event names its action and carries the *)
(* consumer's state after the step; the trace specification recomputes the  *)
(* step from the wire with the specification's decoder and requires the     *)
(* same state, and evaluates the four properties of Stream.tla in every     *)
(* state of every run.  One verdict line per run.                           *)
(***************************************************************************)
EXTENDS Stream, Emit

ASSUME TLCSet(1, ndJsonDeserialize(IOEnv.VERIF_IN))
Runs == TLCGet(1)
N == Len(Runs)
NoWire == <<>>
NoChunks == {}

VARIABLES r, l, verdict
tvars == <<r, l, verdict, st>>
TInit == r = Chunk + 1 /\ r <= N /\ l = 1 /\ st = S0 /\ verdict = "running"

(* the step the specification allows for a logged action in state s: <<next state>> or <<>> if the action is not enabled *)
Allowed(run, ev, s) ==
  CASE ev.a = "Parse"       -> IF CanParse(s) THEN <<DoParse(run.wire, run.fn, run.policy, s)>> ELSE <<>>
    [] ev.a = "ReadNeeded"  -> IF CanReadNeeded(run.wire, run.policy, s) THEN <<DoReadNeeded(s)>> ELSE <<>>
    [] ev.a = "ReadChunk"   -> IF CanReadChunk(run.wire, run.policy, s) /\ ev.k > 0 THEN <<DoReadChunk(run.wire, s, ev.k)>> ELSE <<>>
    [] ev.a = "EndOfStream" -> IF CanEnd(run.wire, run.policy, s) THEN <<DoEnd(run.wire, s)>> ELSE <<>>
    [] OTHER -> <<>>
MaxIncsOf(fn) == IF fn \in {"parse_dtls_plaintext_record"} THEN 6 ELSE 4
Holds(run, s) ==
  LET ref == Ref(run.wire, run.fn) IN
  /\ BoundedReadsP(run.policy, s, MaxIncsOf(run.fn)) /\ NeverReadsAheadP(run.wire, ref, run.policy, s)
  /\ DeliversReferenceP(ref, s) /\ StuckIffReferenceP(ref, s)

Advance ==
  /\ verdict = "running" /\ l <= Len(Runs[r].events)
  /\ LET run == Runs[r]  ev == run.events[l]  nx == Allowed(run, ev, st) IN
     IF nx # <<>> /\ nx[1] = ev.st /\ Holds(run, nx[1])
     THEN /\ st' = nx[1] /\ l' = l + 1 /\ UNCHANGED r
          /\ verdict' = IF l < Len(run.events) THEN "running"
                        ELSE IF nx[1].phase \in {"end", "stuck"} THEN "accepted" ELSE "unfinished"
     ELSE /\ verdict' = (IF nx = <<>> THEN "not-enabled" ELSE IF nx[1] # ev.st THEN "state-differs" ELSE "property-violated")
          /\ UNCHANGED <<r, l, st>>
NextRun ==
  /\ verdict # "running" \/ Len(Runs[r].events) = 0
  /\ r + NChunks <= N
  /\ r' = r + NChunks /\ l' = 1 /\ st' = S0 /\ verdict' = "running"
TNext == Advance \/ NextRun

Report ==
  verdict # "running" =>
    EmitLine([id |-> Runs[r].id, verdict |-> verdict, at |-> l, state |-> st,
              expected |-> IF verdict \in {"accepted", "unfinished"} THEN <<>>
                           ELSE Allowed(Runs[r], Runs[r].events[l], st)])
=============================================================================
